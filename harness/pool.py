"""Process pool with hard per-task timeouts.

Workers are `/venv/bin/python -m harness.worker` processes speaking JSON lines; a task is
{"fn": "module:function", "args": {...}}.  A worker that exceeds the timeout is killed and replaced;
the task's outcome is then {"status": "timeout"}.  Results come back in task order.
"""
import json
import os
import select
import subprocess
import sys
import time

from .common import ROOT, REPO, PYTHON


class _Worker:
    def __init__(self, env_extra=None):
        env = dict(os.environ)
        env["PYTHONPATH"] = f"{ROOT}:{REPO}" + (":" + env["PYTHONPATH"] if env.get("PYTHONPATH") else "")
        env.setdefault("PYTHONHASHSEED", "0")
        env["PROBING_LAB_POLAR_VERIF"] = "1"
        if env_extra:
            env.update(env_extra)
        self.proc = subprocess.Popen(
            [PYTHON, "-m", "harness.worker"], stdin=subprocess.PIPE, stdout=subprocess.PIPE,
            stderr=subprocess.DEVNULL, cwd=REPO, env=env, text=True, bufsize=1)
        self.task = None
        self.started = 0.0
        self.done = 0

    def send(self, idx, task):
        self.task = idx
        self.started = time.time()
        self.proc.stdin.write(json.dumps(task) + "\n")
        self.proc.stdin.flush()

    def kill(self):
        try:
            self.proc.kill()
            self.proc.wait(timeout=5)
        except Exception:
            pass


def run_tasks(tasks, timeout=60.0, nworkers=None, recycle=40, env_extra=None, progress=None):
    """Run tasks (list of dicts) and return a list of outcome dicts in the same order."""
    if nworkers is None:
        nworkers = int(os.environ.get("VERIF_WORKERS", "14"))
    nworkers = max(1, min(nworkers, len(tasks)))
    results = [None] * len(tasks)
    pending = list(range(len(tasks)))[::-1]
    workers = [_Worker(env_extra) for _ in range(nworkers)]
    busy = 0

    def assign(w):
        nonlocal busy
        if pending:
            i = pending.pop()
            t = dict(tasks[i])
            try:
                w.send(i, t)
                busy += 1
            except Exception:
                results[i] = {"status": "crash", "error": "worker pipe closed"}
                w.task = None

    for w in workers:
        assign(w)
    ndone = 0
    while busy > 0:
        fds = {w.proc.stdout.fileno(): w for w in workers if w.task is not None}
        ready, _, _ = select.select(list(fds.keys()), [], [], 0.5)
        now = time.time()
        for fd in ready:
            w = fds[fd]
            line = w.proc.stdout.readline()
            i = w.task
            if not line:
                results[i] = {"status": "crash", "error": "worker died"}
                w.kill()
                nw = _Worker(env_extra)
                workers[workers.index(w)] = nw
                w = nw
            else:
                try:
                    results[i] = json.loads(line)
                except Exception as e:
                    results[i] = {"status": "crash", "error": f"bad json from worker: {e}"}
                w.done += 1
                if w.done >= recycle:
                    w.kill()
                    nw = _Worker(env_extra)
                    workers[workers.index(w)] = nw
                    w = nw
            w.task = None
            busy -= 1
            ndone += 1
            if progress and ndone % progress == 0:
                print(f"  .. {ndone}/{len(tasks)} tasks", file=sys.stderr, flush=True)
            assign(w)
        for k, w in enumerate(workers):
            if w.task is not None and now - w.started > tasks[w.task].get("timeout", timeout):
                results[w.task] = {"status": "timeout"}
                w.kill()
                busy -= 1
                ndone += 1
                nw = _Worker(env_extra)
                workers[k] = nw
                assign(nw)
    for w in workers:
        try:
            w.proc.stdin.close()
        except Exception:
            pass
        w.kill()
    return results
