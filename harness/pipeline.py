"""Run generated cases through the real Polar pipeline and through the Lean reference semantics,
and compare (the end-to-end oracle of C01, reused by C17-C20)."""
import json
import os
import sys

from . import gen, hast as H
from .common import ROOT, model_batch_parallel, rng
from .oracle import case_text, polar_subs, moments_request, compare_values
from .pool import run_tasks

CORPUS_DIR = os.path.join(ROOT, "corpus")


def _fr_json(o):
    from fractions import Fraction
    if isinstance(o, Fraction):
        return H.fr_str(o)
    if isinstance(o, tuple):
        return list(o)
    if isinstance(o, set):
        return sorted(o)
    return str(o)


def case_to_json(case):
    return json.loads(json.dumps(case, default=_fr_json))


def _tuplify_expr(e):
    t = e[0]
    from fractions import Fraction
    if t == "num":
        return ("num", Fraction(e[1]))
    if t == "var":
        return ("var", e[1])
    if t in ("add", "sub", "mul", "div"):
        return (t, _tuplify_expr(e[1]), _tuplify_expr(e[2]))
    if t == "neg":
        return ("neg", _tuplify_expr(e[1]))
    if t == "pow":
        return ("pow", _tuplify_expr(e[1]), int(e[2]))
    raise ValueError(e)


def _tuplify_cond(c):
    t = c[0]
    if t in ("tt", "ff"):
        return (t,)
    if t == "cmp":
        return ("cmp", c[1], _tuplify_expr(c[2]), _tuplify_expr(c[3]))
    if t == "not":
        return ("not", _tuplify_cond(c[1]))
    return (t, _tuplify_cond(c[1]), _tuplify_cond(c[2]))


def _tuplify_rhs(r):
    t = r[0]
    if t == "expr":
        return ("expr", _tuplify_expr(r[1]))
    if t == "choice":
        return ("choice", [(_tuplify_expr(e), _tuplify_expr(p)) for e, p in r[1]])
    if t == "dist":
        return ("dist", r[1], [_tuplify_expr(p) for p in r[2]])
    if t == "func":
        return ("func", r[1], r[2])
    raise ValueError(r)


def _tuplify_stmts(ss):
    out = []
    for s in ss:
        if s[0] == "assign":
            out.append(("assign", s[1], _tuplify_rhs(s[2]), _tuplify_cond(s[3]), s[4]))
        elif s[0] == "simult":
            out.append(("simult", list(s[1]), [_tuplify_rhs(r) for r in s[2]]))
        else:
            out.append(("ite", _tuplify_cond(s[1]), _tuplify_stmts(s[2]), _tuplify_stmts(s[3])))
    return out


def case_from_json(j):
    from fractions import Fraction
    c = dict(j)
    p = j["program"]
    c["program"] = {"init": _tuplify_stmts(p["init"]), "guard": _tuplify_cond(p["guard"]),
                    "body": _tuplify_stmts(p["body"])}
    if p.get("types"):
        c["program"]["types"] = [tuple(t) for t in p["types"]]
    c["goals"] = [[(x, int(k)) for x, k in g] for g in j["goals"]]
    c["params"] = {k: Fraction(v) for k, v in j.get("params", {}).items()}
    c["sigma0"] = {k: Fraction(v) for k, v in j.get("sigma0", {}).items()}
    return c


def load_corpus(prop=None):
    out = []
    if not os.path.isdir(CORPUS_DIR):
        return out
    for f in sorted(os.listdir(CORPUS_DIR)):
        if not f.endswith(".json"):
            continue
        with open(os.path.join(CORPUS_DIR, f)) as fh:
            j = json.load(fh)
        if prop and j.get("props") and prop not in j["props"]:
            continue
        c = case_from_json(j)
        c["corpus"] = f
        out.append(c)
    return out


def generate_cases(n, tag, families=None):
    r = rng(tag)
    out = []
    for i in range(n):
        fam = None
        if families:
            fam = families[i % len(families)]
        c = gen.generate(r, fam)
        c["id"] = f"{tag}-{i}"
        out.append(c)
    return out


def analyze_cases(cases, nmax, timeout, settings=None, force_cyclic=False, style=None, progress=None):
    """returns list of records {case, polar, oracle, status, mismatches}"""
    tasks = []
    for c in cases:
        text = c.get("text") or case_text(c, style)
        c["text_used"] = text
        tasks.append({"fn": "harness.tasks.analyze:analyze",
                      "args": {"text": text, "goals": [[[x, k] for x, k in g] for g in c["goals"]],
                               "subs": polar_subs(c), "nmax": nmax, "settings": settings,
                               "force_cyclic": force_cyclic}})
    polar = run_tasks(tasks, timeout=timeout, progress=progress)
    reqs = [moments_request(c, nmax) for c in cases]
    oracle = model_batch_parallel(reqs)
    recs = []
    for c, p, o in zip(cases, polar, oracle):
        recs.append(judge(c, p, o))
    return recs


def judge(case, p, o):
    rec = {"case": case, "polar": p, "oracle": o, "mismatches": [], "status": None}
    if p["status"] == "timeout":
        rec["status"] = "refused-timeout"
        return rec
    if p["status"] != "ok":
        rec["status"] = "harness-error"
        rec["detail"] = p
        return rec
    res = p["result"]
    if not res["accepted"]:
        rec["status"] = "refused-" + res["error"]["stage"]
        return rec
    if not o.get("ok"):
        rec["status"] = "oracle-refused"
        rec["detail"] = o.get("error")
        return rec
    any_ok = False
    for gi, g in enumerate(res["goals"]):
        if not g.get("ok"):
            continue
        any_ok = True
        bad = compare_values([tuple(v) for v in g["values"]], o["values"][gi])
        for (n, kind, pv, ov) in bad:
            rec["mismatches"].append({"goal": g["mono"], "n": n, "kind": kind, "polar": pv, "oracle": ov,
                                      "closed_form": g.get("closed_form"), "exact_flag": g.get("exact")})
    if not any_ok:
        rec["status"] = "refused-solve"
    else:
        rec["status"] = "mismatch" if rec["mismatches"] else "agree"
    return rec


def nontrivial_key(rec):
    """a case is non-trivial if some goal's oracle sequence is not constant in n"""
    o = rec["oracle"]
    if not o.get("ok"):
        return None
    if any(len(set(v)) > 1 for v in o["values"]):
        return rec["case"].get("text_used")
    return None


def replay_blob(rec):
    c = rec["case"]
    return {"case": case_to_json({k: v for k, v in c.items() if k not in ("text_used",)}),
            "text": c.get("text_used"), "mismatches": rec["mismatches"][:6],
            "polar_subs": polar_subs(c),
            "how": "feed `text` to polar (Parser().parse_string -> normalize_program -> RecBuilder/RecurrenceSolver), "
                   "evaluate the closed form of the goal at n with polar_subs; `oracle` is E(goal) after n "
                   "iterations under the Lean reference semantics (polar-model op=moments)"}
