"""C13 support (pure Python, imports nothing from Polar): a mini-parser for the `.prob` subset used
by programs with Sin/Cos/Exp assignments, an independent symbolic interpreter (weighted paths over
finite draws, fresh *draw atoms* for continuous draws, function atoms sin/cos/exp of a draw atom),
expectation as a combination of per-draw mixed moments E[X^a sin^b X cos^c X e^{dX}] (independent
draws factorise), and the seeded program generator.

Only the quadrature values of the per-draw moments are transcendental; everything else is exact
`Fraction` arithmetic.
"""
import ast
import re
from fractions import Fraction as Fr

FUNCS = ("Sin", "Cos", "Exp")
KIND = {"Sin": "s", "Cos": "c", "Exp": "e"}
DIST_ALIASES = {"DistExp": "Exponential"}
FINITE_FAMILIES = ("Bernoulli", "DiscreteUniform", "Categorical")


class Unsupported(Exception):
    pass


# ------------------------------------------------------------------------------------------------
# parsing
# ------------------------------------------------------------------------------------------------

def _py(expr_text):
    return ast.parse(expr_text.strip(), mode="eval").body


def _split_top(s):
    """split at top-level commas"""
    out, depth, cur = [], 0, ""
    for ch in s:
        if ch in "([":
            depth += 1
        if ch in ")]":
            depth -= 1
        if ch == "," and depth == 0:
            out.append(cur)
            cur = ""
        else:
            cur += ch
    out.append(cur)
    return [x.strip() for x in out]


_CALL = re.compile(r"^([A-Z][A-Za-z_0-9]*)\((.*)\)$")


def _parse_rhs(txt):
    m = _CALL.match(txt.strip())
    if m:
        name, args = m.group(1), m.group(2)
        if name in FUNCS:
            return ("func", name, _py(args))
        return ("dist", DIST_ALIASES.get(name, name), [_py(a) for a in _split_top(args)] if args.strip() else [])
    if "{" in txt:
        raise Unsupported("probabilistic choice")
    return ("poly", _py(txt))


def _parse_cond(txt):
    m = re.match(r"^\s*([A-Za-z_][A-Za-z_0-9]*)\s*(==|/=)\s*(.+?)\s*$", txt)
    if not m:
        raise Unsupported("condition " + txt)
    return (m.group(1), m.group(2), _py(m.group(3)))


def parse_prob(text):
    """-> {"init": [stmt], "body": [stmt]}; stmt = ("assign", [vars], [rhs]) | ("if", cond, [stmt], [stmt])"""
    lines = []
    for raw in text.split("\n"):
        l = raw.split("#")[0].strip()
        if l:
            lines.append(l)
    pos = 0

    def parse_if(head):
        """head: '<cond>:' ; consumes the branches up to (not including) the closing 'end'"""
        nonlocal pos
        if not head.endswith(":"):
            raise Unsupported(head)
        cond = _parse_cond(head[:-1])
        pos += 1
        then = block(("end",))
        els = []
        if pos < len(lines) and lines[pos].startswith("elif "):
            els = [parse_if(lines[pos][5:])]
        elif pos < len(lines) and lines[pos].startswith("else"):
            pos += 1
            els = block(("end",))
        return ("if", cond, then, els)

    def block(stop):
        nonlocal pos
        out = []
        while pos < len(lines):
            l = lines[pos]
            if l in stop or l.startswith("while ") or l.startswith("else") or l.startswith("elif"):
                return out
            if l.startswith("if "):
                out.append(parse_if(l[3:]))
                if pos >= len(lines) or lines[pos] != "end":
                    raise Unsupported("if without end")
                pos += 1
                continue
            if l.startswith("types"):
                raise Unsupported("types block")
            if "=" not in l:
                raise Unsupported(l)
            lhs, rhs = l.split("=", 1)
            vs = [v.strip() for v in lhs.split(",")]
            rs = [_parse_rhs(r) for r in _split_top(rhs)]
            if len(vs) != len(rs):
                raise Unsupported("arity " + l)
            out.append(("assign", vs, rs))
            pos += 1
        return out

    init = block(())
    if pos >= len(lines) or not lines[pos].startswith("while"):
        raise Unsupported("no loop")
    guard = None
    if lines[pos].replace(" ", "") != "whiletrue:":
        if not lines[pos].endswith(":"):
            raise Unsupported("loop guard")
        guard = _parse_cond(lines[pos][len("while"):-1])
    pos += 1
    body = block(("end",))
    return {"init": init, "body": body, "guard": guard}


# ------------------------------------------------------------------------------------------------
# polynomials over atoms, coefficients Fraction
# ------------------------------------------------------------------------------------------------
# atom: ("d", draw_id, kind)  kind in "usce"  (identity, sin, cos, exp of draw number draw_id)
#       ("k", func, "p/q")    Sin/Cos/Exp of a rational constant
# mono: tuple(sorted((atom, power)))

def p_const(c):
    c = Fr(c)
    return {(): c} if c else {}


def p_atom(a):
    return {((a, 1),): Fr(1)}


def p_add(p, q, sign=1):
    r = dict(p)
    for m, c in q.items():
        v = r.get(m, 0) + sign * c
        if v:
            r[m] = v
        else:
            r.pop(m, None)
    return r


def _m_mul(m1, m2):
    d = dict(m1)
    for a, k in m2:
        d[a] = d.get(a, 0) + k
    return tuple(sorted(d.items()))


def p_mul(p, q):
    r = {}
    for m1, c1 in p.items():
        for m2, c2 in q.items():
            m = _m_mul(m1, m2)
            v = r.get(m, 0) + c1 * c2
            if v:
                r[m] = v
            else:
                r.pop(m, None)
    return r


def p_pow(p, k):
    r = p_const(1)
    for _ in range(k):
        r = p_mul(r, p)
    return r


def p_is_const(p):
    if not p:
        return Fr(0)
    if len(p) == 1 and () in p:
        return p[()]
    return None


def eval_number(node):
    """python ast of a parameter -> (r, q) meaning r + q*pi"""
    if isinstance(node, ast.Constant):
        return (Fr(str(node.value)), Fr(0))
    if isinstance(node, ast.Name) and node.id == "pi":
        return (Fr(0), Fr(1))
    if isinstance(node, ast.UnaryOp) and isinstance(node.op, (ast.USub, ast.UAdd)):
        r, q = eval_number(node.operand)
        return (-r, -q) if isinstance(node.op, ast.USub) else (r, q)
    if isinstance(node, ast.BinOp):
        a, b = eval_number(node.left), eval_number(node.right)
        if isinstance(node.op, ast.Add):
            return (a[0] + b[0], a[1] + b[1])
        if isinstance(node.op, ast.Sub):
            return (a[0] - b[0], a[1] - b[1])
        if isinstance(node.op, ast.Mult):
            if a[1] == 0:
                return (a[0] * b[0], a[0] * b[1])
            if b[1] == 0:
                return (a[0] * b[0], a[1] * b[0])
        if isinstance(node.op, ast.Div) and b[1] == 0 and b[0] != 0:
            return (a[0] / b[0], a[1] / b[0])
        if isinstance(node.op, ast.Pow) and a[1] == 0 and b[1] == 0 and b[0].denominator == 1:
            return (a[0] ** int(b[0]), Fr(0))
    raise Unsupported("parameter expression")


def num_str(rq):
    r, q = rq
    s = f"{r.numerator}/{r.denominator}"
    if q:
        s += f"+{q.numerator}/{q.denominator}*pi"
    return s


def eval_poly(node, env):
    if isinstance(node, ast.Constant):
        return p_const(Fr(str(node.value)))
    if isinstance(node, ast.Name):
        if node.id not in env:
            raise Unsupported("uninitialised variable " + node.id)
        return env[node.id]
    if isinstance(node, ast.UnaryOp) and isinstance(node.op, ast.USub):
        return p_add({}, eval_poly(node.operand, env), -1)
    if isinstance(node, ast.UnaryOp) and isinstance(node.op, ast.UAdd):
        return eval_poly(node.operand, env)
    if isinstance(node, ast.BinOp):
        if isinstance(node.op, ast.Pow):
            k = eval_number(node.right)
            if k[1] != 0 or k[0].denominator != 1 or k[0] < 0:
                raise Unsupported("power")
            return p_pow(eval_poly(node.left, env), int(k[0]))
        a = eval_poly(node.left, env)
        b = eval_poly(node.right, env)
        if isinstance(node.op, ast.Add):
            return p_add(a, b)
        if isinstance(node.op, ast.Sub):
            return p_add(a, b, -1)
        if isinstance(node.op, ast.Mult):
            return p_mul(a, b)
        if isinstance(node.op, ast.Div):
            c = p_is_const(b)
            if c is None or c == 0:
                raise Unsupported("division")
            return p_mul(a, p_const(1 / c))
    raise Unsupported("expression " + ast.dump(node)[:60])


# ------------------------------------------------------------------------------------------------
# interpreter
# ------------------------------------------------------------------------------------------------

class Interp:
    """weighted paths; finite-family draws branch, other draws create a fresh atom"""

    def __init__(self, prog, max_paths=4096):
        self.prog = prog
        self.draws = []          # draw_id -> (family, (param strings…))
        self.max_paths = max_paths

    def _finite_support(self, fam, params):
        if any(q != 0 for _, q in params):
            raise Unsupported("pi in a finite family")
        ps = [r for r, _ in params]
        if fam == "Bernoulli":
            return [(1 - ps[0], Fr(0)), (ps[0], Fr(1))]
        if fam == "DiscreteUniform":
            a, b = int(ps[0]), int(ps[1])
            n = b - a + 1
            return [(Fr(1, n), Fr(v)) for v in range(a, b + 1)]
        if fam == "Categorical":
            return [(p, Fr(i)) for i, p in enumerate(ps)]
        raise Unsupported(fam)

    def _rhs(self, rhs, env):
        """-> list of (weight, poly)"""
        if rhs[0] == "poly":
            return [(Fr(1), eval_poly(rhs[1], env))]
        if rhs[0] == "dist":
            fam = rhs[1]
            params = [eval_number(p) for p in rhs[2]]
            if fam in FINITE_FAMILIES:
                return [(w, p_const(v)) for w, v in self._finite_support(fam, params) if w != 0]
            self.draws.append((fam, tuple(num_str(p) for p in params)))
            return [(Fr(1), p_atom(("d", len(self.draws) - 1, "u")))]
        if rhs[0] == "func":
            f, arg = rhs[1], rhs[2]
            val = eval_poly(arg, env)
            c = p_is_const(val)
            if c is not None:
                return [(Fr(1), p_atom(("k", f, f"{c.numerator}/{c.denominator}")))]
            if len(val) == 1:
                (m, co), = val.items()
                if co == 1 and len(m) == 1 and m[0][1] == 1 and m[0][0][0] == "d" and m[0][0][2] == "u":
                    return [(Fr(1), p_atom(("d", m[0][0][1], KIND[f])))]
            raise Unsupported("functional argument is not a draw or a constant")
        raise Unsupported(str(rhs[0]))

    def _holds(self, cond, env):
        var, op, rhs = cond
        if var not in env:
            raise Unsupported("uninitialised " + var)
        c = p_is_const(env[var])
        r = eval_number(rhs)
        if c is None or r[1] != 0:
            raise Unsupported("condition on a non-finite value")
        return (c == r[0]) if op == "==" else (c != r[0])

    def _exec(self, stmts, paths):
        for st in stmts:
            new = []
            if st[0] == "assign":
                for w, env in paths:
                    alts = [(Fr(1), [])]
                    for rhs in st[2]:
                        outs = self._rhs(rhs, env)     # all right sides read the old environment
                        alts = [(w0 * w1, vs + [p]) for w0, vs in alts for w1, p in outs]
                    for w1, vals in alts:
                        e2 = dict(env)
                        for v, p in zip(st[1], vals):
                            e2[v] = p
                        new.append((w * w1, e2))
            else:
                _, (var, op, rhs), then, els = st
                yes, no = [], []
                for w, env in paths:
                    (yes if self._holds((var, op, rhs), env) else no).append((w, env))
                new = (self._exec(then, yes) if yes else []) + (self._exec(els, no) if no else [])
            paths = new
            if len(paths) > self.max_paths:
                raise Unsupported("too many paths")
        return paths

    def run(self, goals, nmax):
        """goals: list of monomials [[var, power], …]; returns per goal a list over n of symbolic
        expectations: [(coef Fraction, [moment keys], [const keys])…]"""
        paths = self._exec(self.prog["init"], [(Fr(1), {})])
        out = [[] for _ in goals]
        for n in range(nmax + 1):
            for gi, g in enumerate(goals):
                acc = {}
                for w, env in paths:
                    p = p_const(1)
                    for v, k in g:
                        if v not in env:
                            raise Unsupported("goal over unset variable " + v)
                        p = p_mul(p, p_pow(env[v], int(k)))
                    acc = p_add(acc, p_mul(p_const(w), p))
                out[gi].append(self._expect(acc))
            if n < nmax:
                guard = self.prog.get("guard")
                if guard is None:
                    paths = self._exec(self.prog["body"], paths)
                else:               # the state is frozen once the loop guard is false
                    run, frozen = [], []
                    for w, env in paths:
                        (run if self._holds(guard, env) else frozen).append((w, env))
                    paths = (self._exec(self.prog["body"], run) if run else []) + frozen
        return out

    def _expect(self, poly):
        terms = []
        for mono, co in poly.items():
            per_draw, consts = {}, []
            for atom, k in mono:
                if atom[0] == "d":
                    e = per_draw.setdefault(atom[1], [0, 0, 0, 0])
                    e["usce".index(atom[2])] += k
                else:
                    consts.append((atom[1], atom[2], k))
            mkeys = []
            for did, e in sorted(per_draw.items()):
                fam, params = self.draws[did]
                mkeys.append((fam, params, tuple(e)))
            terms.append((co, mkeys, consts))
        return terms


def moment_keys(expectations):
    keys = set()
    for per_goal in expectations:
        for terms in per_goal:
            for _, mkeys, _ in terms:
                keys.update(mkeys)
    return keys


def const_keys(expectations):
    keys = set()
    for per_goal in expectations:
        for terms in per_goal:
            for _, _, consts in terms:
                keys.update(consts)
    return keys


# ------------------------------------------------------------------------------------------------
# program generator (text in Polar's syntax; the interpreter consumes the same text)
# ------------------------------------------------------------------------------------------------

def _fr(r):
    return str(r.numerator) if r.denominator == 1 else f"{r.numerator}/{r.denominator}"


CONT_PARAMS = {
    "Normal": [("0", "1"), ("1", "2"), ("-1/2", "1/4"), ("2", "1/2")],
    "Uniform": [("2", "4"), ("-1", "1"), ("0", "1/2"), ("1/2", "3")],
    "DistExp": [("2",), ("5",), ("3/2",)],
    "Gamma": [("1", "1/2"), ("2", "1/3"), ("3/2", "1/4")],
    "Laplace": [("1", "1/2"), ("0", "1/4"), ("-2", "1/3")],
    "Beta": [("3", "1"), ("2", "2")],
}
# the largest integer c with E[e^{cX}] finite (None = all): used to generate admissible / inadmissible Exp powers
EXP_LIMIT = {("DistExp", ("2",)): 1, ("DistExp", ("5",)): 4, ("DistExp", ("3/2",)): 1,
             ("Gamma", ("1", "1/2")): 1, ("Gamma", ("2", "1/3")): 2, ("Gamma", ("3/2", "1/4")): 3,
             ("Laplace", ("1", "1/2")): 1, ("Laplace", ("0", "1/4")): 3, ("Laplace", ("-2", "1/3")): 2}


def _pick_dist(R, families=None):
    fam = R.choice(families or list(CONT_PARAMS))
    ps = R.choice(CONT_PARAMS[fam])
    return fam, ps


def _dist_txt(fam, ps):
    return f"{fam}({', '.join(ps)})"


def _mono_txt(factors):
    fs = []
    for v, k in factors:
        if k == 1:
            fs.append(v)
        elif k > 1:
            fs.append(f"{v}**{k}")
    return "*".join(fs) if fs else "1"


def gen_program(R, shape):
    """returns {"text", "goals", "shape", "expect": "value"|"refuse-nonexistent"|"mix"}"""
    coef = R.choice(["", "2*", "1/2*", "-3*", "1/3*"])
    if shape == "acc":            # u = D; s = Sin(u); c = Cos(u); x = x + k*u^a*s^b*c^c
        fam, ps = _pick_dist(R)
        a, b, c = R.randint(0, 2), R.randint(0, 3), R.randint(0, 3)
        if b + c == 0:
            b = 1
        body = [f"u = {_dist_txt(fam, ps)}", "s = Sin(u)", "c = Cos(u)",
                f"x = x + {coef}{_mono_txt([('u', a), ('s', b), ('c', c)])}"]
        return dict(text=_wrap(["x = 0"], body), goals=[[["x", 1]], [["x", 2]]] if R.random() < 0.3 else [[["x", 1]]],
                    shape=shape, expect="value")
    if shape == "exp":            # admissible exponential moment
        fam, ps = _pick_dist(R)
        lim = EXP_LIMIT.get((fam, ps))
        d = R.randint(1, 2 if lim is None else max(1, min(2, lim)))
        a = R.randint(0, 2)
        body = [f"u = {_dist_txt(fam, ps)}", "f = Exp(u)", f"x = x + {coef}{_mono_txt([('u', a), ('f', d)])}"]
        return dict(text=_wrap(["x = 0"], body), goals=[[["x", 1]]], shape=shape, expect="value")
    if shape == "exp_missing":    # exponential moment that does not exist: must be refused
        (fam, ps), lim = R.choice(sorted(EXP_LIMIT.items()))
        d = lim + R.randint(1, 2)
        a = R.randint(0, 1)
        body = [f"u = {_dist_txt(fam, ps)}", "f = Exp(u)", f"x = x + {_mono_txt([('u', a), ('f', d)])}"]
        return dict(text=_wrap(["x = 0"], body), goals=[[["x", 1]]], shape=shape, expect="refuse-nonexistent")
    if shape == "ref":            # y = u; s = Sin(y)
        fam, ps = _pick_dist(R)
        f1 = R.choice(FUNCS[:2])
        body = [f"u = {_dist_txt(fam, ps)}", "y = u", f"s = {f1}(y)"]
        if R.random() < 0.5:
            body += ["z = y", "c = Cos(z)", f"x = x + {coef}s*c*u"]
        else:
            body += [f"x = x + {coef}s*u**{R.randint(0, 2)}"]
        return dict(text=_wrap(["x = 0"], body), goals=[[["x", 1]]], shape=shape, expect="value")
    if shape == "later":          # functional variable used two statements later, next to a counter
        fam, ps = _pick_dist(R)
        f1 = R.choice(FUNCS[:2])
        body = [f"u = {_dist_txt(fam, ps)}", f"s = {f1}(u)", "z = z + 1", "w = 2*z + 1",
                f"x = x + {coef}s*w" + ("*u" if R.random() < 0.5 else "")]
        return dict(text=_wrap(["x = 0", "z = 0"], body), goals=[[["x", 1]]], shape=shape, expect="value")
    if shape == "two":            # two draws, each with its own functions
        fam1, ps1 = _pick_dist(R)
        fam2, ps2 = _pick_dist(R)
        lim2 = EXP_LIMIT.get((fam2, ps2))
        g = "Exp" if (lim2 is None or lim2 >= 1) and R.random() < 0.5 else "Cos"
        body = [f"u = {_dist_txt(fam1, ps1)}", f"v = {_dist_txt(fam2, ps2)}", "s = Sin(u)", f"g = {g}(v)",
                "c = Cos(u)", f"x = x + {coef}s*g*u + c*v*g", "y = y + s*c"]
        return dict(text=_wrap(["x = 0", "y = 0"], body), goals=[[["x", 1]], [["y", 1]]], shape=shape, expect="value")
    if shape == "cond":           # accumulation under a Bernoulli flag
        fam, ps = _pick_dist(R)
        p = R.choice(["1/2", "1/3", "3/4"])
        body = [f"b = Bernoulli({p})", f"u = {_dist_txt(fam, ps)}", "s = Sin(u)", "c = Cos(u)",
                "if b == 1:", f"    x = x + {coef}s*u", "else:", "    x = x - c", "end"]
        return dict(text=_wrap(["x = 0", "b = 0"], body), goals=[[["x", 1]]], shape=shape, expect="value")
    if shape == "condfunc":       # conditioned functional assignment keeps its old value otherwise
        fam, ps = _pick_dist(R)
        p = R.choice(["1/2", "1/3", "3/4"])
        f1 = R.choice(FUNCS[:2])
        body = [f"b = Bernoulli({p})", f"u = {_dist_txt(fam, ps)}", "if b == 1:", f"    s = {f1}(u)", "end",
                f"x = x + {coef}s"]
        return dict(text=_wrap(["x = 0", "b = 0", "s = 0"], body), goals=[[["x", 1]], [["s", 1]]], shape=shape, expect="value")
    if shape == "const":          # Sin/Cos/Exp of constants and of references to constants
        k = R.choice(["2", "1", "3", "0.5", "0.25"])
        k2 = R.choice(["1", "2", "3"])
        body = [f"s = Sin({k})", f"k = {k2}", "c = Cos(k)", f"g = Exp({R.choice(['1', '2', '0.5'])})",
                f"x = x + {coef}s**{R.randint(1, 3)}*c + g**{R.randint(1, 2)}"]
        return dict(text=_wrap(["x = 0"], body), goals=[[["x", 1]]], shape=shape, expect="value")
    if shape == "stale":          # the functional variable read before it is reassigned (previous iteration's value)
        fam, ps = _pick_dist(R)
        body = [f"x = x + {coef}s*c", f"u = {_dist_txt(fam, ps)}", "s = Sin(u)", "c = Cos(u)"]
        return dict(text=_wrap(["x = 0", "s = 0", "c = 1"], body), goals=[[["x", 1]]], shape=shape, expect="value")
    if shape == "rot":            # rotation by a random angle (the vehicle-model pattern)
        fam, ps = _pick_dist(R, ["Normal", "Uniform", "Laplace"])
        body = [f"w = {_dist_txt(fam, ps)}", "cw = Cos(w)", "sw = Sin(w)",
                "x, y = x*cw - y*sw, y*cw + x*sw"]
        return dict(text=_wrap(["x = 1", "y = 0"], body), goals=[[["x", 1]], [["y", 1]]], shape=shape, expect="value")
    if shape == "finite":         # Sin/Cos of a finite draw (Bernoulli / DiscreteUniform)
        d = R.choice(["Bernoulli(1/3)", "Bernoulli(1/2)", "DiscreteUniform(1, 3)", "DiscreteUniform(-1, 2)"])
        body = [f"u = {d}", "s = Sin(u)", "c = Cos(u)",
                f"x = x + {coef}{_mono_txt([('u', R.randint(0, 1)), ('s', R.randint(1, 2)), ('c', R.randint(0, 1))])}"]
        return dict(text=_wrap(["x = 0", "u = 0"], body), goals=[[["x", 1]]], shape=shape, expect="value")
    if shape == "dup":            # several functional variables of the same function and draw: powers add up
        fam, ps = _pick_dist(R)
        lim = EXP_LIMIT.get((fam, ps))
        f1 = R.choice(FUNCS if (lim is None or lim >= 2) else FUNCS[:2])
        other = "Cos" if f1 == "Sin" else ("Sin" if f1 == "Cos" else None)
        body = [f"u = {_dist_txt(fam, ps)}", f"p = {f1}(u)", f"q = {f1}(u)"]
        if other:
            body += [f"r = {other}(u)", f"x = x + {coef}p*q*r + p"]
        else:
            body += [f"x = x + {coef}p*q*u + p"]
        return dict(text=_wrap(["x = 0"], body), goals=[[["x", 1]]], shape=shape, expect="value")
    if shape == "init":           # draw and its functions in the initial block: the same random value in every iteration
        fam, ps = _pick_dist(R)
        init = [f"u = {_dist_txt(fam, ps)}", "s = Sin(u)", "c = Cos(u)", "x = 0", "y = 0"]
        body = [f"x = x + {coef}s", "y = y + c*s"]
        return dict(text=_wrap(init, body), goals=[[["x", 1]], [["x", 2]], [["y", 1]]], shape=shape, expect="value")
    if shape == "conddist":       # Sin of a conditioned draw: documented as unsupported (must be refused or right)
        fam, ps = _pick_dist(R)
        p = R.choice(["1/2", "1/3"])
        body = [f"b = Bernoulli({p})", "if b == 1:", f"    u = {_dist_txt(fam, ps)}", "end", "s = Sin(u)", "x = x + s"]
        return dict(text=_wrap(["x = 0", "b = 0", "u = 0"], body), goals=[[["x", 1]]], shape=shape, expect="value")
    if shape.startswith("re_"):   # conditioned functional assignment whose target is assigned several times per iteration
        fam, ps = _pick_dist(R, ["Normal", "Uniform", "Laplace", "Gamma"])
        p = R.choice(["1/4", "1/2", "1/3", "3/4"])
        f1 = R.choice(FUNCS[:2])
        f2 = "Cos" if f1 == "Sin" else "Sin"
        acc = f"x = x + {coef}s"
        goals = [[["x", 1]], [["s", 1]], [["s", 2]]]
        init = ["x = 0", "s = 0", "b = 0"]
        head = [f"b = Bernoulli({p})", f"u = {_dist_txt(fam, ps)}"]
        if shape == "re_poly":        # s = poly first, then s = F(u) under if
            body = head + [R.choice(["s = u**2", "s = 2*u + 1", "s = 1", "s = s + 1"]), "if b == 1:", f"    s = {f1}(u)", "end", acc]
        elif shape == "re_draw":      # s = fresh draw first
            fam2, ps2 = _pick_dist(R, ["Normal", "Uniform"])
            body = head + [f"s = {_dist_txt(fam2, ps2)}", "if b == 1:", f"    s = {f1}(u)", "end", acc]
        elif shape == "re_func":      # s = another functional first
            body = head + [f"s = {f2}(u)", "if b == 1:", f"    s = {f1}(u)", "end", acc]
        elif shape == "re_after":     # assigned before and after the conditioned functional assignment
            body = head + ["s = u", "if b == 1:", f"    s = {f1}(u)", "end", acc, R.choice(["s = s*s", "s = s + 2", "s = 3"])]
        elif shape == "re_else":      # if / else, both branches functional or polynomial
            body = head + ["s = u**2", "if b == 1:", f"    s = {f1}(u)", "else:", R.choice([f"    s = {f2}(u)", "    s = s + 1", "    y = s"]), "end", acc]
            init.append("y = 0")
        elif shape == "re_elif":      # three-way branch on a finite draw
            head[0] = "b = DiscreteUniform(0, 2)"
            body = head + ["s = 1 + u", "if b == 0:", f"    s = {f1}(u)", "elif b == 1:", f"    s = {f2}(u)", "else:", "    s = s*u", "end", acc]
        elif shape == "re_nested":    # nested ifs
            body = head + ["a = Bernoulli(1/2)", "s = u**2", "if a == 1:", "    s = s + 1", "    if b == 1:", f"        s = {f1}(u)", "    end", "end", acc]
            init.append("a = 0")
        elif shape == "re_guard":     # under a loop guard
            body = head + ["s = u**2", "if b == 1:", f"    s = {f1}(u)", "end", acc, "g = Bernoulli(1/3)"]
            init.append("g = 0")
            text = "\n".join(init + ["while g == 0:"] + ["    " + l for l in body] + ["end"]) + "\n"
            return dict(text=text, goals=goals, shape=shape, expect="value")
        else:
            raise ValueError(shape)
        return dict(text=_wrap(init, body), goals=goals, shape=shape, expect="value")
    if shape == "mix":            # Sin/Cos together with Exp of the same draw (documented as rejected)
        fam, ps = _pick_dist(R, ["Normal", "Uniform"])
        f1 = R.choice(FUNCS[:2])
        body = [f"u = {_dist_txt(fam, ps)}", f"s = {f1}(u)", "f = Exp(u)", f"y = s*f" + ("*u" if R.random() < 0.3 else "")]
        return dict(text=_wrap(["y = 0"], body), goals=[[["y", 1]]], shape=shape, expect="mix")
    raise ValueError(shape)


def _wrap(init, body):
    return "\n".join(init + ["while true:"] + ["    " + l for l in body] + ["end"]) + "\n"


SHAPES = ["acc", "acc", "exp", "exp_missing", "ref", "later", "two", "cond", "condfunc", "const", "stale",
          "rot", "finite", "mix", "dup", "init", "conddist",
          "re_poly", "re_draw", "re_func", "re_after", "re_else", "re_elif", "re_nested", "re_guard"]


def benchmark_goals(text):
    """goal monomials of the `#test: raw; <monomial>; …` lines of a benchmark"""
    goals = []
    for l in text.split("\n"):
        m = re.match(r"^#test:\s*raw;\s*([^;]+);", l.strip())
        if not m:
            continue
        node = _py(m.group(1).strip())
        g = _mono_of(node)
        if g is not None and g not in goals:
            goals.append(g)
    return goals


def _mono_of(node):
    if isinstance(node, ast.Name):
        return [[node.id, 1]]
    if isinstance(node, ast.BinOp) and isinstance(node.op, ast.Pow) and isinstance(node.left, ast.Name) \
            and isinstance(node.right, ast.Constant):
        return [[node.left.id, int(node.right.value)]]
    if isinstance(node, ast.BinOp) and isinstance(node.op, ast.Mult):
        a, b = _mono_of(node.left), _mono_of(node.right)
        if a is None or b is None:
            return None
        d = {}
        for v, k in a + b:
            d[v] = d.get(v, 0) + k
        return [[v, k] for v, k in sorted(d.items())]
    return None


# ------------------------------------------------------------------------------------------------
# numeric comparison helpers (mpmath; explicit tolerances because the property speaks of rounding)
# ------------------------------------------------------------------------------------------------
TOL = {"exact": "1e-25", "rounded": "1e-18"}     # relative to the scale of the expectation
DPS = 50


def _mp():
    import mpmath
    mpmath.mp.dps = DPS
    return mpmath


def parse_complex(s):
    """'1.5', '1.5 - 2.0e-40*I', '3/7' -> (re, im) as mpf"""
    mp = _mp()
    s = str(s).strip()
    if re.match(r"^-?\d+/\d+$", s):
        p, q = s.split("/")
        return mp.mpf(int(p)) / int(q), mp.mpf(0)
    t = s.replace(" ", "").replace("*I", "j").replace("I", "1j")
    try:
        return mp.mpf(t), mp.mpf(0)
    except Exception:
        pass
    if t.endswith("j"):
        body = t[:-1]
        cut = 0
        for i in range(len(body) - 1, 0, -1):
            if body[i] in "+-" and body[i - 1] not in "eE":
                cut = i
                break
        try:
            re_part = mp.mpf(body[:cut]) if cut > 0 else mp.mpf(0)
            im_txt = body[cut:]
            if im_txt in ("+", "-", ""):
                im_txt += "1"
            return re_part, mp.mpf(im_txt)
        except Exception:
            pass
    raise ValueError("cannot parse number " + s)


def value_of_tagged(v):
    """value returned by harness.tasks.analyze.to_rational -> (re, im) or None"""
    kind, s = v
    if kind in ("q", "irrational", "float"):
        try:
            return parse_complex(s)
        except ValueError:
            return None
    return None


def close(actual, expected, scale, mode):
    """|actual - expected| <= tol(mode) * max(scale, |expected|) (+ 1e-33 absolute for the oracle)"""
    mp = _mp()
    re_, im_ = actual
    tol = mp.mpf(TOL[mode])
    bound = tol * max(abs(scale), abs(expected)) + mp.mpf("1e-33")
    return abs(re_ - expected) <= bound and abs(im_) <= bound


def eval_expectation(terms, mvals, cvals):
    """terms from Interp._expect; mvals/cvals: key -> mpf (None = moment does not exist).
    Returns (value, scale) or (None, None) when a needed moment does not exist."""
    mp = _mp()
    total, scale = mp.mpf(0), mp.mpf(0)
    for co, mkeys, consts in terms:
        t = mp.mpf(co.numerator) / co.denominator
        for k in mkeys:
            if mvals.get(k) is None:
                return None, None
            t *= mvals[k]
        for k in consts:
            t *= cvals[k]
        total += t
        scale += abs(t)
    return total, scale
