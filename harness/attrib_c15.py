"""C15: helpers shared by the judge of `checks/c15.py`.

No entry of known_findings.json belongs to C15 any more (F30-F34 were found by this check and are repaired in
/repo), so there is no attribution function here: every disagreement between the code and the enumeration is a
violation.  A future finding gets its `module:function(prop, record) -> str | None` in this file again.
"""
import re
from fractions import Fraction as Fr


def moments_agree(kind, k, moment_values, spec, nmax):
    """the per-iteration moments handed to generate_result (evaluated at n = 0..nmax, tagged values) against the
    model of the generated program: E(inf^k)(n), E(ind)(n) constant from n = 1 on; E(count)(n) = countSeq"""
    mv = [[Fr(t[1]) if t[0] == "q" else None for t in m] for m in (moment_values or [])]
    if kind == "ei" and len(mv) == 2:
        num, den = Fr(spec["gen_num"]), Fr(spec["gen_den"])
        # for k = 0 the numerator asked for is E(ind) itself (gen_num = gen_den in the model)
        return mv[0] == [Fr(0)] + [num] * nmax and mv[1] == [Fr(0)] + [den] * nmax
    if kind == "st" and len(mv) == 1:
        return mv[0] == [Fr(x) for x in spec["gen_count"]]
    return False


def choice_literal_sums(code_text):
    """[(line, exact sum of the written probabilities, float sum left to right)] of every choice"""
    out = []
    for line in (code_text or "").split("\n"):
        ps = re.findall(r"\{([^}]*)\}", line)
        if not ps:
            continue
        try:
            fl = 0.0
            for p in ps:
                fl += float(p)
            out.append((line.strip(), sum(Fr(p.strip()) for p in ps), fl))
        except ValueError:
            pass
    return out
