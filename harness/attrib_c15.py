"""C15: attribution of failing query records to entries of known_findings.json.

Only F31 is a known finding now (F30, F32, F33, F34 are repaired in /repo: their recurrence is a violation; the
functions `float_remainder` / `float_sum_check` are kept for reference, no entry of known_findings.json names them).

A record is what `checks/c15.py:judge_query` produced for one (BIF text, query): it holds the input, the
values of the Lean specification (`spec`), and what the real code answered (`code`).  Every function below
recognises exactly one defect — by an exact structural signature of the failing answer and, where the
signature alone would be too wide, by re-running the real code with an in-memory repair of that one defect
and requiring that the repaired answer equals the specification.  Anything else stays a violation.
"""
import re
from fractions import Fraction as Fr

from .pool import run_tasks
from .c15gen import RESERVED_SANITISED

TASK = "harness.tasks.c15:run_query"


def _fr(tagged):
    if tagged and tagged[0] == "q":
        return Fr(tagged[1])
    return None


def _spec_value(rec):
    s = rec["spec"].get("value")
    return None if s is None else Fr(s)


def needed_reruns(rec):
    """repairs whose re-run the attribution functions will ask for (lets the check batch them)"""
    out = []
    if rec.get("status") not in ("mismatch", "refused", "model-diff") or not rec.get("spec") or rec["spec"].get("value") is None:
        return out
    code = rec.get("code") or {}
    names = code.get("names") or {}
    sanitised = {re.sub("[^A-Za-z0-9_]+", "", k.lower()) for k in rec.get("var_names", [])} | set(names.values())
    if sanitised & RESERVED_SANITISED:
        out += [["names"], ["names", "remainder"]]
    if (code.get("ran") and _float_remainders(code.get("code"))) or _sum_refusal(rec):
        out.append(["remainder"])
    return out


def rerun_task(rec, repair):
    return {"fn": TASK, "args": {"text": rec["text"], "kind": rec["kind"], "query": rec["query"],
                                 "nmax": rec.get("nmax", 3), "repair": repair}}


def _rerun(rec, repair):
    key = "rerun:" + "+".join(repair)
    if key not in rec:
        t = {"fn": TASK, "args": {"text": rec["text"], "kind": rec["kind"], "query": rec["query"],
                                  "nmax": rec.get("nmax", 3), "repair": repair}}
        rec[key] = run_tasks([t], timeout=rec.get("timeout", 120), nworkers=1)[0]
    r = rec[key]
    return r.get("result") if r.get("status") == "ok" else None


def moments_agree(kind, k, moment_values, spec, nmax):
    """the per-iteration moments handed to generate_result (evaluated at n = 0..nmax, tagged values) against the
    model of the generated program: E(inf^k)(n), E(ind)(n) constant from n = 1 on; E(count)(n) = countSeq"""
    mv = [[Fr(t[1]) if t[0] == "q" else None for t in m] for m in (moment_values or [])]
    if kind == "ei" and len(mv) == 2:
        num, den = Fr(spec["gen_num"]), Fr(spec["gen_den"])
        # for k = 0 the numerator asked for is E(ind) itself (gen_num = gen_den in the model)
        return mv[0] == [Fr(0)] + [num] * nmax and mv[1] == [Fr(0)] + [den] * nmax
    if kind == "st" and len(mv) == 1:
        return mv[0] == [Fr(x) for x in spec["gen_count"]]
    return False


def _rerun_moments_ok(rec, res):
    return bool(res) and moments_agree(rec["kind"], rec.get("k"), res.get("moment_values"), rec["spec"],
                                       rec.get("nmax", 3))


def _answer(res, kind):
    """the value the (re-run) code reports (the limit is taken by the code itself since repo commit cbda3aa)"""
    if not res or not res.get("ran"):
        return None
    return _fr(res.get("final"))


def _float_remainders(code_text):
    """choices of the generated program whose omitted last probability, computed left to right in binary
    floating point, is not the exact decimal (necessary for F33; the decisive test is the repaired re-run)"""
    bad = []
    for line in (code_text or "").split("\n"):
        ps = re.findall(r"\{([^}]*)\}", line)
        if not ps:
            continue
        try:
            fl = 1.0
            for p in ps:
                fl -= float(p)
            exact = Fr(1) - sum(Fr(p.strip()) for p in ps)
            if Fr(repr(fl)) != exact:
                bad.append(line.strip())
        except ValueError:
            pass
    return bad


def choice_literal_sums(code_text):
    """[(line, exact sum of the written probabilities, float sum left to right)] of every choice"""
    out = []
    for line in (code_text or "").split("\n"):
        ps = re.findall(r"\{([^}]*)\}", line)
        if not ps:
            continue
        try:
            fl = 0.0
            for p in ps:
                fl += float(p)
            out.append((line.strip(), sum(Fr(p.strip()) for p in ps), fl))
        except ValueError:
            pass
    return out


def _sum_refusal(rec):
    err = (rec.get("code") or {}).get("error") or {}
    return "add up to more than 1" in str(err.get("message", ""))


def float_sum_check(prop, rec):
    """F34: `_check_probabilities` (added by the repo fix d44d5a5) adds the written probabilities as doubles:
    exact decimals that sum to at most 1 are refused when the float sum exceeds 1 (0.33+0.56+0.11).
    Signature: the query is refused with that message, every choice of the generated program has an exact sum
    <= 1 and some float sum is > 1; repair: with all literals converted to exact rationals first the query
    reports the specification value."""
    if rec["status"] != "refused" or not _sum_refusal(rec):
        return None
    sums = choice_literal_sums(rec["code"].get("code"))
    if not sums or any(ex > 1 for _, ex, _ in sums) or not any(fl > 1 for _, _, fl in sums):
        return None
    want = _spec_value(rec)
    if want is None:
        return None
    res = _rerun(rec, ["remainder"])
    got = _answer(res, rec["kind"])
    return True if got is not None and got == want and _rerun_moments_ok(rec, res) else None


def float_remainder(prop, rec):
    """F33: the omitted last probability of `x = v0 {p0} v1 {p1} … vk` is evaluated by sympify("1-p0-p1…") in
    binary floating point before it is made rational (inputparser/structure_transformer.py:
    _assign_categorical).  Signature: the generated program has such a choice; repair: the same query with the
    remainder computed exactly reports the specification value (for the sampling time additionally with the
    limit of F30 taken)."""
    if rec["status"] not in ("mismatch", "model-diff") or not rec["code"].get("ran"):
        return None
    if not _float_remainders(rec["code"].get("code")):
        return None
    want = _spec_value(rec)
    if want is None:
        return None
    res = _rerun(rec, ["remainder"])
    got = _answer(res, rec["kind"])
    if got is None or got != want or not _rerun_moments_ok(rec, res):
        return None
    return True


def reserved_name(prop, rec):
    """F31: a sanitised variable name is a keyword of Polar's language or a symengine constant (e, pi, oo, zoo,
    nan, i, true, …): the generated program is refused, or evaluates to nan.  Signature: such a name is in the
    mapping; repair: with a suffix on exactly those names the query reports the specification value."""
    if rec["status"] not in ("mismatch", "refused"):
        return None
    names = rec["code"].get("names") or {}
    sanitised = {re.sub("[^A-Za-z0-9_]+", "", k.lower()) for k in rec.get("var_names", [])} | set(names.values())
    if not (sanitised & RESERVED_SANITISED):
        return None
    want = _spec_value(rec)
    if want is None:
        return None
    res = _rerun(rec, ["names"])
    got = _answer(res, rec["kind"])
    if got is None:
        return None
    if got != want or not _rerun_moments_ok(rec, res):
        # the float remainder may be present as well
        res = _rerun(rec, ["names", "remainder"])
        got = _answer(res, rec["kind"])
    return True if got == want and _rerun_moments_ok(rec, res) else None
