"""Attribution of C11 failures to entries of known_findings.json.

F8 — `utils/statistics.py:raw_moments_to_centrals` initialises `centrals = {1: moments[1]}`: the
"first central moment" it returns is the mean, whereas E(X − E X) = 0.  The signature is exact:
the failing observation is a central moment of order exactly 1, the value the code returned equals
the first raw moment of the same law, and the true value is 0.  Anything else about central moments
(another order, or an order-1 value different from the mean) is not excused."""
from fractions import Fraction as Fr


def f8(prop, record):
    if prop != "C11":
        return None
    if record.get("kind") != "central" or int(record.get("order", 0)) != 1:
        return None
    try:
        code = Fr(record["code"])
        spec = Fr(record["spec"])
        mean = Fr(record["mean"])
    except Exception:
        return None
    if spec == 0 and code == mean and mean != 0:
        return "c1(.) / raw_moments_to_centrals(...)[1] is the mean E(X) instead of the first central moment 0"
    return None
