"""Attribution of C11 failures to entries of known_findings.json.

(F8 — `raw_moments_to_centrals` returning the mean as first central moment — was repaired in /repo
commit d65f6a5 and has no attribution any more: a recurrence is a violation.)"""
from fractions import Fraction as Fr


def degenerate_lower(prop, record):
    """F8b — `handle_tail_bound_lower_goal` forms (E M − a)² / E (M − a)² and calls `.simplify()`.  When M is
    almost surely constant with a symbolic value (uninitialised variable / parameter), numerator and
    denominator are the same polynomial and the quotient is simplified to 1 — also at the points where
    M = a, where the quotient is 0/0 and P(M > a) = 0.  Exact signature: lower-bound goal, at this n the
    exact law of M is the point mass at a (second moment about a is 0), the code's value is exactly 1
    and the exact probability is 0."""
    if prop != "C11" or record.get("kind") != "lower-degenerate":
        return None
    try:
        if Fr(record["lower_den"]) != 0 or Fr(record["code"]) != 1 or Fr(record["spec"]) != 0:
            return None
        law = record.get("law_at_n") or []
        a = Fr(record["a_lo"])
        if not law or any(Fr(v) != a for _, v in law):
            return None
    except Exception:
        return None
    return ("P(M > a) >= 1 reported where M = a almost surely: the second-moment bound 0/0 is simplified to 1 "
            "for an almost surely constant M with symbolic value")
