"""Shared pure-Python machinery of C06 / C07 (no Polar, no sympy): exact arithmetic on exponential
polynomials given as term lists over Q or Q(sqrt D), monomial enumeration in the order of the Lean
model (`Polar.Inv.monosUpTo`), the evaluation matrix, a Gauss-Jordan kernel with pivot bookkeeping,
JSON encodings of polynomials, and the seeded generator of closed-form tuples.

Everything computed here is only a *proposal* (kernel candidates, pivots, windows): the verdicts come
from polar-model (`invariant_check`, `relations_check`)."""
from fractions import Fraction as Fr

# ------------------------------------------------------------------------------------------------
# numbers: tuples of Fractions, (a,) = a  or  (a, b) = a + b*sqrt(D)
# ------------------------------------------------------------------------------------------------


class Field:
    def __init__(self, D=None):
        self.D = None if D is None else Fr(D)
        self.n = 1 if D is None else 2
        self.zero = (Fr(0),) * self.n
        self.one = (Fr(1),) + (Fr(0),) * (self.n - 1)

    def of_rat(self, r):
        return (Fr(r),) + (Fr(0),) * (self.n - 1)

    def parse(self, j):
        """JSON number: "p/q" or ["a","b"]"""
        if isinstance(j, (list, tuple)):
            if self.n == 1:
                if Fr(j[1]) != 0:
                    raise ValueError("pair in rational mode")
                return (Fr(j[0]),)
            return (Fr(j[0]), Fr(j[1]))
        return self.of_rat(Fr(j))

    def add(self, x, y):
        return tuple(a + b for a, b in zip(x, y))

    def mul(self, x, y):
        if self.n == 1:
            return (x[0] * y[0],)
        return (x[0] * y[0] + self.D * x[1] * y[1], x[0] * y[1] + x[1] * y[0])

    def scale(self, r, x):
        return tuple(r * a for a in x)

    def pow(self, x, k):
        r = self.one
        b = x
        while k:
            if k & 1:
                r = self.mul(r, b)
            b = self.mul(b, b)
            k >>= 1
        return r

    def is_zero(self, x):
        return all(a == 0 for a in x)


def fr_str(f):
    f = Fr(f)
    return str(f.numerator) if f.denominator == 1 else f"{f.numerator}/{f.denominator}"


def num_json(F, x):
    return fr_str(x[0]) if F.n == 1 else [fr_str(x[0]), fr_str(x[1])]


# ------------------------------------------------------------------------------------------------
# term lists  [(coef, deg, base)]
# ------------------------------------------------------------------------------------------------

def parse_terms(F, terms_json):
    return [(F.parse(t["coef"]), int(t["deg"]), F.parse(t["base"])) for t in terms_json]


def norm_terms(F, ts):
    acc = {}
    order = []
    for c, d, b in ts:
        key = (d, b)
        if key not in acc:
            acc[key] = F.zero
            order.append(key)
        acc[key] = F.add(acc[key], c)
    return [(acc[k], k[0], k[1]) for k in order if not F.is_zero(acc[k])]


def mul_terms(F, ts, ss):
    return norm_terms(F, [(F.mul(c1, c2), d1 + d2, F.mul(b1, b2)) for c1, d1, b1 in ts for c2, d2, b2 in ss])


def pow_terms(F, ts, k):
    r = [(F.one, 0, F.one)]
    for _ in range(k):
        r = mul_terms(F, ts, r)
    return r


def subst_mono(F, cfs, mono):
    """mono: list of (goal, exp); cfs: dict goal -> term list"""
    r = [(F.one, 0, F.one)]
    for g, e in mono:
        r = mul_terms(F, pow_terms(F, cfs[g], e), r)
    return r


def shape_size(ts_lists):
    """size of the union shape: sum over distinct bases of (max degree + 1)"""
    sh = {}
    for ts in ts_lists:
        for _, d, b in ts:
            sh[b] = max(sh.get(b, 0), d + 1)
    return sum(sh.values())


def eval_terms(F, ts, n):
    v = F.zero
    for c, d, b in ts:
        v = F.add(v, F.mul(F.scale(Fr(n) ** d, c), F.pow(b, n)))
    return v


def values_on(F, ts, n0, count):
    """values at n0 .. n0+count-1, incrementally"""
    pw = [F.pow(b, n0) for _, _, b in ts]
    out = []
    for j in range(count):
        n = n0 + j
        v = F.zero
        for (c, d, b), p in zip(ts, pw):
            v = F.add(v, F.mul(F.scale(Fr(n) ** d, c), p))
        out.append(v)
        pw = [F.mul(b, p) for (_, _, b), p in zip(ts, pw)]
    return out


# ------------------------------------------------------------------------------------------------
# monomials (same enumeration order as Polar.Inv.monosUpTo) and the evaluation matrix
# ------------------------------------------------------------------------------------------------

def monos_up_to(goals, k):
    if not goals:
        return [[]]
    g, rest = goals[0], goals[1:]
    out = []
    for e in range(k + 1):
        for m in monos_up_to(rest, k - e):
            out.append(m if e == 0 else [(g, e)] + m)
    return out


def mono_key(m):
    return tuple(sorted((g, int(e)) for g, e in m if int(e) > 0))


def eval_matrix(F, cfs, goals, monos, n0, W):
    """stacked rational rows: window point j, coordinate i -> row j*ncomp + i"""
    vals = {g: values_on(F, cfs[g], n0, W) for g in goals}
    rows = []
    for j in range(W):
        pows = {}
        ent = []
        for m in monos:
            v = F.one
            for g, e in m:
                key = (g, e)
                if key not in pows:
                    pows[key] = F.pow(vals[g][j], e)
                v = F.mul(v, pows[key])
            ent.append(v)
        for i in range(F.n):
            rows.append([x[i] for x in ent])
    return rows


def kernel_with_pivots(rows, c):
    """Gauss-Jordan over Q, rows processed in order, a row is only reduced when the current kernel
    candidate does not annihilate it.  Returns (B, free, pivR, pivC): B = kernel basis (one vector per
    free column, entry 1 there), pivot rows / columns of an invertible minor of size c - |B|."""
    piv = []          # (pivot column, reduced row with 1 at the pivot column)
    pivR, pivC = [], []

    def kernel():
        pc = {col: r for col, r in piv}
        B = []
        free = [f for f in range(c) if f not in pc]
        for f in free:
            v = [Fr(0)] * c
            v[f] = Fr(1)
            for col, r in piv:
                v[col] = -r[f]
            B.append(v)
        return B, free

    B, free = kernel()
    for idx, row in enumerate(rows):
        if all(sum(a * b for a, b in zip(row, v) if a != 0 and b != 0) == 0 for v in B):
            continue
        r = list(row)
        for col, pr in piv:
            f = r[col]
            if f != 0:
                r = [a - f * b for a, b in zip(r, pr)]
        lead = next((j for j in range(c) if r[j] != 0), None)
        if lead is None:
            continue   # cannot happen: the kernel candidate did not annihilate the row
        a = r[lead]
        r = [x / a for x in r]
        new = []
        for col, pr in piv:
            f = pr[lead]
            new.append((col, [x - f * y for x, y in zip(pr, r)] if f != 0 else pr))
        piv = new + [(lead, r)]
        pivR.append(idx)
        pivC.append(lead)
        B, free = kernel()
        if not B:
            break
    return B, free, pivR, pivC


# ------------------------------------------------------------------------------------------------
# polynomials as JSON:  [[mono, "p/q"], ..],  mono = [[goal, e], ..]
# ------------------------------------------------------------------------------------------------

def poly_of_vec(monos, vec):
    return [[[[g, int(e)] for g, e in m], fr_str(x)] for m, x in zip(monos, vec) if x != 0]


def poly_degree(p):
    return max((sum(int(e) for _, e in m) for m, _ in p), default=0)


def poly_str(p):
    if not p:
        return "0"
    out = []
    for m, c in p:
        mon = "*".join(f"{g}**{e}" if int(e) != 1 else g for g, e in m)
        out.append(f"({c})" + ("*" + mon if mon else ""))
    return " + ".join(out)


def eval_poly(F, p, point):
    """p(point) with point: goal -> number"""
    v = F.zero
    for m, c in p:
        t = F.of_rat(Fr(c))
        for g, e in m:
            t = F.mul(t, F.pow(point[g], int(e)))
        v = F.add(v, t)
    return v


# ------------------------------------------------------------------------------------------------
# generator of closed-form tuples (check side; deterministic in the rng)
# ------------------------------------------------------------------------------------------------

BASE_SETS = [
    ("2,4,8", ["2", "4", "8"]),
    ("4,1/2", ["4", "Rational(1,2)"]),
    ("2,3,6", ["2", "3", "6"]),
    ("-2,4", ["(-2)", "4"]),
    ("sqrt2,2", ["sqrt(2)", "2"]),
    ("i,-1", ["I", "(-1)"]),
    ("1+sqrt2,1-sqrt2", ["(1+sqrt(2))", "(1-sqrt(2))"]),
    ("1/2,1/4", ["Rational(1,2)", "Rational(1,4)"]),
    ("4,8", ["4", "8"]),
    ("2,3", ["2", "3"]),
    ("9,27,3", ["9", "27", "3"]),
    ("-1,2", ["(-1)", "2"]),
    ("2,1/2", ["2", "Rational(1,2)"]),
    ("6,2/3,2", ["6", "Rational(2,3)", "2"]),
    ("golden", ["(1/2+sqrt(5)/2)", "(1/2-sqrt(5)/2)"]),
    ("-1/2,1/4,3", ["Rational(-1,2)", "Rational(1,4)", "3"]),
    ("poly-only", []),
]

COEFS = ["1", "1", "1", "-1", "2", "3", "Rational(1,2)", "-2", "5", "Rational(-1,3)"]


def gen_tuple(r, idx):
    """one tuple of closed forms (sympy source strings in n) over a base set with relations"""
    name, bases = r.choice(BASE_SETS)
    k = r.choice([2, 2, 3, 3, 4])
    goal_names = ["x", "y", "z", "w", "u"][:k]
    pool = list(bases) + ["1"]
    cfs = []
    pure = r.random() < 0.45     # pure exponentials b^n: the lattice relations are the whole story
    for gi, g in enumerate(goal_names):
        if pure and bases:
            b = bases[gi % len(bases)] if gi < len(bases) or r.random() < 0.5 else r.choice(pool)
            c = r.choice(["1", "1", "1", "2", "-1", "3"])
            expr = f"{b}**n" if c == "1" else f"{c}*{b}**n"
            if b == "1":
                expr = c
        else:
            nt = r.choice([1, 1, 2, 2, 3])
            parts = []
            for _ in range(nt):
                c = r.choice(COEFS)
                d = r.choice([0, 0, 0, 1, 1, 2])
                b = r.choice(pool)
                t = c
                if d == 1:
                    t += "*n"
                elif d == 2:
                    t += "*n**2"
                if b != "1":
                    t += f"*{b}**n"
                parts.append(t)
            expr = " + ".join(parts)
        cfs.append([g, expr])
    # glue cases: duplicate goal, constant goal, zero goal, special cases (Piecewise)
    z = r.random()
    if z < 0.08 and k >= 2:
        cfs[-1][1] = cfs[0][1]
    elif z < 0.14:
        cfs[-1][1] = r.choice(["1", "0", "Rational(3,2)", "-2"])
    special = 0
    if r.random() < 0.2:
        special = r.choice([1, 1, 2])
        gi = r.randrange(k)
        branches = ", ".join(f"({r.choice([7, -3, 11, 0])}, n <= {i})" for i in range(special))
        cfs[gi][1] = f"Piecewise({branches}, ({cfs[gi][1]}, True))"
    return {"id": f"t{idx}", "kind": "tuple", "family": name, "cfs": cfs, "special": special}


# the base sets of the repaired exponent-lattice defects F4 / F4b ({4,8}, {4,1/2}, {2,4,8}, {9,27,3}, {1,2}) stay in
# the corpus as regression cases: a recurrence is a violation
FIXED_TUPLES = [
    {"id": "fx-9-27-3", "kind": "tuple", "family": "9,27,3", "cfs": [["x", "9**n"], ["y", "27**n"], ["z", "3**n"]], "special": 0},
    {"id": "fx-9-27", "kind": "tuple", "family": "9,27,3", "cfs": [["x", "2*9**n"], ["y", "27**n + 1"]], "special": 0},
    {"id": "fx-1-2", "kind": "tuple", "family": "2,3", "cfs": [["x", "1"], ["y", "2**n"], ["z", "1 + 2**n"]], "special": 0},
    {"id": "fx-6-2/3-2", "kind": "tuple", "family": "6,2/3,2",
     "cfs": [["x", "6**n"], ["y", "Rational(2,3)**n"], ["z", "2**n"]], "special": 0},
    {"id": "fx-4-8", "kind": "tuple", "family": "4,8", "cfs": [["x", "4**n"], ["y", "8**n"]], "special": 0},
    {"id": "fx-4-half", "kind": "tuple", "family": "4,1/2", "cfs": [["x", "4**n"], ["y", "2**(-n)"]], "special": 0},
    {"id": "fx-2-4", "kind": "tuple", "family": "2,4,8", "cfs": [["x", "2**n"], ["y", "4**n"]], "special": 0},
    {"id": "fx-2-4-8", "kind": "tuple", "family": "2,4,8", "cfs": [["x", "2**n"], ["y", "4**n"], ["z", "8**n"]], "special": 0},
    {"id": "fx-2-3-6", "kind": "tuple", "family": "2,3,6", "cfs": [["x", "2**n"], ["y", "3**n"], ["z", "6**n"]], "special": 0},
    {"id": "fx-m2-4", "kind": "tuple", "family": "-2,4", "cfs": [["x", "(-2)**n"], ["y", "4**n"]], "special": 0},
    {"id": "fx-sqrt2", "kind": "tuple", "family": "sqrt2,2", "cfs": [["x", "sqrt(2)**n"], ["y", "2**n"]], "special": 0},
    {"id": "fx-i", "kind": "tuple", "family": "i,-1", "cfs": [["x", "I**n"], ["y", "(-1)**n"]], "special": 0},
    {"id": "fx-pell", "kind": "tuple", "family": "1+sqrt2,1-sqrt2",
     "cfs": [["x", "(1+sqrt(2))**n"], ["y", "(1-sqrt(2))**n"]], "special": 0},
    {"id": "fx-fib", "kind": "tuple", "family": "golden",
     "cfs": [["a", "sqrt(5)/5*(1/2+sqrt(5)/2)**n - sqrt(5)/5*(1/2-sqrt(5)/2)**n"],
             ["b", "(1/2+sqrt(5)/10)*(1/2+sqrt(5)/2)**n + (1/2-sqrt(5)/10)*(1/2-sqrt(5)/2)**n"]], "special": 0},
    {"id": "fx-test-suite", "kind": "tuple", "family": "poly-only",
     "cfs": [["v", "1"], ["w", "1"], ["x", "n/2 + 1"], ["y", "n/2 + 1"]], "special": 0},
    {"id": "fx-none", "kind": "tuple", "family": "2,3", "cfs": [["x", "2**n + 1"], ["y", "n"]], "special": 0},
    # relations whose negative-exponent lattice vectors are not degree-compatible (elimination order matters), and primes with
    # proportional multiplicities followed by another prime (rank-deficient integer kernel) -- seeded changes C07_D, C06_D/C16_D
    {"id": "fx-2-8", "kind": "tuple", "family": "2,8", "cfs": [["x", "2**n"], ["y", "8**n"]], "special": 0},
    {"id": "fx-2-8-32", "kind": "tuple", "family": "2,8,32", "cfs": [["x", "2**n"], ["y", "8**n"], ["z", "32**n"]], "special": 0},
    {"id": "fx-mhalf-2", "kind": "tuple", "family": "-1/2,2", "cfs": [["x", "Rational(-1,2)**n"], ["y", "2**n"]], "special": 0},
    {"id": "fx-6-30-5", "kind": "tuple", "family": "6,30,5", "cfs": [["x", "6**n"], ["y", "30**n"], ["z", "5**n"]], "special": 0},
    {"id": "fx-10-1/10-3-1/9", "kind": "tuple", "family": "-10,1/10,3,1/9",
     "cfs": [["x", "(-10)**n"], ["y", "Rational(1,10)**n"], ["z", "3**n"], ["w", "Rational(1,9)**n"]], "special": 0},
    {"id": "fx-special", "kind": "tuple", "family": "2,4,8",
     "cfs": [["x", "Piecewise((7, n <= 0), (2**n, True))"], ["y", "4**n"]], "special": 1},
]
