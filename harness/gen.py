"""Seeded generator of loop programs (harness AST).  One `random.Random` drives every choice.

Families (DESIGN §3.1): branchy, guarded, finite, poly, choice, cont, param, simult.  The
*accepted-core* stream keeps to shapes the pinned tree is known to accept (finite variables assigned at
top level of the body, conditions over variables assigned in the body); the *documented* stream
(used by C18) only respects the README restrictions.
"""
from fractions import Fraction as Fr

from . import hast as H

PROBS = [Fr(1, 2), Fr(1, 3), Fr(1, 4), Fr(2, 3), Fr(3, 4), Fr(1, 5), Fr(2, 5), Fr(1, 10), Fr(9, 10)]
SMALL = [Fr(0), Fr(1), Fr(-1), Fr(2), Fr(3), Fr(1, 2), Fr(-2), Fr(1, 3), Fr(3, 2), Fr(5)]
COEFFS = [Fr(1), Fr(1), Fr(-1), Fr(2), Fr(1, 2), Fr(-1, 2), Fr(3), Fr(1, 3), Fr(0)]

FAMILIES = ["branchy", "guarded", "finite", "poly", "choice", "cont", "param", "simult"]


class Gen:
    def __init__(self, rnd, family=None, documented=False):
        self.r = rnd
        self.family = family or rnd.choice(FAMILIES)
        self.documented = documented
        self.dependent_draws = set()
        self.params = {}        # name -> kind ("prob" | "coef")
        self.fin = {}           # finite var -> sorted list of Fractions (intended domain)
        self.nums = []          # numeric vars in dependency order
        self.draws = {}         # draw var -> dist rhs
        self.uninit = []
        self.features = set()
        self.types = []         # declared types: (var, "FiniteRange(lo, hi)")

    # ---- small helpers -------------------------------------------------------------------------
    def coin(self, p=0.5):
        return self.r.random() < p

    def prob_expr(self):
        if self.family == "param" and self.coin(0.5):
            name = self._param("prob")
            return H.var(name)
        return H.num(self.r.choice(PROBS))

    def _param(self, kind):
        for k, v in self.params.items():
            if v == kind and self.coin(0.6):
                return k
        name = ["p", "q", "c", "d"][len(self.params) % 4] + ("" if len(self.params) < 4 else str(len(self.params)))
        if name in self.params:
            return name
        self.params[name] = kind
        return name

    def coef(self):
        if self.family == "param" and self.coin(0.25):
            return H.var(self._param("coef"))
        return H.num(self.r.choice(COEFFS[:-1]))

    # ---- finite variables ----------------------------------------------------------------------
    def finite_update(self, f):
        """a top-level statement (or if-block) that keeps f inside its domain"""
        dom = self.fin[f]
        k = self.r.random()
        if dom == [Fr(0), Fr(1)]:
            if k < 0.45:
                self.features.add("bernoulli")
                return [H.assign(f, ("dist", "Bernoulli", [self.prob_expr()]))]
            if k < 0.6:
                self.features.add("toggle")
                return [H.assign(f, H.ex(H.sub(H.num(1), H.var(f))))]
            if k < 0.8:
                self.features.add("choice-finite")
                return [H.assign(f, ("choice", [(H.num(1), self.prob_expr()), (H.var(f), None)]))]
            if self.family == "guarded" and not self.documented:
                return [H.assign(f, ("dist", "Bernoulli", [self.prob_expr()]))]
            self.features.add("sticky")
            # once 1 stays 1: if f == 0: f = Bernoulli(p) end
            return [("ite", H.cmp_("==", H.var(f), H.num(0)),
                     [H.assign(f, ("dist", "Bernoulli", [self.prob_expr()]))], [])]
        lo, hi = dom[0], dom[-1]
        consecutive = all(d.denominator == 1 for d in dom) and len(dom) == int(hi - lo) + 1
        if consecutive and k < 0.35:
            self.features.add("discrete-uniform")
            return [H.assign(f, ("dist", "DiscreteUniform", [H.num(lo), H.num(hi)]))]
        if consecutive and k < 0.7 and (self.documented or self.family != "guarded"):
            self.features.add("wrap-counter")
            if not self.documented and all(t[0] != f for t in self.types):
                # the fixed-point typer cannot bound a counter; declare its type (user types are taken as given)
                self.types.append((f, f"FiniteRange({int(lo)}, {int(hi)})"))
                self.features.add("declared-type")
            return [("ite", H.cmp_("==", H.var(f), H.num(hi)), [H.assign(f, H.ex(H.num(lo)))],
                     [H.assign(f, H.ex(H.add(H.var(f), H.num(1))))])]
        self.features.add("choice-values")
        vals = self.r.sample(dom, min(len(dom), self.r.randint(2, 3)))
        alts = [(H.num(v), None) for v in vals]
        return [H.assign(f, ("choice", self._fill_probs(alts)))]

    def _fill_probs(self, alts):
        """give a list of (expr, None) constant probabilities summing to one"""
        k = len(alts)
        table = {2: [[Fr(1, 2), Fr(1, 2)], [Fr(1, 3), Fr(2, 3)], [Fr(1, 4), Fr(3, 4)], [Fr(1, 10), Fr(9, 10)]],
                 3: [[Fr(1, 3), Fr(1, 3), Fr(1, 3)], [Fr(1, 2), Fr(1, 4), Fr(1, 4)], [Fr(1, 5), Fr(2, 5), Fr(2, 5)]],
                 4: [[Fr(1, 4)] * 4, [Fr(1, 2), Fr(1, 4), Fr(1, 8), Fr(1, 8)]]}
        ps = self.r.choice(table[k])
        return [(e, H.num(p)) for (e, _), p in zip(alts, ps)]

    def finite_cond(self, allowed=None):
        fs = [f for f in self.fin if allowed is None or f in allowed]
        if not self.documented:
            fs = [f for f in fs if all(d.denominator == 1 for d in self.fin[f])] or fs
        f = self.r.choice(fs)
        dom = self.fin[f]
        k = self.r.random()
        if not self.documented and any(d.denominator != 1 for d in dom):
            # the pinned tree refuses `var == non-integer`; compare with integer thresholds only
            return H.cmp_(self.r.choice(["<", "<=", ">", ">="]), H.var(f), H.num(Fr(int(self.r.choice(dom)))))
        if k < 0.55:
            return H.cmp_("==", H.var(f), H.num(self.r.choice(dom)))
        if k < 0.8:
            op = self.r.choice(["<", "<=", ">", ">="])
            v = self.r.choice(dom)
            if v.denominator != 1:
                v = Fr(int(v))
            return H.cmp_(op, H.var(f), H.num(v))
        if k < 0.9 and len(fs) >= 2:
            g = self.r.choice([x for x in fs if x != f])
            self.features.add("cond-and-or")
            c1 = H.cmp_("==", H.var(f), H.num(self.r.choice(dom)))
            c2 = H.cmp_("==", H.var(g), H.num(self.r.choice(self.fin[g])))
            return (self.r.choice(["and", "or"]), c1, c2)
        if len(fs) >= 2 and self.coin(0.5):
            g = self.r.choice([x for x in fs if x != f])
            self.features.add("cond-sum")
            tot = self.r.choice(dom) + self.r.choice(self.fin[g])
            if tot.denominator != 1:
                tot = Fr(int(tot))
            return H.cmp_(self.r.choice(["==", "<", ">="]), H.add(H.var(f), H.var(g)), H.num(tot))
        self.features.add("cond-not")
        return ("not", H.cmp_("==", H.var(f), H.num(self.r.choice(dom))))

    # ---- numeric updates -----------------------------------------------------------------------
    def num_update(self, x, mode):
        """right-hand side for numeric variable x"""
        idx = self.nums.index(x)
        lower = self.nums[:idx]
        k = self.r.random()
        coefvars = list(self.draws.keys()) + list(self.fin.keys())
        indep = [c for c in coefvars if c not in self.dependent_draws]
        term_const = H.num(self.r.choice(SMALL))
        if k < 0.2:
            return H.ex(H.add(H.var(x), term_const))
        if k < 0.4 and coefvars:
            c = self.r.choice(coefvars)
            self.features.add("coef-var")
            if self.coin(0.3) and c in self.draws and c not in self.dependent_draws:
                return H.ex(H.add(H.var(x), H.pw(H.var(c), 2)))
            return H.ex(H.add(H.var(x), H.mul(self.coef(), H.var(c))))
        if k < 0.55 and self.family in ("choice", "param", "branchy", "poly"):
            self.features.add("choice-num")
            alts = [(H.add(H.var(x), H.num(1)), None), (H.sub(H.var(x), H.num(self.r.choice([1, 2]))), None)]
            if self.coin(0.4):
                alts.append((H.var(x), None))
                if self.coin(0.5):
                    # the alternative that keeps the variable need not be the last one
                    self.r.shuffle(alts)
                    self.features.add("choice-stay-not-last")
            if self.family == "param" and len(alts) == 2:
                p = self.prob_expr()
                return ("choice", [(alts[0][0], p), (alts[1][0], H.sub(H.num(1), p))])
            return ("choice", self._fill_probs(alts))
        if mode == "linear":
            others = [v for v in self.nums if v != x]
            e = H.mul(self.coef(), H.var(x))
            if others and self.coin(0.7):
                y = self.r.choice(others)
                self.features.add("linear-cross")
                ce = self.coef()
                if indep and self.coin(0.25):
                    self.features.add("coef-var-cross")
                    ce = H.var(self.r.choice(indep))
                    if self.coin(0.35):
                        # a squared draw / finite variable as coefficient of a linear cross term (still a linear dependency)
                        self.features.add("coef-var-squared-cross")
                        ce = H.pw(ce, 2)
                e = H.add(e, H.mul(ce, H.var(y)))
            if self.coin(0.5):
                e = H.add(e, term_const)
            return H.ex(e)
        # acyclic polynomial mode: non-linear terms over strictly lower variables
        e = H.mul(self.coef(), H.var(x)) if self.coin(0.8) else H.num(0)
        if lower:
            y = self.r.choice(lower)
            self.features.add("nonlinear-lower")
            deg = self.r.choice([1, 2, 2, 3])
            t = H.pw(H.var(y), deg) if deg > 1 else H.var(y)
            if len(lower) >= 2 and self.coin(0.3):
                z = self.r.choice([v for v in lower if v != y])
                t = H.mul(t, H.var(z))
            e = H.add(e, H.mul(self.coef(), t))
        if coefvars and self.coin(0.3):
            e = H.add(e, H.var(self.r.choice(coefvars)))
        return H.ex(H.add(e, term_const)) if self.coin(0.4) else H.ex(e)

    def _shifted(self, v):
        sh = self.r.choice([0, 0, 1, -1])
        return H.var(v) if sh == 0 else H.add(H.var(v), H.num(sh))

    def cont_draw(self, mean_var=None):
        k = self.r.random()
        self.features.add("cont")
        if k < 0.3:
            if mean_var and self.coin(0.6):
                self.features.add("normal-var-mean")
                return ("dist", "Normal", [self._shifted(mean_var), H.num(self.r.choice([1, 2, Fr(1, 4)]))])
            return ("dist", "Normal", [H.num(self.r.choice([0, 1, -1, 2])), H.num(self.r.choice([1, 2, 4, Fr(1, 4)]))])
        if k < 0.5:
            a = self.r.choice([0, -1, 1, 2])
            if mean_var and self.coin(0.6):
                self.features.add("uniform-var-bounds")
                sh = self.r.choice([0, 1, -1, 2])
                lo = H.var(mean_var) if sh == 0 else H.add(H.var(mean_var), H.num(sh))     # a lower bound that is a sum
                return ("dist", "Uniform", [lo, H.add(H.var(mean_var), H.num(sh + self.r.choice([1, 2])))])
            return ("dist", "Uniform", [H.num(a), H.num(a + self.r.choice([1, 2, 3]))])
        if k < 0.62:
            return ("dist", "Exponential", [H.num(self.r.choice([1, 2, Fr(1, 2), 3]))])
        if k < 0.74:
            if mean_var and self.coin(0.6):
                self.features.add("laplace-var-mean")
                return ("dist", "Laplace", [self._shifted(mean_var), H.num(self.r.choice([1, 2]))])
            return ("dist", "Laplace", [H.num(self.r.choice([0, 1, -2])), H.num(self.r.choice([1, 2, Fr(1, 2)]))])
        if k < 0.87:
            return ("dist", "Gamma", [H.num(self.r.choice([1, 2, 3, Fr(1, 2)])), H.num(self.r.choice([1, 2, Fr(1, 2)]))])
        return ("dist", "Beta", [H.num(self.r.choice([1, 2, 3, Fr(1, 2)])), H.num(self.r.choice([1, 2, Fr(3, 2)]))])

    # ---- program assembly ----------------------------------------------------------------------
    def program(self):
        r = self.r
        fam = self.family
        n_fin = {"branchy": r.randint(1, 3), "guarded": r.randint(1, 2), "finite": r.randint(2, 3),
                 "poly": r.randint(0, 1), "choice": r.randint(0, 1), "cont": r.randint(0, 1),
                 "param": r.randint(0, 2), "simult": r.randint(0, 1)}[fam]
        n_num = {"branchy": r.randint(1, 2), "guarded": r.randint(1, 2), "finite": r.randint(0, 1),
                 "poly": r.randint(2, 3), "choice": r.randint(1, 2), "cont": r.randint(1, 2),
                 "param": r.randint(1, 2), "simult": r.randint(2, 3)}[fam]
        n_draw = {"cont": r.randint(1, 2), "poly": r.randint(0, 1), "branchy": r.randint(0, 1)}.get(fam, 0)
        fnames = ["f", "g", "h"][:n_fin]
        for f in fnames:
            k = r.random()
            if k < 0.55:
                self.fin[f] = [Fr(0), Fr(1)]
            elif k < 0.85:
                lo = r.choice([0, 0, 1, -1])
                self.fin[f] = [Fr(lo + i) for i in range(r.randint(3, 4))]
            else:
                self.features.add("nonint-finite")
                self.fin[f] = sorted(r.sample([Fr(0), Fr(1, 2), Fr(1), Fr(3, 2), Fr(-1), Fr(2), Fr(5, 2)], 3))
        self.nums = ["x", "y", "z"][:n_num]
        dnames = ["u", "v"][:n_draw]
        mode = "linear" if (fam in ("simult", "guarded", "param") or r.random() < 0.5) else "acyclic"
        self.features.add("mode-" + mode)

        init = []
        for f in fnames:
            if self.fin[f] == [Fr(0), Fr(1)] and self.coin(0.25):
                init.append(H.assign(f, ("dist", "Bernoulli", [H.num(r.choice(PROBS))])))
                self.features.add("random-init")
            else:
                init.append(H.assign(f, H.ex(H.num(r.choice(self.fin[f])))))
        for x in self.nums:
            k = r.random()
            if k < 0.12:
                self.uninit.append(x)
                self.features.add("uninit")
                continue
            if fam == "param" and k < 0.4:
                init.append(H.assign(x, H.ex(H.var(self._param("coef")))))
                self.features.add("param-init")
            elif k < 0.2 and fam in ("cont", "poly"):
                init.append(H.assign(x, ("dist", "Normal", [H.num(0), H.num(1)])))
                self.features.add("random-init")
            else:
                init.append(H.assign(x, H.ex(H.num(r.choice(SMALL)))))
        if init and self.coin(0.12):
            # a second initial assignment to an already initialised variable (the last one counts)
            s0 = r.choice(init)
            if s0[0] == "assign" and s0[2][0] == "expr":
                v0 = s0[1]
                if v0 in self.fin:
                    init.append(H.assign(v0, H.ex(H.num(r.choice(self.fin[v0])))))
                else:
                    init.append(H.assign(v0, H.ex(H.add(H.var(v0), H.num(r.choice(SMALL[1:]))))))
                self.features.add("double-init")
        if self.nums and self.coin(0.12):
            # a loop constant that copies the initial value of a variable which then changes in the loop
            src = r.choice(self.nums)
            if src not in self.uninit:
                init.append(H.assign("k0", H.ex(H.add(H.var(src), H.num(r.choice([0, 1, -1]))))))
                self.late_const = ("k0", src)
                self.features.add("constant-copies-variable")
        for d in dnames:
            # draws are (re)assigned in every iteration before they are used; give them an initial value
            init.append(H.assign(d, H.ex(H.num(0))))

        body = []
        # 1. finite variables and draws first (top level)
        order = list(fnames)
        r.shuffle(order)
        for f in order:
            body += self.finite_update(f)
        for d in dnames:
            # a draw whose parameter is a program variable makes the drawn variable depend on it: only in linear mode, and such a
            # draw is then used additively only (its square or a product with a variable would close a non-linear cycle, which
            # is outside the documented class)
            mv = r.choice(self.nums) if (self.nums and self.coin(0.5) and mode == "linear") else None
            rhs = self.cont_draw(mv)
            self.draws[d] = rhs
            if any(a[0] != "num" for a in rhs[2]):
                self.dependent_draws.add(d)
            body.append(H.assign(d, rhs))
        # 2. numeric updates, possibly under ifs
        updates = list(self.nums)
        if self.coin(0.4) and self.nums:
            updates.append(r.choice(self.nums))     # a second assignment to the same variable
            self.features.add("multi-assign")
        r.shuffle(updates)
        if fam == "simult" and len(self.nums) >= 2:
            k = r.randint(2, len(self.nums))
            xs = r.sample(self.nums, k)
            rot = xs[1:] + xs[:1]
            rh = []
            for i, x in enumerate(xs):
                if i == 0 and self.coin(0.6):
                    rh.append(H.ex(H.add(H.var(rot[i]), H.mul(self.coef(), H.var(x)))))
                else:
                    rh.append(H.ex(H.var(rot[i])))
            if self.coin(0.35):
                # a right side of the simultaneous assignment that is itself random (choice or draw): all right sides still read old values
                i = r.randrange(len(xs))
                if self.coin(0.6):
                    rh[i] = ("choice", self._fill_probs([(H.add(H.var(rot[i]), H.num(1)), None), (H.var(rot[i]), None)]))
                else:
                    rh[i] = ("dist", "Bernoulli", [H.num(r.choice([Fr(1, 2), Fr(1, 3), Fr(3, 4)]))])
                self.features.add("simult-random-rhs")
            body.append(("simult", xs, rh))
            self.features.add("simult")
            updates = [u for u in updates if self.coin(0.4)]
        stmts_flat = [H.assign(x, self.num_update(x, mode)) for x in updates]
        if self.fin and fam in ("branchy", "finite", "guarded", "param", "choice", "poly", "cont"):
            body += self.wrap_in_ifs(stmts_flat, depth=0)
        else:
            body += stmts_flat
        if getattr(self, "late_const", None) and self.nums:
            kc, src = self.late_const
            tgt = r.choice(self.nums)
            body.append(H.assign(tgt, H.ex(H.add(H.var(tgt), H.var(kc)))))
        # 3. sometimes a late finite update (so conditions above read the *old* value of later-assigned vars)
        if fnames and self.coin(0.25):
            f = r.choice(fnames)
            body += self.finite_update(f)
            self.features.add("late-finite-update")

        self.consts = []
        if self.documented and self.coin(0.35):
            # a loop constant: initialised, never reassigned; used in a condition and/or arithmetic
            kv = r.choice([Fr(2), Fr(1), Fr(0), Fr(3)])
            init.append(H.assign("k", H.ex(H.num(kv))))
            self.consts.append("k")
            self.features.add("loop-constant")
            if self.nums:
                x = r.choice(self.nums)
                stmt = H.assign(x, H.ex(H.add(H.var(x), H.var("k"))))
                if self.coin(0.6):
                    self.features.add("constant-in-condition")
                    stmt = ("ite", H.cmp_(r.choice([">=", "==", "<"]), H.var("k"), H.num(r.choice([1, 2]))), [stmt], [])
                body.append(stmt)
                if self.coin(0.3):
                    # a second constant computed from the first one, which is then re-initialised: k1 keeps the OLD value of k
                    init.append(H.assign("k1", H.ex(H.add(H.mul(H.num(r.choice([1, 2, -1])), H.var("k")), H.num(r.choice([0, 1]))))))
                    init.append(H.assign("k", H.ex(H.num(kv + r.choice([1, 2, -3])))))
                    self.consts.append("k1")
                    tgt = r.choice(self.nums)
                    body.append(H.assign(tgt, H.ex(H.add(H.var(tgt), H.var("k1")))))
                    self.features.add("constant-from-reinitialised-constant")
        guard = H.TT
        if fam == "guarded" and fnames:
            f = r.choice(fnames)
            dom = self.fin[f]
            guard = H.cmp_(r.choice(["==", "==", "<", ">="]), H.var(f), H.num(r.choice([d for d in dom if d.denominator == 1] or [Fr(0)])))
            self.features.add("guard")
        prog = {"init": init, "guard": guard, "body": body}
        if self.types:
            prog["types"] = list(self.types)
        return prog

    def wrap_in_ifs(self, stmts, depth):
        r = self.r
        if not stmts or not self.fin:
            return stmts
        if depth >= (3 if self.family == "branchy" else 2) or self.coin(0.25 + 0.2 * depth):
            return stmts
        out = []
        i = 0
        while i < len(stmts):
            k = r.randint(1, max(1, len(stmts) - i))
            chunk = stmts[i:i + k]
            i += k
            if self.coin(0.7):
                nbranches = r.choice([1, 1, 2, 2, 3])
                self.features.add(f"if-{nbranches}")
                branches = []
                for b in range(nbranches):
                    inner = [self._perturb(s) for s in chunk] if b > 0 else chunk
                    inner = self.wrap_in_ifs(inner, depth + 1)
                    cnd = self.finite_cond()
                    if self.coin(0.08):
                        # the branch reassigns a variable of its own condition (the remaining statements of the branch and the
                        # later branches must still see the condition as it was decided)
                        cv = sorted(v for v in H.cond_vars(cnd) if v in self.fin) if hasattr(H, "cond_vars") else []
                        if cv:
                            v = r.choice(cv)
                            inner = [H.assign(v, H.ex(H.num(r.choice(self.fin[v]))))] + list(inner)
                            self.features.add("branch-reassigns-condition-variable")
                    branches.append((cnd, inner))
                els = []
                if self.coin(0.5):
                    els = [self._perturb(s) for s in chunk[:1]]
                    self.features.add("else")
                node = els
                for c, b in reversed(branches):
                    node = [("ite", c, b, node)]
                if depth > 0:
                    self.features.add("nested-if")
                out += node
            else:
                out += chunk
        return out

    def _perturb(self, s):
        """a variant of an assignment for another branch"""
        if s[0] != "assign":
            return s
        x = s[1]
        if x in self.nums:
            mode = "linear" if "mode-linear" in self.features else "acyclic"
            return H.assign(x, self.num_update(x, mode))
        return s

    # ---- goals and points ----------------------------------------------------------------------
    def goals(self, prog, k=4):
        r = self.r
        assigned = sorted(H.stmts_assigned(prog["body"]))
        cands = []
        for x in assigned:
            cands.append([(x, 1)])
        for x in self.nums:
            if x in assigned:
                cands.append([(x, 2)])
                if self.coin(0.3):
                    cands.append([(x, 3)])
        for f in self.fin:
            for x in self.nums:
                if f in assigned and x in assigned:
                    cands.append([(f, 1), (x, 1)])
        for d in self.draws:
            for x in self.nums:
                cands.append([(d, 1), (x, 1)])
        if len(self.nums) >= 2:
            a, b = r.sample(self.nums, 2)
            cands.append([(a, 1), (b, 1)])
            cands.append([(a, 2), (b, 1)])
        for f in self.fin:
            if f in assigned:
                cands.append([(f, 2)])
        r.shuffle(cands)
        for cv in getattr(self, "consts", []):
            cands.insert(0, [(cv, 1)])
            self.features.add("goal-over-constant")
        out = []
        for c in cands:
            c = sorted(c)
            if c not in out:
                out.append(c)
            if len(out) >= k:
                break
        return out

    def point(self):
        """numeric values for parameters and for uninitialised variables"""
        r = self.r
        params = {}
        for name, kind in self.params.items():
            params[name] = r.choice(PROBS) if kind == "prob" else r.choice([Fr(2), Fr(-1), Fr(1, 2), Fr(3), Fr(-3, 2)])
        sigma0 = {x: r.choice([Fr(1), Fr(-2), Fr(3, 2), Fr(4)]) for x in self.uninit}
        return params, sigma0


def generate(rnd, family=None, documented=False):
    """returns a case dict: program AST, text, goals, parameter point, features"""
    g = Gen(rnd, family, documented)
    prog = g.program()
    # complete implicit probabilities (None) of choices
    prog = _complete(prog)
    goals = g.goals(prog)
    params, sigma0 = g.point()
    return {"family": g.family, "program": prog, "goals": goals, "params": params, "sigma0": sigma0,
            "features": sorted(g.features), "uninit": list(g.uninit), "fin": {k: v for k, v in g.fin.items()}}


def _complete_rhs(rhs):
    if rhs[0] != "choice":
        return rhs
    alts = rhs[1]
    known = [p for _, p in alts if p is not None]
    out = []
    for e, p in alts:
        if p is None:
            rest = H.num(1)
            for q in known:
                rest = H.sub(rest, q)
            p = rest
        out.append((e, p))
    return ("choice", out)


def _complete_stmts(stmts):
    out = []
    for s in stmts:
        if s[0] == "assign":
            out.append(("assign", s[1], _complete_rhs(s[2]), s[3], s[4]))
        elif s[0] == "simult":
            out.append(("simult", s[1], [_complete_rhs(x) for x in s[2]]))
        else:
            out.append(("ite", s[1], _complete_stmts(s[2]), _complete_stmts(s[3])))
    return out


def _complete(prog):
    out = {"init": _complete_stmts(prog["init"]), "guard": prog["guard"], "body": _complete_stmts(prog["body"])}
    if prog.get("types"):
        out["types"] = prog["types"]
    return out
