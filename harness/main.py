"""Entry point: ./check Cxx [--tier quick|thorough] [--replay path]"""
import argparse
import importlib
import os
import sys
import traceback


def main():
    ap = argparse.ArgumentParser()
    ap.add_argument("prop")
    ap.add_argument("--tier", default=os.environ.get("VERIF_TIER", "quick"), choices=["quick", "thorough"])
    ap.add_argument("--replay", default=None)
    args = ap.parse_args()
    prop = args.prop.upper()
    try:
        mod = importlib.import_module(f"harness.checks.{prop.lower()}")
    except ModuleNotFoundError:
        print(f"no check for {prop}", file=sys.stderr)
        sys.exit(2)
    try:
        if args.replay:
            code = mod.replay(args.replay)
        else:
            code = mod.run(args.tier)
    except Exception:
        traceback.print_exc()
        sys.exit(2)
    sys.exit(code)


if __name__ == "__main__":
    main()
