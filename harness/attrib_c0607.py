"""Attribution of C06 / C07 failures to the exponent-lattice defects F4 / F4b (known_findings.json,
property C16) seen through `InvariantIdeal`.

A failure is attributed only if
  (i)   all exponential bases of the instance are rational and the base list has the structural signature
        of the C16 finding as decided by `harness.attrib_c16.in_signature` (F4: sympy's rational nullspace
        of the multiplicity matrix has a non-integral entry, which `.astype(int)` truncates; F4b: a base 1
        next to pairwise coprime bases);
  (ii)  the lattice rows the code handed to `LatticeIdeal` are really wrong for these bases: some row is
        not a multiplicative relation (exact rational arithmetic here), or the rows do not contain the
        relations of the repaired run;
  (iii) the same input re-run with the integer-kernel repair of harness/tasks/c16.py patched in memory
        (only `ExponentLattice.compute_basis_rational` / `is_trivially_empty`; InvariantIdeal, LatticeIdeal
        and the Groebner step run unchanged) no longer shows the failure.
Anything else stays a violation."""
from fractions import Fraction as Fr

from . import attrib_c16


def _row_is_relation(bases, row):
    v = Fr(1)
    for b, e in zip(bases, row):
        if b == 0:
            return False
        v *= Fr(b) ** int(e)
    return v == 1


def _common(rec, want):
    bq = rec.get("bases_q")
    if not bq:
        return None
    try:
        sig = attrib_c16.in_signature(bq)
    except Exception:
        return None
    if sig != want or rec.get("signature") != want:
        return None
    lat = rec.get("lattice")
    if lat is None:
        return None
    bases = [Fr(s) for s in bq]
    wrong_row = any(len(r) != len(bases) or not _row_is_relation(bases, r) for r in lat)
    if want == "F4" and not wrong_row:
        # truncation can also produce sound but too few rows; then the repaired run must differ
        if rec.get("repaired_basis") is None:
            return None
    if not rec.get("repaired_clean"):
        return None
    return sig


def f4(prop, rec):
    if _common(rec, "F4"):
        return (f"exponent lattice of {rec.get('bases_q')} truncated to {rec.get('lattice')} "
                f"(F4, invariants/exponent_lattice.py:compute_basis_rational); with the integer-kernel repair the "
                f"reported basis is {rec.get('repaired_basis')}")
    return None


def f4b(prop, rec):
    if _common(rec, "F4b"):
        return (f"base 1 dropped by is_trivially_empty for {rec.get('bases_q')} (F4b); with the repair the reported "
                f"basis is {rec.get('repaired_basis')}")
    return None
