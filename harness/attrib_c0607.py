"""Attribution of C06 / C07 failures to the exponent-lattice defects F4 / F4b (known_findings.json,
property C16) seen through `InvariantIdeal`.

A failure is attributed only if
  (i)   all exponential bases of the instance are rational and the base list has the structural signature
        of the C16 finding as decided by `harness.attrib_c16.in_signature` (F4: sympy's rational nullspace
        of the multiplicity matrix has a non-integral entry, which `.astype(int)` truncates; F4b: a base 1
        next to pairwise coprime bases);
  (ii)  the lattice rows the code handed to `LatticeIdeal` are wrong for these bases according to the
        verified judge of C16 (polar-model `lattice_check`): for a false invariant (C06) some row must
        fail to be a multiplicative relation — a sound but incomplete lattice cannot make the ideal
        unsound (`c06_ideal_sound`); for a lost relation (C07) the rows must fail to be a basis;
  (iii) the same input re-run with an in-memory repair of `ExponentLattice` only (InvariantIdeal,
        LatticeIdeal and the Groebner step run unchanged) no longer shows the failure: the integer-kernel
        repair of harness/tasks/c16.py; for C06, where that run does not finish within the time limit, the
        code's own rows with the non-relations filtered out.
Anything else stays a violation."""
from . import attrib_c16


def _common(rec, want):
    bq = rec.get("bases_q")
    if not bq:
        return None
    try:
        sig = attrib_c16.in_signature(bq)
    except Exception:
        return None
    if sig != want or rec.get("signature") != want:
        return None
    lv = rec.get("lattice_verdict")
    if not lv:
        return None
    if rec.get("need") == "unsound":
        if lv["sound"]:
            return None
    elif lv["sound"] and lv["complete"]:
        return None
    if not rec.get("repaired_clean"):
        return None
    if rec.get("need") != "unsound" and rec.get("repair_kind") == "filter":
        return None
    return sig


def f4(prop, rec):
    if _common(rec, "F4"):
        return (f"exponent lattice of {rec.get('bases_q')} truncated to {rec.get('lattice')} "
                f"(F4, invariants/exponent_lattice.py:compute_basis_rational); with the {rec.get('repair_kind')} repair "
                f"the reported basis is {rec.get('repaired_basis')}")
    return None


def f4b(prop, rec):
    if _common(rec, "F4b"):
        return (f"base 1 dropped by is_trivially_empty for {rec.get('bases_q')} (F4b); with the repair the reported "
                f"basis is {rec.get('repaired_basis')}")
    return None
