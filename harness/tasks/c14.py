"""Worker-side tasks of C14: drive the real invariant / solvable-loop synthesis exactly as the CLI
actions do (cli/actions/synth_unsolv_inv_action.py, synth_solv_loop_action.py) and return plain data:
every returned pair (Q, f) at a seeded rational sample point of the free symbols, together with the
solver's own k and R (captured at the call of `UnsolvInvSynthesizer.get_invariants`, the only way to
see them — nothing is re-implemented), and every synthesised loop as a model-AST program."""
import random
from fractions import Fraction as Fr

from .analyze import _reset_settings, _err, eval_closed_form, to_rational
from .convert import program_json, fr_str, Unconvertible


# ------------------------------------------------------------------------------------------------
# sample points
# ------------------------------------------------------------------------------------------------

def sample_value(seed, name, nonzero=False):
    r = random.Random(f"c14:{seed}:{name}")
    while True:
        v = Fr(r.randint(-5, 5), r.choice([1, 1, 2, 3]))
        if v != 0 or not nonzero:
            return v


def sample_param(seed, name):
    """parameters may be probabilities or variances: positive, at most 1"""
    r = random.Random(f"c14p:{seed}:{name}")
    return r.choice([Fr(1, 2), Fr(1, 3), Fr(2, 3), Fr(1, 4), Fr(3, 4), Fr(1, 5), Fr(2, 5), Fr(1)])


def _rat(x):
    import sympy
    f = Fr(x)
    return sympy.Rational(f.numerator, f.denominator)


def _exact(e):
    """exact value of a closed sympy number.  An exact Rational is returned untouched: `sympy.nsimplify` is for
    floats and rewrites some exact rationals into products of radicals (sympy 1.11.1: nsimplify(Rational(2668, 99))
    = 7*2**(259/324)*3**(497/648)*5**(163/216)*7**(41/648)/4), which once corrupted one value of the F140 repair
    (gen-146 of the thorough tier, seed 0) and would silently drop a solution in `poly_terms`.  Anything else is
    decided by tasks/analyze.py:to_rational (expand / radsimp / simplify / minimal polynomial, never a float fit)."""
    import sympy
    e = sympy.sympify(e)
    if e.is_Rational:
        return e
    if e.has(sympy.Float):
        return sympy.nsimplify(e, rational=True)
    tag, v = to_rational(e)[:2]
    if tag == "q":
        return _rat(v)
    return e


def _subs_by_name(expr, values):
    """replace every free symbol whose *name* is in `values` (sympy expression in, sympy out)"""
    import sympy
    e = sympy.sympify(expr)
    rep = {s: _rat(values[s.name]) for s in e.free_symbols if s.name in values}
    return e.xreplace(rep) if rep else e


def poly_terms(expr, var_names):
    """polynomial over the named variables with rational coefficients -> [[mono, 'p/q'], ...]"""
    import sympy
    e = sympy.expand(sympy.sympify(expr))
    if e == 0:
        return []
    gens = sorted([s for s in e.free_symbols if s.name in var_names], key=lambda s: s.name)
    other = [s for s in e.free_symbols if s.name not in var_names]
    if other:
        raise Unconvertible(f"free symbols left in polynomial: {sorted(s.name for s in other)}")
    if not gens:
        c = _exact(e)
        if not c.is_Rational:
            raise Unconvertible(f"non-rational constant {e}")
        return [[[], f"{c.p}/{c.q}"]]
    p = sympy.Poly(e, *gens)
    out = []
    for exps, c in p.terms():
        c = _exact(c)
        if not c.is_Rational:
            raise Unconvertible(f"non-rational coefficient {c}")
        mono = [[g.name, int(k)] for g, k in zip(gens, exps) if k]
        out.append([mono, f"{c.p}/{c.q}"])
    return out


def closed_form_terms(f_at):
    """exponential-polynomial term list of a closed form in n (all other symbols substituted)"""
    import sympy
    from .solve import term_shape, _radicands, _as_qd
    out = {"terms": None, "D": None, "degs": None, "shape_error": None}
    try:
        if sympy.sympify(f_at) == 0:
            out["terms"] = []
            out["degs"] = []
            return out
        shape = term_shape(f_at)
        bases = {}
        for c_, dg, b_ in shape:
            bases[str(b_)] = max(bases.get(str(b_), 0), dg + 1)
        out["degs"] = sorted(bases.values())
        if all(c_.is_Rational and b_.is_Rational for c_, _, b_ in shape):
            out["terms"] = [{"coef": f"{c_.p}/{c_.q}", "deg": dg, "base": f"{b_.p}/{b_.q}"} for c_, dg, b_ in shape]
        else:
            rads = set()
            for c_, _, b_ in shape:
                rads |= _radicands(c_) | _radicands(b_)
            if len(rads) == 1:
                D = next(iter(rads))
                ts = []
                for c_, dg, b_ in shape:
                    cq, bq = _as_qd(c_, D), _as_qd(b_, D)
                    if cq is None or bq is None:
                        ts = None
                        break
                    ts.append({"coef": list(cq), "deg": dg, "base": list(bq)})
                if ts is not None:
                    out["terms"] = ts
                    out["D"] = str(D)
            if out["terms"] is None:
                out["shape_error"] = "bases/coefficients outside one quadratic field"
    except Exception as ex:  # noqa
        out["shape_error"] = f"{type(ex).__name__}: {str(ex)[:160]}"
    return out


# ------------------------------------------------------------------------------------------------
# program loading as the CLI does
# ------------------------------------------------------------------------------------------------

def _load(text=None, path=None):
    from inputparser import Parser, parse_program
    if path is not None:
        return parse_program(path)
    return Parser().parse_string(text)


def _finite_types(program):
    """number of values of every variable Polar declares `Finite` (powers >= that number are reduced by
    RecBuilder._reduce_powers, smaller ones are kept)"""
    out = {}
    try:
        for v in program.finite_variables:
            out[str(v)] = len(program.get_type(v).values)
    except Exception:  # noqa
        pass
    return out


def _info(parsed_json, program):
    return {
        "finite_types": _finite_types(program),
        "source_program": parsed_json,
        "variables": sorted(str(v) for v in program.variables),
        "original_variables": sorted(str(v) for v in program.original_variables),
        "symbols": sorted(str(v) for v in program.symbols),
        "effective": sorted(str(v) for v in program.effective_variables),
        "defective": sorted(str(v) for v in program.defective_variables),
        "is_probabilistic": bool(program.is_probabilistic),
        "normalized_text": str(program),
    }


def _candidate_vars(program, cand):
    from symengine.lib.symengine_wrapper import sympify
    if cand:
        return [sympify(v) for v in cand]
    # exactly the loop of the CLI actions
    out = []
    for var in program.defective_variables:
        if var in program.original_variables:
            out.append(var)
    return out


class _Capture:
    """records the arguments of UnsolvInvSynthesizer.get_invariants during a genuine call"""

    def __init__(self):
        from unsolvable_analysis import UnsolvInvSynthesizer as U
        self.U = U
        self.orig = U.__dict__["get_invariants"]
        self.calls = []

    def __enter__(self):
        cap = self
        orig = self.orig.__func__

        def wrapped(cls, *args, **kw):
            names = ["candidate", "rec_builder", "solutions", "rhs_effective_part", "effective_part_coeffs",
                     "program", "k"]
            d = dict(zip(names, args))
            d.update(kw)
            cap.calls.append({"candidate": d.get("candidate"), "solutions": list(d.get("solutions") or []),
                              "rhs": d.get("rhs_effective_part"), "k": d.get("k")})
            return orig(cls, *args, **kw)
        self.U.get_invariants = classmethod(wrapped)
        return self

    def __exit__(self, *exc):
        self.U.get_invariants = self.orig
        return False


def _sample_env(program, seed, exprs, exclude=()):
    """values for: parameters, `x0` symbols of program variables, every other free symbol (`_u..`: numbered in
    the order of their numeric suffix so that the point does not depend on the global name counter)"""
    import re
    import sympy
    values = {}
    pvars = {str(v) for v in program.variables}
    for s in program.symbols:
        values[str(s)] = sample_param(seed, str(s))
    for v in pvars:
        values[v + "0"] = sample_value(seed, v)
    free = set()
    for e in exprs:
        for s in sympy.sympify(e).free_symbols:
            nm = s.name
            if nm == "n" or nm in values or nm in pvars or nm in exclude:
                continue
            free.add(nm)

    def order(nm):
        m = re.search(r"(\d+)$", nm)
        return (re.sub(r"\d+$", "", nm), int(m.group(1)) if m else -1, nm)
    for i, nm in enumerate(sorted(free, key=order)):
        values[nm] = sample_value(seed, f"free{i}", nonzero=True)
    return values, sorted(free, key=order)


def _solution_record(program, Q, f, cap_call, idx, seed, nmax):
    import sympy
    rec = {"Q_str": str(Q)[:600], "f_str": str(f)[:1200]}
    pvars = {str(v) for v in program.variables}
    k_expr = R_expr = None
    if cap_call is not None and idx < len(cap_call["solutions"]):
        sol = cap_call["solutions"][idx]
        k = cap_call["k"]
        try:
            k_expr = sympy.sympify(k).xreplace(sol) if hasattr(k, "free_symbols") and sympy.sympify(k).free_symbols else sympy.sympify(k)
            R_expr = sympy.sympify(cap_call["rhs"]).xreplace(sol)
            # the captured candidate must be the returned Q (same object order)
            Qc = sympy.sympify(cap_call["candidate"]).xreplace(sol)
            if sympy.expand(Qc - sympy.sympify(Q)) != 0:
                k_expr = R_expr = None
                rec["capture_mismatch"] = True
        except Exception as ex:  # noqa
            rec["capture_error"] = f"{type(ex).__name__}: {str(ex)[:120]}"
            k_expr = R_expr = None
    exprs = [Q, f] + ([k_expr, R_expr] if k_expr is not None else [])
    values, free = _sample_env(program, seed, exprs)
    rec["values"] = {k: fr_str(v) for k, v in values.items()}
    rec["free_unknowns"] = free
    env_noinit = {k: v for k, v in values.items()}
    try:
        rec["Q"] = poly_terms(_subs_by_name(Q, {k: v for k, v in values.items() if k not in pvars}), pvars)
    except Exception as ex:  # noqa
        rec["Q"] = None
        rec["Q_error"] = f"{type(ex).__name__}: {str(ex)[:160]}"
    if k_expr is not None:
        try:
            kv = _exact(_subs_by_name(k_expr, values))
            rec["k"] = f"{kv.p}/{kv.q}" if kv.is_Rational else None
            rec["k_str"] = str(k_expr)[:200]
            rec["R"] = poly_terms(_subs_by_name(R_expr, {k: v for k, v in values.items() if k not in pvars}), pvars)
            rec["R_str"] = str(R_expr)[:400]
        except Exception as ex:  # noqa
            rec["k"] = None
            rec["R"] = None
            rec["kR_error"] = f"{type(ex).__name__}: {str(ex)[:160]}"
    else:
        rec["k"] = None
        rec["R"] = None
    subs = {k: fr_str(v) for k, v in env_noinit.items()}
    # values beyond the oracle window let the check confirm a certificate disagreement at n > nmax with sympy's own
    # evaluation of f (and tell it from a term-shape extraction problem of the harness)
    ext = [list(eval_closed_form(f, n, subs)) for n in range(max(nmax, 16) + 1)]
    rec["f_values"] = ext[:nmax + 1]
    rec["f_values_ext"] = ext
    f_at = _subs_by_name(f, values)
    left = [s.name for s in sympy.sympify(f_at).free_symbols if s.name != "n"]
    if left:
        rec["f_shape"] = {"terms": None, "shape_error": f"free symbols left: {left}"}
    else:
        rec["f_shape"] = closed_form_terms(f_at)
    return rec


def synth_inv(text=None, path=None, inv_deg=1, mode="ksym", cand=None, seed=0, nmax=5, settings=None):
    """mode 'k1': synth_inv(candidate_vars, inv_deg, program, k=1); 'ksym': synth_inv(candidate_vars, inv_deg,
    program) — the two calls of SynthUnsolvInvAction."""
    _reset_settings(settings)
    res = {"accepted": False, "mode": mode, "inv_deg": inv_deg}
    try:
        parsed = _load(text, path)
        try:
            pj = program_json(parsed)
        except Exception as ex:  # noqa
            pj = None
            res["source_unconvertible"] = str(ex)[:200]
        from program import normalize_program
        program = normalize_program(parsed)
    except Exception as e:  # noqa
        res["error"] = _err(e, "normalize")
        _reset_settings()
        return res
    res["accepted"] = True
    res.update(_info(pj, program))
    if len(program.defective_variables) == 0:
        res["applicable"] = False
        _reset_settings()
        return res
    res["applicable"] = True
    cvars = _candidate_vars(program, cand)
    res["candidate_vars"] = [str(v) for v in cvars]
    from unsolvable_analysis import UnsolvInvSynthesizer
    try:
        with _Capture() as cap:
            if mode == "k1":
                sols = UnsolvInvSynthesizer.synth_inv(cvars, inv_deg, program, k=1)
            else:
                sols = UnsolvInvSynthesizer.synth_inv(cvars, inv_deg, program)
    except Exception as e:  # noqa
        res["synth_error"] = _err(e, "synth_inv")
        _reset_settings()
        return res
    res["none"] = sols is None
    res["solutions"] = []
    call = cap.calls[-1] if cap.calls else None
    for i, sol in enumerate(sols or []):
        res["solutions"].append(_solution_record(program, sol[0], sol[1], call, i, seed, nmax))
    _reset_settings()
    return res


def _target_record(program, tprog, Q, seed):
    """a synthesised loop as model AST + the correspondence map phi (target variable -> source polynomial)"""
    import sympy
    rec = {"text": str(tprog)}
    rec["program"] = program_json(tprog)
    pvars = {str(v) for v in program.variables}
    tvars = [str(v) for v in tprog.variables]
    rec["variables"] = tvars
    # copies `x = _t` at the end of the body identify which source variable a `_t` stands for
    phi = {}
    retained = []
    for a in tprog.loop_body:
        v = str(a.variable)
        rhs = a.polynomials[0] if len(a.polynomials) == 1 else None
        if rhs is not None and v in pvars and str(rhs) in tvars and str(rhs).startswith("_t"):
            phi[str(rhs)] = [[[[v, 1]], "1"]]
            phi[v] = [[[[v, 1]], "1"]]
            retained.append(v)
    s_vars = [v for v in tvars if v.startswith("_s")]
    rec["retained"] = retained
    rec["s_var"] = s_vars[0] if s_vars else None
    exprs = [Q] if Q is not None else []
    for a in list(tprog.initial) + list(tprog.loop_body):
        exprs += list(a.polynomials)
    values, _ = _sample_env(program, seed, exprs, exclude=set(tvars))
    rec["values"] = {k: fr_str(v) for k, v in values.items()}
    if s_vars and Q is not None:
        phi[s_vars[0]] = poly_terms(_subs_by_name(Q, {k: v for k, v in values.items() if k not in pvars}), pvars)
    rec["phi"] = phi
    return rec


def synth_loop(text=None, path=None, inv_deg=1, cand=None, seed=0, nmax=5, settings=None):
    """SolvLoopSynthesizer.synth_loop(candidate_vars, inv_deg, program) as SynthSolvLoopAction calls it."""
    _reset_settings(settings)
    res = {"accepted": False, "mode": "loop", "inv_deg": inv_deg}
    try:
        parsed = _load(text, path)
        try:
            pj = program_json(parsed)
        except Exception as ex:  # noqa
            pj = None
            res["source_unconvertible"] = str(ex)[:200]
        from program import normalize_program
        program = normalize_program(parsed)
    except Exception as e:  # noqa
        res["error"] = _err(e, "normalize")
        _reset_settings()
        return res
    res["accepted"] = True
    res.update(_info(pj, program))
    try:
        res["normalized_program"] = program_json(program)
    except Exception as ex:  # noqa
        res["normalized_program"] = None
    cvars = _candidate_vars(program, cand)
    res["candidate_vars"] = [str(v) for v in cvars]
    from unsolvable_analysis import SolvLoopSynthesizer
    try:
        with _Capture() as cap:
            invariants, programs = SolvLoopSynthesizer.synth_loop(cvars, inv_deg, program)
    except Exception as e:  # noqa
        res["synth_error"] = _err(e, "synth_loop")
        _reset_settings()
        return res
    invariants = invariants or []
    res["n_invariants"] = len(invariants)
    res["n_programs"] = len(programs)
    call = cap.calls[-1] if cap.calls else None
    res["solutions"] = [_solution_record(program, inv[0], inv[1], call, i, seed, nmax)
                        for i, inv in enumerate(invariants)]
    res["targets"] = []
    for i, tp in enumerate(programs):
        Q = invariants[i][0] if i < len(invariants) else None
        try:
            res["targets"].append(_target_record(program, tp, Q, seed))
        except Exception as ex:  # noqa
            res["targets"].append({"text": str(tp), "program": None,
                                   "why": f"{type(ex).__name__}: {str(ex)[:200]}"})
    _reset_settings()
    return res


def repair_piecewise(text=None, path=None, inv_deg=1, mode="ksym", cand=None, seed=0, nmax=5, settings=None):
    """In-memory repair used only for attribution: the same synthesis call; to the values of the *returned* closed
    form (whatever the tree computes) exactly that part of the summation
        f(n) = k^n·q0 + Σ_{j<n} k^j · inhom(n − j)
    is added back which `without_piecewise` removed:  Σ_{j<n} k^j · (inhom(n−j) − inhom_general(n−j)), where
    `inhom` is the solved effective part as `get_invariants` computes it (Piecewise initial-value cases intact) and
    `inhom_general` its last branch.  Nothing else of the code's result is touched, so any other defect of the
    summation survives the repair.  Returns per solution the repaired values at the sample point and whether the
    solved effective part contains a Piecewise in n."""
    import sympy
    _reset_settings(settings)
    from program import normalize_program
    program = normalize_program(_load(text, path))
    cvars = _candidate_vars(program, cand)
    from unsolvable_analysis import UnsolvInvSynthesizer, SolvLoopSynthesizer
    from recurrences import RecBuilder
    with _Capture() as cap:
        if mode == "k1":
            sols = UnsolvInvSynthesizer.synth_inv(cvars, inv_deg, program, k=1)
        elif mode == "ksym":
            sols = UnsolvInvSynthesizer.synth_inv(cvars, inv_deg, program)
        else:
            sols, _ = SolvLoopSynthesizer.synth_loop(cvars, inv_deg, program)
    out = []
    call = cap.calls[-1] if cap.calls else None
    if call is None:
        _reset_settings()
        return {"solutions": out}
    # the solved effective part exactly as get_invariants computes it (shifted n -> n-1, piecewise intact)
    from unsolvable_analysis.unsolv_inv_synthesizer import UnsolvInvSynthesizer as U
    rhs = call["rhs"]
    eff_coeffs = {s_ for s_ in sympy.sympify(rhs).free_symbols if s_.name.startswith("_u")}
    import symengine
    eff = U.__solve_effective_part__(rhs, {symengine.Symbol(s_.name) for s_ in eff_coeffs}, program)
    eff = sympy.sympify(eff)
    nsyms = [s_ for s_ in eff.free_symbols if s_.name == "n"]
    rb = RecBuilder(program)
    init_c = U.__get_init_value_candidate__(call["candidate"], rb)
    for i, sol in enumerate(sols or []):
        sdict = call["solutions"][i]
        k = call["k"]
        kx = sympy.sympify(k).xreplace(sdict) if sympy.sympify(k).free_symbols else sympy.sympify(k)
        q0 = sympy.sympify(init_c).xreplace(sdict)
        inhom = eff.xreplace(sdict)
        exprs = [sol[0], sol[1], kx, sympy.sympify(call["rhs"]).xreplace(sdict)]
        values, _ = _sample_env(program, seed, exprs)
        kv = _subs_by_name(kx, values)
        q0v = _subs_by_name(q0, values)
        inh = _subs_by_name(inhom, values)
        # what the stripping removed: delta(m) = inhom(m) with its cases - inhom(m) general branch only
        from utils import without_piecewise
        inh_gen = without_piecewise(inh)

        def at(expr, m):
            e = expr
            for ns in nsyms:
                e = e.xreplace({ns: sympy.Integer(m)})
            e = _subs_by_name(e, {"n": Fr(m)})
            return _exact(e)
        delta = {m: at(inh, m) - at(inh_gen, m) for m in range(1, nmax + 1)}
        subs0 = {k_: fr_str(v) for k_, v in values.items()}
        vals = []
        for n_ in range(nmax + 1):
            tag, fv = eval_closed_form(sol[1], n_, subs0)
            if tag != "q":
                vals.append(f"{tag}:{fv}")
                continue
            tot = _rat(Fr(fv))
            for j in range(n_):
                tot += kv ** j * delta[n_ - j]
            tot = _exact(tot)
            vals.append(f"{tot.p}/{tot.q}" if tot.is_Rational else str(tot))
        pvars = {str(v) for v in program.variables}
        try:
            qt = poly_terms(_subs_by_name(sol[0], {k_: v for k_, v in values.items() if k_ not in pvars}), pvars)
        except Exception:  # noqa
            qt = None
        subs = {k_: fr_str(v) for k_, v in values.items()}
        out.append({"has_piecewise": bool(eff.has(sympy.Piecewise)), "values": vals, "Q": qt,
                    "point": subs, "symbols": sorted(str(x) for x in program.symbols),
                    "f_values": [list(eval_closed_form(sol[1], n_, subs)) for n_ in range(nmax + 1)]})
    _reset_settings()
    return {"solutions": out}
