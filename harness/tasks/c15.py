"""C15 worker-side tasks: drive /repo/bayesnet and the CLI action in-process (cwd = the repo tree)."""
import contextlib
import io
import os
import re
import sys
import tempfile
from fractions import Fraction as Fr

ERR_CLASSES = [
    (r"is defined multiple times", "duplicate-variable"),
    (r"has no CPT", "no-cpt"),
    (r"has no type definitions", "no-type"),
    (r"has multiple type definitions", "multiple-types"),
    (r"domain contains duplicates", "domain-duplicates"),
    (r"Defined type domain size", "domain-count"),
    (r"has CPT, but is not defined", "cpt-undefined-variable"),
    (r"is parent of variable .* but not defined", "undefined-parent"),
    (r"has two defined CPTs", "two-cpts"),
    (r"multiple default-declarations", "multiple-default"),
    (r"multiple table-declarations", "multiple-table"),
    (r"has double entry", "double-entry"),
    (r"Default entry of variable .* does not cover", "default-length"),
    (r"Default entry of variable .* does not sum", "default-sum"),
    (r"Table entry for variable .* does not cover all CPT rows", "table-length"),
    (r"Entry .* of variable .* does not sum up to 1", "row-sum"),
    (r"has invalid condition length", "entry-cond-length"),
    (r"has invalid number of values", "entry-probs-length"),
    (r"has invalid condition value", "entry-value"),
    (r"is not fully specified", "incomplete"),
]


def _q(x):
    """exact decimal denoted by the shortest repr of a float (what str() prints into the Polar program)"""
    if x != x:
        return "nan"      # an unspecified entry that survived (only possible if the completeness check is gone)
    f = Fr(repr(float(x)))
    return str(f.numerator) if f.denominator == 1 else f"{f.numerator}/{f.denominator}"


def _classify(e):
    """(accepted=False) record of a parser exception"""
    orig = getattr(e, "orig_exc", None)
    if orig is not None:
        e = orig
    et = type(e).__name__
    msg = str(e)
    cls = None
    if et == "BifFormatException":
        for pat, c in ERR_CLASSES:
            if re.search(pat, msg, flags=re.S):
                cls = c
                break
        cls = cls or "bif-other"
    elif et in ("UnexpectedToken", "UnexpectedCharacters", "UnexpectedEOF", "UnexpectedInput"):
        cls = "syntax"
    else:
        cls = "crash:" + et
    return {"accepted": False, "etype": et, "class": cls, "message": msg[:300]}


def dump_network(net):
    from itertools import product
    out = []
    for v in net.variables.values():
        combs = list(product(*[p.domain for p in v.parents]))
        out.append({"name": v.name, "domain": list(v.domain), "parents": [p.name for p in v.parents],
                    "rows": [[_q(x) for x in v.cpt[c]] for c in combs],
                    "extra_keys": sorted(str(k) for k in v.cpt.keys() if k not in set(combs))})
    return out


def _parse(text=None, path=None, tol=None):
    from bayesnet.parser import BifParser
    parser = BifParser() if tol is None else BifParser(float(tol))
    if path is not None:
        return parser.parse_file(path)
    with tempfile.TemporaryDirectory() as td:
        p = os.path.join(td, "net.bif")
        with open(p, "w") as fh:
            fh.write(text)
        return parser.parse_file(p)


def parse_bif(text=None, path=None, tol=None, want_code=False):
    """accept/reject + the parsed network; optionally the program generated without a query"""
    try:
        net = _parse(text, path, tol)
    except Exception as e:  # noqa
        return _classify(e)
    res = {"accepted": True, "net": dump_network(net)}
    if want_code:
        try:
            from bayesnet.code_generator import CodeGenerator
            cg = CodeGenerator(net)
            res["code"] = cg.generate_code()
            res["names"] = dict(cg.polar_variable_names)
        except Exception as e:  # noqa
            res["code_error"] = {"etype": type(e).__name__, "message": str(e)[:300]}
    return res


def repo_file_text(path):
    with open(path) as fh:
        return fh.read()


# ------------------------------------------------------------------------------------------------
# queries through the real CLI action
# ------------------------------------------------------------------------------------------------

def run_query(text=None, path=None, kind="ei", query="", nmax=4):
    """`polar.py file.bif --exact_inference q` / `--sample_time_until q`, in-process.

    Returns the generated program, the name mapping, the moments handed to `generate_result` evaluated at
    n = 0..nmax, the value `generate_result` prints (tagged exact rational / symbolic / undefined) and the
    printed text."""
    from harness.tasks.analyze import to_rational, eval_closed_form, _err
    import bayesnet.code_generator as cgmod
    import bayesnet.query.exact_inference_query as eimod
    import bayesnet.query.sampling_time_query as stmod
    from cli.argument_parser import ArgumentParser
    from cli.actions import ActionFactory

    rec = {"moments": [], "limit_in": [], "limit_out": [], "code": None, "names": None}
    orig_gen = cgmod.CodeGenerator.generate_code
    orig_ei, orig_st = eimod.transform_to_after_loop, stmod.transform_to_after_loop
    orig_res_ei = eimod.ExactInferenceQuery.generate_result
    orig_res_st = stmod.SamplingTimeQuery.generate_result

    def gen_code(self):
        code = orig_gen(self)
        rec["code"] = code
        rec["names"] = dict(self.polar_variable_names)
        return code

    def wrap_limit(orig):
        def f(element):
            rec["limit_in"].append(element)
            out = orig(element)
            rec["limit_out"].append(out)
            return out
        return f

    def wrap_result(orig):
        def f(self, results):
            rec["moments"] = list(results)
            return orig(self, results)
        return f

    res = {"kind": kind, "query": query}
    td = None
    argv0 = list(sys.argv)
    try:
        if path is None:
            td = tempfile.TemporaryDirectory()
            path = os.path.join(td.name, "net.bif")
            with open(path, "w") as fh:
                fh.write(text)
        cgmod.CodeGenerator.generate_code = gen_code
        eimod.transform_to_after_loop = wrap_limit(orig_ei)
        stmod.transform_to_after_loop = wrap_limit(orig_st)
        eimod.ExactInferenceQuery.generate_result = wrap_result(orig_res_ei)
        stmod.SamplingTimeQuery.generate_result = wrap_result(orig_res_st)
        sys.argv = ["polar.py", path, "--exact_inference" if kind == "ei" else "--sample_time_until", query]
        buf = io.StringIO()
        try:
            with contextlib.redirect_stdout(buf):
                args = ArgumentParser().parse_args()
                action = ActionFactory.create_action(args)
                res["action"] = type(action).__name__
                for b in args.benchmarks:
                    action(b)
            res["ran"] = True
        except BaseException as e:  # noqa
            if isinstance(e, (KeyboardInterrupt, SystemExit)):
                raise
            res["ran"] = False
            res["error"] = _err(e, "action")
        res["printed"] = buf.getvalue()[-1500:]
    finally:
        sys.argv = argv0
        cgmod.CodeGenerator.generate_code = orig_gen
        eimod.transform_to_after_loop = orig_ei
        stmod.transform_to_after_loop = orig_st
        eimod.ExactInferenceQuery.generate_result = orig_res_ei
        stmod.SamplingTimeQuery.generate_result = orig_res_st
        if td is not None:
            td.cleanup()
    res["code"] = rec["code"]
    res["names"] = rec["names"]
    res["moment_values"] = [[eval_closed_form(m, n, None) for n in range(nmax + 1)] for m in rec["moments"]]
    res["moment_forms"] = [str(m)[:400] for m in rec["moments"]]
    if rec["limit_out"]:
        out = rec["limit_out"][-1]
        res["final"] = to_rational(out)
        res["final_str"] = str(out)[:400]
    m = re.search(r"(?:^|\n)(E\(.*?\) = (.*?) ≈ .*|The expected number of samples until .* is (.*?) ≈ .*)", res.get("printed", ""))
    if m:
        res["printed_line"] = m.group(1)[:500]
        res["printed_value"] = (m.group(2) or m.group(3) or "")[:400]
    return res
