"""Worker-side: moments given termination and after-loop values (C09)."""
from .analyze import _reset_settings, _err, eval_closed_form, mono_expr, to_rational, typedefs_dump
from .solve import term_shape, _rat


def _terms_json(expr, subs):
    import sympy
    from utils import unpack_piecewise
    g = unpack_piecewise(sympy.sympify(expr))
    if subs:
        g = g.xreplace({s: _rat(subs[s.name]) for s in g.free_symbols if s.name in subs})
    shape = term_shape(g)
    out = []
    for c, d, b in shape:
        if not (c.is_Rational and b.is_Rational):
            return None
        out.append({"coef": f"{c.p}/{c.q}", "deg": d, "base": f"{b.p}/{b.q}"})
    return out


def _unbounded(v):
    """a reported value that says 'no finite limit': an AccumBounds with an infinite end (sympy's answer for an oscillating
    divergent sequence) or an expression of infinite magnitude such as oo*sign(...)"""
    import sympy
    try:
        if v.has(sympy.nan):
            return False
        for a in sympy.preorder_traversal(v):
            if isinstance(a, sympy.AccumBounds) and (a.min == -sympy.oo or a.max == sympy.oo):
                return True
        return bool(v.has(sympy.oo) or v.has(-sympy.oo) or v.has(sympy.zoo))
    except Exception:
        return False


def after_loop(text, goals, subs=None, nmax=5, settings=None, extras_var=None, extras_third=False, extras_budget=20):
    import sympy
    _reset_settings(settings)
    res = {"accepted": False, "goals": []}
    try:
        from inputparser import Parser
        from program import normalize_program
        program = normalize_program(Parser().parse_string(text))
    except Exception as e:  # noqa
        res["error"] = _err(e, "normalize")
        _reset_settings()
        return res
    res["accepted"] = True
    res["original_loop_guard"] = str(program.original_loop_guard)
    res["typedefs"] = typedefs_dump(program)
    from cli.argument_parser import ArgumentParser
    from cli.common import get_moment_given_termination, transform_to_after_loop, get_moment_poly
    from program.condition.not_cond import Not
    from recurrences import RecBuilder
    args = ArgumentParser().get_defaults()
    rb = RecBuilder(program)
    solvers = {}
    try:
        neg_guard = Not(program.original_loop_guard).to_arithm(program)
        res["neg_guard_poly"] = str(neg_guard)
        den, _ = get_moment_poly(neg_guard, solvers, rb, args, program)
        res["den_values"] = [eval_closed_form(den, n, subs) for n in range(nmax + 1)]
        try:
            res["den_terms"] = _terms_json(den, subs)
        except Exception as ex:  # noqa
            res["den_terms"] = None
            res["den_terms_error"] = str(ex)[:200]
    except Exception as e:  # noqa
        res["error"] = _err(e, "guard")
        res["accepted"] = False
        _reset_settings()
        return res
    for mono in goals:
        g = {"mono": mono}
        try:
            m = mono_expr(mono)
            cm, exact = get_moment_given_termination(m, solvers, rb, args, program)
            g["exact"] = bool(exact)
            g["cond_closed_form"] = str(cm)[:1500]
            g["cond_values"] = [eval_closed_form(cm, n, subs) for n in range(nmax + 1)]
            num, _ = get_moment_poly(m * neg_guard, solvers, rb, args, program)
            g["num_values"] = [eval_closed_form(num, n, subs) for n in range(nmax + 1)]
            try:
                g["num_terms"] = _terms_json(num, subs)
            except Exception as ex:  # noqa
                g["num_terms"] = None
            al = transform_to_after_loop(cm)
            g["after_loop_str"] = str(al)[:500]
            al2 = sympy.sympify(al)
            if subs:
                al2 = al2.xreplace({s: _rat(subs[s.name]) for s in al2.free_symbols if s.name in subs})
            g["after_loop_free_n"] = any(s.name == "n" for s in al2.free_symbols)
            if al2 in (sympy.oo, -sympy.oo, sympy.zoo):
                g["after_loop"] = ("infinite", str(al2))
            elif _unbounded(al2):
                g["after_loop"] = ("divergent", str(al2)[:200])
            else:
                g["after_loop"] = to_rational(al2)
            g["ok"] = True
        except Exception as e:  # noqa
            g["ok"] = False
            g["error"] = _err(e, "after_loop")
        res["goals"].append(g)
    # central moment / cumulant goals after the loop for one variable (GoalsAction with --after_loop)
    if extras_var:
        import signal

        class _Alarm(BaseException):
            pass

        def _on_alarm(signum, frame):
            raise _Alarm()
        old_handler = signal.signal(signal.SIGALRM, _on_alarm)
        signal.alarm(int(extras_budget))          # sympy's limit_seq can take minutes on these; the main results must survive
        try:
            from cli.actions.goals_action import GoalsAction
            from symengine.lib.symengine_wrapper import sympify as se
            args2 = ArgumentParser().get_defaults()
            args2.after_loop = True
            ga = GoalsAction(args2)
            ga.initialize_program(program, RecBuilder(program))
            ex = {}
            for kind, k in (("central", 2), ("cumulant", 2)) + ((("cumulant", 3), ("central", 3)) if extras_third else ()):
                try:
                    if kind == "central":
                        val, exact = ga.handle_central_moment_goal((k, se(extras_var)))
                    else:
                        val, exact = ga.handle_cumulant_goal((k, se(extras_var)))
                    v2 = sympy.sympify(val)
                    if subs:
                        v2 = v2.xreplace({s_: _rat(subs[s_.name]) for s_ in v2.free_symbols if s_.name in subs})
                    if v2 in (sympy.oo, -sympy.oo, sympy.zoo) or _unbounded(v2):
                        ex[f"{kind}{k}"] = ("infinite", str(v2))
                    else:
                        ex[f"{kind}{k}"] = to_rational(v2)
                except Exception as e:  # noqa
                    ex[f"{kind}{k}"] = ("error", _err(e, "after_loop_extra")["etype"])
            res["extras"] = ex
        except _Alarm:
            res["extras_error"] = {"etype": "extras-timeout"}
        except Exception as e:  # noqa
            res["extras_error"] = _err(e, "extras")
        finally:
            signal.alarm(0)
            signal.signal(signal.SIGALRM, old_handler)
    _reset_settings()
    return res
