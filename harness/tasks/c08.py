"""Worker-side tasks of C08: drive the real distribution classes and DistTransformer (cwd=/repo).

Everything returned is plain JSON data; exact rationals as "p/q" strings.
"""
import time
from fractions import Fraction as Fr

from .analyze import to_rational, _err

PARAM_ATTRS = {
    "Bernoulli": ["p"], "Normal": ["mu", "sigma2"], "Uniform": ["a", "b"], "Laplace": ["mu", "b"],
    "Exponential": ["lamb"], "Gamma": ["k", "theta"], "Beta": ["a", "b", "scale"],
    "TruncNormal": ["mu", "sigma2", "a", "b"],
}


def _point(point):
    import sympy
    out = {}
    for k, v in (point or {}).items():
        f = Fr(v)
        out[sympy.Symbol(k)] = sympy.Rational(f.numerator, f.denominator)
    return out


def _value(expr, pt):
    """canonical value of a (symengine/sympy/python) scalar at the parameter point"""
    import sympy
    try:
        e = sympy.sympify(expr)
    except Exception as ex:  # noqa
        return ["bad", f"{type(ex).__name__}: {str(ex)[:80]}"]
    if pt:
        e = e.xreplace(pt)
    if e == sympy.oo:
        return ["inf", "oo"]
    if e == -sympy.oo:
        return ["inf", "-oo"]
    return list(to_rational(e))


def _factory(name, params):
    from program.distribution import distribution_factory
    return distribution_factory(name, list(params))


def _params_of(dist):
    cls = type(dist).__name__
    if cls == "Categorical":
        return [str(p) for p in dist.probabilities]
    if cls == "DiscreteUniform":
        return [str(dist.values[0]), str(dist.values[-1])]
    return [str(getattr(dist, a)) for a in PARAM_ATTRS[cls]]


def _support(d, pt):
    items = []
    for it in d.get_support():
        if isinstance(it, tuple):
            items.append({"lo": _value(it[0], pt), "hi": _value(it[1], pt)})
        else:
            items.append({"point": _value(it, pt)})
    return items


def moments(name, params, kmax, point=None, ks=None):
    """`distribution_factory(name, params).get_moment(k)`, k = 0..kmax, plus support / discreteness / str"""
    pt = _point(point)
    res = {"name": name, "params": params, "items": []}
    try:
        d = _factory(name, params)
    except Exception as e:  # noqa
        res["construct_error"] = _err(e, "construct")
        return res
    res["str"] = str(d)
    res["class"] = type(d).__name__
    res["stored_params"] = [_value(p, pt) for p in _params_of(d)]
    try:
        res["free_symbols"] = sorted(str(s) for s in d.get_free_symbols())
    except Exception as e:  # noqa
        res["free_symbols_error"] = _err(e, "free_symbols")
    try:
        res["support"] = _support(d, pt)
    except Exception as e:  # noqa
        res["support_error"] = _err(e, "support")
    try:
        res["discrete"] = bool(d.is_discrete())
    except Exception as e:  # noqa
        res["discrete_error"] = _err(e, "discrete")
    for k in (ks if ks is not None else range(kmax + 1)):
        t0 = time.time()
        try:
            v = d.get_moment(k)
            tag, val = _value(v, pt)
            res["items"].append({"k": k, "tag": tag, "val": val, "t": round(time.time() - t0, 3)})
        except Exception as e:  # noqa
            res["items"].append({"k": k, "tag": "error", "err": _err(e, "get_moment"),
                                 "t": round(time.time() - t0, 3)})
    return res


def _generic_piece(expr, t):
    """for a Piecewise mgf/cf: the piece that is valid in a punctured neighbourhood of t = 0"""
    import sympy
    if isinstance(expr, sympy.Piecewise):
        for e, c in expr.args:
            if c == True:  # noqa: E712
                return e, True
            try:
                if c.subs(t, sympy.Rational(1, 1000)) == True and c.subs(t, -sympy.Rational(1, 1000)) == True:  # noqa
                    return e, True
            except Exception:  # noqa
                pass
        return expr, True
    return expr, False


def _is_bad(v):
    import sympy
    return v.has(sympy.nan) or v.has(sympy.zoo) or v.has(sympy.oo) or v.has(-sympy.oo)


def transforms(name, params, kmax, which, point=None, numeric=False):
    """k-th derivative at t = 0 of mgf(t) / cf(t) (cf divided by I^k), k = 0..kmax.

    Method per k: differentiate and substitute t = 0; when that is undefined (0/0: removable singularity) or the
    function is a Piecewise, take k!·[t^k] of the series at 0 of the generic piece; last resort `limit`."""
    import sympy
    pt = _point(point)
    res = {"name": name, "params": params, "which": which, "items": []}
    try:
        d = _factory(name, params)
    except Exception as e:  # noqa
        res["construct_error"] = _err(e, "construct")
        return res
    t = sympy.Symbol("t")
    try:
        expr = getattr(d, which)(t)
    except NotImplementedError:
        res["not_implemented"] = True
        return res
    except Exception as e:  # noqa
        res["transform_error"] = _err(e, which)
        return res
    expr = sympy.sympify(expr)
    if pt:
        expr = expr.xreplace(pt)
    res["expr"] = str(expr)[:300]
    # sympy.stats leaves beta(a, b) unevaluated (Beta family): make it a number
    expr = expr.replace(sympy.beta, lambda a, b: sympy.gamma(a) * sympy.gamma(b) / sympy.gamma(a + b))
    # value the function itself reports at t = 0 (callers may evaluate there)
    try:
        at0 = sympy.sympify(getattr(d, which)(sympy.Integer(0)))
        if pt:
            at0 = at0.xreplace(pt)
        res["at0"] = list(to_rational(at0)) if not _is_bad(at0) else ["undefined", str(at0)]
    except Exception as e:  # noqa
        res["at0"] = ["error", type(e).__name__]
    generic, was_piecewise = _generic_piece(expr, t)
    series_cache = {}

    def by_series(k):
        if "s" not in series_cache:
            s = sympy.series(generic, t, 0, kmax + 2)
            series_cache["s"] = sympy.expand(s.removeO())
        return sympy.factorial(k) * series_cache["s"].coeff(t, k)

    dk = generic
    for k in range(kmax + 1):
        t0 = time.time()
        item = {"k": k}
        try:
            if k > 0:
                dk = sympy.diff(dk, t)
            v = None
            method = None
            if not was_piecewise:
                try:
                    v0 = dk.subs(t, 0)
                    if v0.has(sympy.Integral):
                        v0 = v0.doit()
                    if not _is_bad(v0):
                        v, method = v0, "subs"
                except Exception:  # noqa
                    v = None
            if v is None:
                try:
                    v, method = by_series(k), "series"
                    if _is_bad(v) or v.has(t):
                        v = None
                except Exception:  # noqa
                    v = None
            if v is None:
                v, method = sympy.limit(dk, t, 0), "limit"
            if which == "cf":
                v = v / sympy.I ** k
            item["method"] = method
            if numeric:
                vv = sympy.N(v, 40)
                re, im = vv.as_real_imag()
                item["tag"], item["val"], item["imag"] = "num", str(re), str(im)
            else:
                tag, val = to_rational(sympy.simplify(v) if not sympy.sympify(v).is_Rational else v)
                item["tag"], item["val"] = tag, val
        except Exception as e:  # noqa
            item["tag"] = "error"
            item["err"] = _err(e, which)
        item["t"] = round(time.time() - t0, 3)
        res["items"].append(item)
    return res


def mgf_exists(name, params, ts):
    res = {"name": name, "params": params, "items": []}
    try:
        d = _factory(name, params)
    except Exception as e:  # noqa
        res["construct_error"] = _err(e, "construct")
        return res
    import sympy
    for tv in ts:
        f = Fr(tv)
        try:
            r = d.mgf_exists_at(sympy.Rational(f.numerator, f.denominator))
            res["items"].append({"t": tv, "exists": bool(r), "type": type(r).__name__})
        except NotImplementedError:
            res["items"].append({"t": tv, "exists": None, "type": "NotImplementedError"})
        except Exception as e:  # noqa
            res["items"].append({"t": tv, "exists": None, "err": _err(e, "mgf_exists_at")})
    return res


def subs_consistency(name, params, point, ks):
    """get_moment(k) → subs(point) → get_moment(k) on one object, versus a fresh object that was substituted before
    its first get_moment call (the lru_cache of get_moment must not survive subs)."""
    from symengine.lib.symengine_wrapper import sympify as S
    pt = {S(k): S(v) for k, v in point.items()}
    res = {"name": name, "params": params, "items": []}
    try:
        d1 = _factory(name, params)
        d2 = _factory(name, params)
    except Exception as e:  # noqa
        res["construct_error"] = _err(e, "construct")
        return res
    try:
        before = []
        for k in ks:
            try:
                before.append(str(d1.get_moment(k)))
            except Exception as e:  # noqa  (sympy.stats families refuse symbolic parameters)
                before.append("refused:" + type(e).__name__)
        d1.subs(pt)
        d2.subs(pt)
        res["str_after"] = str(d1)
        for i, k in enumerate(ks):
            stale = _value(d1.get_moment(k), None)
            fresh = _value(d2.get_moment(k), None)
            res["items"].append({"k": k, "before": before[i], "after_cached": stale, "fresh": fresh})
    except Exception as e:  # noqa
        res["error"] = _err(e, "subs")
    return res


def dist_transform(text, valuations):
    """Parser().parse_string(text) → DistTransformer().execute; the rewritten loop body in structured form and,
    for every valuation of the program variables, the location/scale coefficients of the new assignment."""
    import sympy
    from inputparser import Parser
    from program.transformer import DistTransformer
    from program.assignment import DistAssignment, PolyAssignment
    res = {"text": text}
    try:
        program = Parser().parse_string(text)
    except Exception as e:  # noqa
        res["error"] = _err(e, "parse")
        return res

    def dump(body):
        out = []
        for a in body:
            if isinstance(a, DistAssignment):
                out.append({"kind": "dist", "var": str(a.variable), "class": type(a.distribution).__name__,
                            "params": _params_of(a.distribution)})
            elif isinstance(a, PolyAssignment):
                out.append({"kind": "poly", "var": str(a.variable), "polys": [str(p) for p in a.polynomials],
                            "probs": [str(p) for p in a.probabilities]})
            else:
                out.append({"kind": "other", "str": str(a)[:200]})
        return out

    res["before"] = dump(program.loop_body)
    try:
        program = DistTransformer().execute(program)
    except Exception as e:  # noqa
        res["error"] = _err(e, "DistTransformer")
        return res
    res["after"] = dump(program.loop_body)
    # locate rewritten pairs: a fresh draw `_tN = D(consts)` directly followed by a deterministic `y = poly(_tN)`
    pairs = []
    body = program.loop_body
    for i in range(len(body) - 1):
        a, b = body[i], body[i + 1]
        if isinstance(a, DistAssignment) and isinstance(b, PolyAssignment) and len(b.polynomials) == 1 \
                and a.variable in b.polynomials[0].free_symbols and str(a.variable).startswith("_"):
            tv = sympy.Symbol(str(a.variable))
            poly = sympy.sympify(b.polynomials[0])
            pr = {"target": str(b.variable), "new_var": str(a.variable), "class": type(a.distribution).__name__,
                  "new_params_raw": _params_of(a.distribution), "poly": str(poly), "at": []}
            for val in valuations:
                pt = _point(val)
                entry = {"valuation": val}
                try:
                    entry["new_params"] = [_value(p, pt) for p in _params_of(a.distribution)]
                    pv = sympy.Poly(sympy.expand(poly.xreplace(pt)), tv)
                    cs = pv.all_coeffs()[::-1]
                    entry["degree"] = pv.degree()
                    c0 = cs[0] if len(cs) > 0 else sympy.Integer(0)
                    c1 = cs[1] if len(cs) > 1 else sympy.Integer(0)
                    entry["c0"] = list(to_rational(c0))
                    entry["c1"] = list(to_rational(c1))
                    entry["c1sq"] = list(to_rational(sympy.simplify(sympy.expand(c1 ** 2))))
                    try:
                        entry["c1_nonneg"] = bool(sympy.N(c1, 30) >= 0)
                    except Exception:  # noqa
                        entry["c1_nonneg"] = None
                except Exception as e:  # noqa
                    entry["error"] = _err(e, "coefficients")
                pr["at"].append(entry)
            pairs.append(pr)
    res["pairs"] = pairs
    return res


def history(objects, kmax):
    """history sensitivity: several distribution objects that share some but not all parameters live in ONE
    process; the same moments are asked in two different orders (pass A: objects in the given order, object-major,
    k ascending; pass B: fresh objects in reverse order, k-major, k descending).  Every answer is returned."""
    res = {"objects": objects, "passes": []}

    def ask(d, k):
        try:
            tag, val = _value(d.get_moment(k), None)
            return {"tag": tag, "val": val}
        except Exception as e:  # noqa
            return {"tag": "error", "err": _err(e, "get_moment")}

    def sup(d):
        try:
            return _support(d, None)
        except Exception as e:  # noqa
            return {"error": _err(e, "support")}

    try:
        ds = [_factory(o["name"], o["params"]) for o in objects]
    except Exception as e:  # noqa
        res["construct_error"] = _err(e, "construct")
        return res
    a = []
    for i, d in enumerate(ds):
        for k in range(kmax + 1):
            a.append({"obj": i, "k": k, **ask(d, k)})
    res["passes"].append({"order": "object-major", "answers": a, "supports": [sup(d) for d in ds]})
    ds2 = [_factory(o["name"], o["params"]) for o in objects]
    b = []
    for k in range(kmax, -1, -1):
        for i in range(len(ds2) - 1, -1, -1):
            b.append({"obj": i, "k": k, **ask(ds2[i], k)})
    res["passes"].append({"order": "k-major-reversed", "answers": b, "supports": [sup(d) for d in ds2]})
    # and once more on the first objects (answers must not have changed after the second batch was created and asked)
    c = []
    for i, d in enumerate(ds):
        for k in (kmax, 1):
            c.append({"obj": i, "k": k, **ask(d, k)})
    res["passes"].append({"order": "re-ask-first-objects", "answers": c, "supports": [sup(d) for d in ds]})
    return res
