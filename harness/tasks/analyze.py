"""Worker-side tasks driving the real Polar pipeline (imports resolve against /repo's working tree)."""
import sys
from fractions import Fraction as Fr


def _reset_settings(overrides=None):
    import settings
    defaults = dict(transform_categoricals=False, cond2arithm=False, disable_type_inference=False,
                    type_fp_iterations=100, numeric_roots=False, numeric_croots=False, numeric_eps=1e-10,
                    trivial_guard=False, exact_func_moments=False)
    for k, v in defaults.items():
        setattr(settings, k, v)
    for k, v in (overrides or {}).items():
        setattr(settings, k, v)


def _err(e, stage):
    import traceback
    tb = traceback.extract_tb(e.__traceback__)
    frames = [(f.filename.split("/repo/")[-1] if "/repo/" in f.filename else f.filename.split("/")[-1], f.name)
              for f in tb]
    repo_frames = [f for f in frames if not f[0].startswith(("sympy", "symengine", "lark", "site-packages"))
                   and "site-packages" not in f[0]]
    where = repo_frames[-1] if repo_frames else (frames[-1] if frames else ("?", "?"))
    return {"stage": stage, "etype": type(e).__name__, "file": where[0], "func": where[1],
            "message": str(e)[:300]}


def to_rational(v):
    """exact rational value of a sympy number, or a tagged non-rational"""
    import sympy
    v = sympy.sympify(v)
    if v.is_Rational:
        return ("q", f"{v.p}/{v.q}")
    if v.has(sympy.Float):
        try:
            return ("float", str(sympy.N(v, 30)))
        except Exception:
            return ("bad", str(v)[:120])
    if v.has(sympy.nan) or v.has(sympy.zoo) or v.has(sympy.oo) or v.has(-sympy.oo):
        return ("undefined", str(v)[:120])
    if v.free_symbols:
        return ("symbolic", str(v)[:200])
    for f in (lambda z: sympy.expand(z), lambda z: sympy.radsimp(sympy.expand(z)),
              lambda z: sympy.simplify(sympy.expand(z)), lambda z: sympy.expand(z, complex=True),
              lambda z: sympy.simplify(sympy.expand(z, complex=True))):
        try:
            w = f(v)
            if w.is_Rational:
                return ("q", f"{w.p}/{w.q}")
            if w.has(sympy.nan) or w.has(sympy.zoo):
                return ("undefined", str(w)[:120])
        except Exception:
            pass
    try:
        mp = sympy.minimal_polynomial(v, sympy.Symbol("zz"), polys=True)
        if mp.degree() == 1:
            c1, c0 = mp.all_coeffs()
            w = sympy.Rational(-c0, c1)
            return ("q", f"{w.p}/{w.q}")
    except Exception:
        pass
    try:
        return ("irrational", str(sympy.N(v, 40)))
    except Exception:
        return ("bad", str(v)[:120])


def eval_closed_form(expr, n, subs):
    """value of a closed form (sympy, possibly Piecewise in n) at integer n and at a parameter point"""
    import sympy
    expr = sympy.sympify(expr)
    rep = {sympy.Symbol("n", integer=True): sympy.Integer(n), sympy.Symbol("n"): sympy.Integer(n)}
    v = expr.xreplace(rep)
    if subs:
        sm = {}
        for s in v.free_symbols:
            if s.name in subs:
                f = Fr(subs[s.name])
                sm[s] = sympy.Rational(f.numerator, f.denominator)
        if sm:
            v = v.xreplace(sm)
    try:
        v = v.doit()
    except Exception:
        pass
    out = to_rational(v)
    if out[0] == "undefined" and subs:
        # 0/0 at this parameter point: report the (iterated) limit as well, so that the caller can tell a
        # removable singularity of a parametric closed form from a wrong value
        try:
            w = expr.xreplace(rep)
            for s in sorted(w.free_symbols, key=lambda z: z.name):
                if s.name in subs:
                    f = Fr(subs[s.name])
                    w = sympy.limit(w, s, sympy.Rational(f.numerator, f.denominator))
            lim = to_rational(w)
            if lim[0] == "q":
                return ("undefined-limit", lim[1])
        except Exception:
            pass
    return out


def mono_expr(mono):
    from symengine.lib.symengine_wrapper import sympify
    e = sympify(1)
    for x, k in mono:
        e = e * sympify(x) ** int(k)
    return e


def _max_case(expr):
    """largest k of a special case `n <= k` (sympy merges equal consecutive cases into `(n <= 0) | (n <= 1)`,
    which Polar's own get_max_case_in_piecewise does not look into)"""
    import sympy
    k = -1
    try:
        for rel in sympy.sympify(expr).atoms(sympy.LessThan, sympy.StrictLessThan):
            lhs, rhs = rel.args
            if getattr(lhs, "name", None) == "n" and rhs.is_Integer:
                k = max(k, int(rhs) if isinstance(rel, sympy.LessThan) else int(rhs) - 1)
    except Exception:
        pass
    try:
        from utils import get_max_case_in_piecewise
        k = max(k, int(get_max_case_in_piecewise(expr)))
    except Exception:
        pass
    return k


def typedefs_dump(program):
    out = {}
    from program.type import Finite
    for v, t in program.typedefs.items():
        if isinstance(t, Finite):
            vals = []
            for x in t.values:
                vals.append(str(x))
            out[str(v)] = sorted(vals)
    return out


def analyze(text, goals, subs=None, nmax=4, settings=None, force_cyclic=False, want_program=False,
            want_shape=False, want_program_json=False):
    """parse -> normalize -> recurrences -> solve, and evaluate every goal at n = 0..nmax."""
    _reset_settings(settings)
    res = {"accepted": False, "goals": []}
    try:
        from inputparser import Parser
        program = Parser().parse_string(text)
    except Exception as e:  # noqa
        res["error"] = _err(e, "parse")
        _reset_settings()
        return res
    try:
        from program import normalize_program
        program = normalize_program(program)
    except Exception as e:  # noqa
        res["error"] = _err(e, "normalize")
        _reset_settings()
        return res
    res["accepted"] = True
    res["typedefs"] = typedefs_dump(program)
    res["variables"] = sorted(str(v) for v in program.variables)
    res["original_variables"] = sorted(str(v) for v in program.original_variables)
    res["symbols"] = sorted(str(v) for v in program.symbols)
    res["effective"] = sorted(str(v) for v in program.effective_variables)
    res["defective"] = sorted(str(v) for v in program.defective_variables)
    res["abstracted"] = {str(k): str(v) for k, v in program.abstracted_const_store.items()}
    if want_program:
        res["normalized_text"] = str(program)
    if want_program_json:
        try:
            from .convert import program_json
            res["program_json"] = program_json(program)
        except Exception as ex:  # noqa
            res["program_json"] = None
            res["program_json_why"] = f"{type(ex).__name__}: {ex}"[:200]
    from recurrences import RecBuilder
    from recurrences.solver import RecurrenceSolver
    from symengine.lib.symengine_wrapper import sympify
    rec_builder = RecBuilder(program)
    solvers = {}
    for mono in goals:
        g = {"mono": mono}
        try:
            m = mono_expr(mono)
            if m not in solvers:
                recs = rec_builder.get_recurrences(m)
                s = RecurrenceSolver(recs, force_cyclic_solver=force_cyclic)
                solvers.update({sympify(mm): s for mm in recs.monomials})
                g["system_size"] = len(recs.monomials)
                g["acyclic"] = bool(recs.is_acyclic)
            sol, is_exact = rec_builder.get_solution(m, solvers)
            g["exact"] = bool(is_exact)
            g["closed_form"] = str(sol)[:2000]
            g["max_case"] = _max_case(sol)
            g["values"] = [eval_closed_form(sol, n, subs) for n in range(nmax + 1)]
            g["ok"] = True
        except Exception as e:  # noqa
            g["ok"] = False
            g["error"] = _err(e, "solve")
        res["goals"].append(g)
    _reset_settings()
    return res


def cli_goals(text, goal_strs, at_n=-1, extra_args=None):
    """Runs the real CLI path in-process: ArgumentParser -> ActionFactory -> action(file); returns the printed
    lines (colour codes stripped)."""
    import contextlib
    import io
    import os
    import re
    import sys as _sys
    import tempfile
    _reset_settings()
    from cli import ArgumentParser
    from cli.actions import ActionFactory
    out = {"lines": [], "error": None}
    with tempfile.TemporaryDirectory() as td:
        path = os.path.join(td, "prog.prob")
        with open(path, "w") as fh:
            fh.write(text)
        argv = [path, "--goals"] + list(goal_strs)
        if at_n >= 0:
            argv += ["--at_n", str(at_n)]
        argv += list(extra_args or [])
        buf = io.StringIO()
        old_argv = _sys.argv
        _sys.argv = ["polar.py"] + argv
        try:
            with contextlib.redirect_stdout(buf):
                args = ArgumentParser().parse_args()
                action = ActionFactory.create_action(args)
                action(path)
        except SystemExit as e:
            out["error"] = {"stage": "cli", "etype": "SystemExit", "message": str(e), "file": "", "func": ""}
        except Exception as e:  # noqa
            out["error"] = _err(e, "cli")
        finally:
            _sys.argv = old_argv
            _reset_settings()
        txt = re.sub(r"\x1b\[[0-9;]*m", "", buf.getvalue())
        out["lines"] = [l for l in txt.split("\n") if l.strip()]
    return out


def eval_printed(expr_str, n, subs=None):
    """value of a printed closed form (text) at n"""
    import sympy
    e = sympy.sympify(expr_str, locals={"n": sympy.Symbol("n")})
    return eval_closed_form(e, n, subs)


def cli_goals_eval(text, goal_strs, at_n, subs=None, nmax=6):
    """cli_goals + parsing of the lines 'E(M) = v0; v1; ...; formula' and 'E(M | n=k) = value ≅ float'"""
    import re
    res = cli_goals(text, goal_strs, at_n)
    parsed = []
    for l in res["lines"]:
        m = re.match(r"^(E\((?P<g1>[^|]*?)\)|(?P<g2>[A-Za-z_][A-Za-z_0-9*]*)) = (?P<rhs>.*)$", l)
        m2 = re.match(r"^(E\((?P<g>[^|]*?) \| n=(?P<k>\d+)\)|(?P<g3>[^ ]+) \| n=(?P<k3>\d+)) = (?P<val>.*?) ≅ (?P<fl>.*)$", l)
        try:
            if m2:
                goal = (m2.group("g") or m2.group("g3")).strip()
                k = int(m2.group("k") or m2.group("k3"))
                parsed.append({"kind": "at_n", "goal": goal, "n": k, "value": eval_printed(m2.group("val"), 0, subs),
                               "raw": l})
            elif m:
                goal = (m.group("g1") or m.group("g2")).strip()
                parts = [p.strip() for p in m.group("rhs").split(";")]
                specials = [eval_printed(p, i, subs) for i, p in enumerate(parts[:-1])]
                general = [eval_printed(parts[-1], n, subs) for n in range(len(parts) - 1, nmax + 1)]
                parsed.append({"kind": "closed_form", "goal": goal, "specials": specials, "general": general,
                               "first_general_n": len(parts) - 1, "raw": l[:400]})
        except Exception as ex:  # noqa
            parsed.append({"kind": "unparsed", "raw": l[:300], "why": str(ex)[:100]})
    res["parsed"] = parsed
    return res


def cli_multi(texts, goal_strs, at_n=-1, extra_args=None):
    """`polar.py f1 f2 ... --goals ...` as polar.main does it: ONE action object called for every benchmark file.
    Returns the printed lines per file."""
    import contextlib
    import io
    import os
    import re
    import sys as _sys
    import tempfile
    _reset_settings()
    from cli import ArgumentParser
    from cli.actions import ActionFactory
    per_file = []
    with tempfile.TemporaryDirectory() as td:
        paths = []
        for i, t in enumerate(texts):
            pth = os.path.join(td, f"prog{i}.prob")
            with open(pth, "w") as fh:
                fh.write(t)
            paths.append(pth)
        argv = paths + ["--goals"] + list(goal_strs)
        if at_n >= 0:
            argv += ["--at_n", str(at_n)]
        argv += list(extra_args or [])
        old_argv = _sys.argv
        _sys.argv = ["polar.py"] + argv
        try:
            args = ArgumentParser().parse_args()
            action = ActionFactory.create_action(args)
            for b in args.benchmarks:
                buf = io.StringIO()
                err = None
                try:
                    with contextlib.redirect_stdout(buf):
                        action(b)
                except Exception as e:  # noqa
                    err = _err(e, "cli")
                txt = re.sub(r"\x1b\[[0-9;]*m", "", buf.getvalue())
                per_file.append({"lines": [l for l in txt.split("\n") if l.strip()], "error": err})
        finally:
            _sys.argv = old_argv
            _reset_settings()
    return per_file
