"""Worker-side tasks of C12: drive the REAL simulator / samplers with scripted random sources.

Every `random.choices`, `random.choice` and `scipy.stats.<family>.rvs` call made by Polar is answered
by a script (one entry per call), so a program's runs can be enumerated path by path with exact
probabilities.  The patches are installed inside the task function and removed afterwards.
"""
import math
from fractions import Fraction as Fr

SCIPY_FAMILIES = ["bernoulli", "beta", "expon", "gamma", "laplace", "norm", "truncnorm", "uniform"]


def fr_str(f):
    f = Fr(f)
    return str(f.numerator) if f.denominator == 1 else f"{f.numerator}/{f.denominator}"


class ContinuousDraw(Exception):
    pass


class Script:
    """answers the random sources from a prefix of decisions; beyond the prefix always option 0"""

    def __init__(self, prefix):
        self.prefix = list(prefix)
        self.trace = []          # (kind, idx, nopts, weight of idx as Fraction, entry for the Lean tape)

    def decide(self, kind, weights, entries):
        pos = len(self.trace)
        idx = self.prefix[pos] if pos < len(self.prefix) else 0
        total = sum(weights)
        self.trace.append((kind, idx, len(weights), weights[idx] / total, entries[idx]))
        return idx


class Patches:
    """context manager installing the scripted sources"""

    def __init__(self, script=None, recorder=None, rvs_value=None):
        self.script = script
        self.recorder = recorder      # list collecting raw calls (sampler probe)
        self.rvs_value = rvs_value
        self.saved = []

    def __enter__(self):
        import random
        import scipy.stats as st
        script, rec = self.script, self.recorder

        def choices(population, weights=None, *, cum_weights=None, k=1):
            population = list(population)
            if rec is not None:
                rec.append({"fn": "random.choices", "population": [float(x) for x in population],
                            "weights": None if weights is None else [float(w) for w in weights], "k": k})
            if weights is None or cum_weights is not None or k != 1:
                raise RuntimeError("scripted random.choices: unexpected call shape")
            ws = [Fr(float(w)) for w in weights]      # exact value of the float that was passed
            if len(ws) != len(population):
                raise ValueError("The number of weights does not match the population")
            if sum(ws) <= 0:
                raise ValueError("Total of weights must be greater than zero")
            if any(w < 0 for w in ws):
                raise RuntimeError("scripted random.choices: negative weight (outside the model)")
            idx = script.decide("choices", ws, [["i", i] for i in range(len(ws))]) if script else 0
            return [population[idx]]

        def choice(seq):
            seq = list(seq)
            if rec is not None:
                rec.append({"fn": "random.choice", "population": [float(x) for x in seq]})
            if not seq:
                raise IndexError("Cannot choose from an empty sequence")
            idx = script.decide("choice", [Fr(1)] * len(seq), [["i", i] for i in range(len(seq))]) if script else 0
            return seq[idx]

        self.saved.append((random, "choices", random.choices, True))
        self.saved.append((random, "choice", random.choice, True))
        random.choices = choices
        random.choice = choice

        def make_rvs(name):
            def rvs(*args, **kwargs):
                if rec is not None:
                    rec.append({"fn": name, "args": [float(a) for a in args],
                                "kwargs": {k: float(v) for k, v in kwargs.items()}})
                    return self.rvs_value
                if name == "bernoulli" and script is not None:
                    if len(args) != 1 or kwargs:
                        raise RuntimeError("scripted bernoulli.rvs: unexpected call shape")
                    p = Fr(float(args[0]))
                    idx = script.decide("bernoulli", [p, 1 - p], [["v", "1"], ["v", "0"]])
                    return 1 if idx == 0 else 0
                raise ContinuousDraw(name)
            return rvs

        for name in SCIPY_FAMILIES:
            obj = getattr(st, name)
            had = "rvs" in obj.__dict__
            self.saved.append((obj, "rvs", obj.__dict__.get("rvs"), had))
            obj.rvs = make_rvs(name)
        return self

    def __exit__(self, *exc):
        for obj, attr, old, had in reversed(self.saved):
            if had:
                setattr(obj, attr, old)
            else:
                try:
                    delattr(obj, attr)
                except AttributeError:
                    pass
        self.saved = []
        return False


def _state_values(state, names):
    """exact rational value of every float in a simulator state (keys are symbols)"""
    by_name = {str(k): v for k, v in state.items()}
    out = []
    for x in names:
        if x not in by_name:
            out.append(None)
        else:
            v = by_name[x]
            if isinstance(v, float) and (math.isnan(v) or math.isinf(v)):
                out.append("nan")
            else:
                out.append(fr_str(Fr(float(v))))
    return out


def _build_cond(c):
    from program.condition import Atom, Not, And, Or, TrueCond, FalseCond
    t = c[0]
    if t == "tt":
        return TrueCond()
    if t == "ff":
        return FalseCond()
    if t == "cmp":
        return Atom(c[2], c[1], c[3])
    if t == "not":
        return Not(_build_cond(c[1]))
    if t == "and":
        return And(_build_cond(c[1]), _build_cond(c[2]))
    if t == "or":
        return Or(_build_cond(c[1]), _build_cond(c[2]))
    raise ValueError(c)


def _apply_patches(program, patches):
    """turn plain assignments of the parsed program into guarded ones `x = rhs | cond : default`"""
    from symengine.lib.symengine_wrapper import Symbol
    from program.assignment import Assignment
    for p in patches or []:
        lst = program.loop_body if p["where"] == "body" else program.initial
        st = lst[p["index"]]
        if not isinstance(st, Assignment):
            raise RuntimeError("patch target is not an assignment")
        st.condition = _build_cond(p["cond"])
        st.default = Symbol(p["default"])


def enumerate_paths(text, n, vars, goals=None, max_paths=2000, use_execute=False, patches=None):
    """All runs of `Simulator(n).simulate(program, goals, 1)` on the parsed, un-normalised program.

    returns {"paths": [[weight, tape, final values]], "dists": per iteration [[weight, values]],
             "npaths", "goal_mismatch": [...], "error": {...} | None}
    """
    from inputparser import Parser
    from simulation import Simulator
    program = Parser().parse_string(text)
    _apply_patches(program, patches)
    goals = goals or []
    goal_exprs = []
    for mono in goals:
        goal_exprs.append("*".join(f"{x}**{k}" for x, k in mono) if mono else "1")
    paths = []
    dists = [dict() for _ in range(n + 1)]
    goal_mismatch = []
    prefix = []
    error = None
    truncated = False
    while True:
        script = Script(prefix)
        try:
            with Patches(script=script):
                if use_execute:
                    sim = Simulator(n)
                    states = [sim.execute(program.initial, {})]
                    for _ in range(n):
                        if not program.loop_guard.evaluate(states[-1]):
                            states.append(states[-1].copy())
                        else:
                            states.append(sim.execute(program.loop_body, states[-1].copy()))
                    goal_vals = None
                else:
                    res = Simulator(n).simulate(program, goal_exprs, 1)
                    states = res.samples[0]
                    goal_vals = states
        except ContinuousDraw as e:
            error = {"etype": "ContinuousDraw", "message": str(e), "tape": [t[4] for t in script.trace]}
            break
        except Exception as e:  # noqa
            error = {"etype": type(e).__name__, "message": str(e)[:200], "tape": [t[4] for t in script.trace]}
            break
        w = Fr(1)
        for t in script.trace:
            w *= t[3]
        if len(states) != n + 1:
            error = {"etype": "HarnessShape", "message": f"{len(states)} states for n={n}", "tape": []}
            break
        vals = [_state_values(s, vars) for s in states]
        for k in range(n + 1):
            key = tuple(vals[k])
            dists[k][key] = dists[k].get(key, Fr(0)) + w
        paths.append([fr_str(w), [t[4] for t in script.trace], vals[-1]])
        # the goals evaluated by SimulationResult must be the monomials of the final state
        if goal_vals is not None:
            from symengine.lib.symengine_wrapper import sympify
            last = goal_vals[-1]
            svals = {x: v for x, v in zip(vars, vals[-1])}
            for mono, ge in zip(goals, goal_exprs):
                gv = last.get(sympify(ge))
                if any(svals.get(x) in (None, "nan") for x, _ in mono):
                    continue
                exact = Fr(1)
                for x, k in mono:
                    exact *= Fr(svals[x]) ** int(k)
                if gv is None or (isinstance(gv, float) and math.isnan(gv)):
                    goal_mismatch.append({"goal": ge, "got": "nan", "expected": fr_str(exact)})
                elif Fr(float(gv)) != exact:
                    rel = abs(float(gv) - float(exact)) / max(1.0, abs(float(exact)))
                    if rel > 1e-12 and len(goal_mismatch) < 5:
                        goal_mismatch.append({"goal": ge, "got": repr(float(gv)), "expected": fr_str(exact)})
            avg = res.get_average_goals()
            for ge in goal_exprs:
                a = avg.get(sympify(ge))
                b = last.get(sympify(ge))
                if not (a == b or (isinstance(a, float) and isinstance(b, float) and math.isnan(a) and math.isnan(b))):
                    if len(goal_mismatch) < 5:
                        goal_mismatch.append({"goal": ge, "got": repr(a), "expected": "single-sample mean " + repr(b)})
        # next prefix (depth-first)
        tr = script.trace
        j = len(tr) - 1
        while j >= 0 and tr[j][1] + 1 >= tr[j][2]:
            j -= 1
        if j < 0:
            break
        prefix = [t[1] for t in tr[:j]] + [tr[j][1] + 1]
        if len(paths) >= max_paths:
            truncated = True
            break
    return {"paths": paths if not truncated else paths[:50],
            "dists": [[[fr_str(w), list(k)] for k, w in d.items()] for d in dists],
            "npaths": len(paths), "truncated": truncated, "goal_mismatch": goal_mismatch, "error": error,
            "variables": sorted(str(v) for v in program.variables),
            "original_variables": sorted(str(v) for v in program.original_variables)}


# ------------------------------------------------------------------------------------------------
# samplers
# ------------------------------------------------------------------------------------------------

def _normalise_call(rec):
    import scipy.stats as st
    name = rec["fn"]
    if name.startswith("random."):
        return rec
    dist = getattr(st, name)
    numargs = dist.numargs
    args = list(rec["args"])
    kw = dict(rec["kwargs"])
    shape = args[:numargs]
    rest = args[numargs:]
    loc = kw.pop("loc", rest[0] if len(rest) > 0 else 0.0)
    scale = kw.pop("scale", rest[1] if len(rest) > 1 else 1.0)
    # shape parameters given by keyword (e.g. a=, b=)
    if len(shape) < numargs and dist.shapes:
        names = [s.strip() for s in dist.shapes.split(",")]
        for nm in names[len(shape):]:
            if nm in kw:
                shape.append(kw.pop(nm))
    return {"fn": name, "shape": [fr_str(Fr(float(x))) for x in shape], "loc": fr_str(Fr(float(loc))),
            "scale": fr_str(Fr(float(scale))), "extra_kwargs": sorted(kw.keys()),
            "n_positional": len(args)}


def _support_bounds(dist, state):
    """declared support (get_support) evaluated in `state`: list of points and (lo, hi) intervals as floats"""
    pts, ivs = [], []

    def val(e):
        from symengine.lib.symengine_wrapper import sympify
        v = sympify(e).subs(state)
        s = str(v)
        if s in ("oo", "+oo"):
            return float("inf")
        if s == "-oo":
            return float("-inf")
        return float(v)
    for item in dist.get_support():
        if isinstance(item, tuple):
            ivs.append((val(item[0]), val(item[1])))
        else:
            pts.append(val(item))
    return pts, ivs


def sampler_probe(family, params, state=None, nsamples=2000, seed=20240925):
    """(1) the arguments `sample` passes to the random source, captured by a scripted source;
       (2) with the real scipy and a fixed numpy seed: is every sample inside the declared support?"""
    from symengine.lib.symengine_wrapper import Symbol
    from program.distribution import distribution_factory
    st = {Symbol(k): float(Fr(v)) for k, v in (state or {}).items()}
    dist = distribution_factory(family, [str(p) for p in params])
    out = {"family": family, "params": [str(p) for p in params], "calls": [], "post": None}
    results = []
    for v in (0.25, 0.75):
        rec = []
        with Patches(script=None, recorder=rec, rvs_value=v):
            r = dist.sample(dict(st))
        results.append(float(r))
        out["calls"].append([_normalise_call(c) for c in rec])
    # Polar's own post-processing of the returned number (Beta multiplies by its scale)
    if out["calls"][0] and not out["calls"][0][0]["fn"].startswith("random."):
        r1, r2 = results
        out["post"] = {"at_1/4": fr_str(Fr(r1)), "at_3/4": fr_str(Fr(r2))}
    else:
        out["post"] = {"returned": [fr_str(Fr(x)) for x in results]}
    # support membership with the real generators
    import numpy as np
    np.random.seed(seed)
    import random
    random.seed(seed)
    pts, ivs = _support_bounds(dist, st)
    outside = []
    lo_seen, hi_seen = float("inf"), float("-inf")
    for _ in range(nsamples):
        x = float(dist.sample(dict(st)))
        lo_seen, hi_seen = min(lo_seen, x), max(hi_seen, x)
        ok = any(x == p for p in pts) or any(lo <= x <= hi for lo, hi in ivs)
        if not ok and len(outside) < 3:
            outside.append(x)
        if not ok:
            out["n_outside"] = out.get("n_outside", 0) + 1
    out.setdefault("n_outside", 0)
    out["support"] = {"points": pts, "intervals": [[repr(a), repr(b)] for a, b in ivs],
                      "min_seen": lo_seen, "max_seen": hi_seen, "first_outside": outside,
                      "nsamples": nsamples, "seed": seed}
    return out


# ------------------------------------------------------------------------------------------------
# the command-line action
# ------------------------------------------------------------------------------------------------

def cli_simulation(text, goal_texts, n, samples):
    """`SimulationAction` as the CLI runs it (parse_file, GoalParser, Simulator(simulation_iter), number_samples),
    every random source answering with its first option; returns the printed `label = value` lines."""
    import contextlib
    import io
    import os
    import re
    import tempfile
    from argparse import Namespace
    from cli.actions.simulation_action import SimulationAction
    fd, path = tempfile.mkstemp(suffix=".prob", prefix="c12_")
    try:
        with os.fdopen(fd, "w") as fh:
            fh.write(text)
        ns = Namespace(goals=list(goal_texts), simulation_iter=n, number_samples=samples)
        buf = io.StringIO()
        script = Script([])
        with Patches(script=script), contextlib.redirect_stdout(buf):
            SimulationAction(ns)(path)
    finally:
        try:
            os.unlink(path)
        except OSError:
            pass
    out = re.sub(r"\x1b\[[0-9;]*m", "", buf.getvalue())
    tail = out.split("- Simulation Result -")[-1]
    lines = []
    for ln in tail.split("\n"):
        if " = " in ln:
            k, v = ln.rsplit(" = ", 1)
            lines.append([k.strip(), v.strip()])
    return {"lines": lines, "ncalls": len(script.trace)}


# ------------------------------------------------------------------------------------------------
# several runs in ONE simulate call: independence of the runs, arguments of every sampler call
# ------------------------------------------------------------------------------------------------

def enumerate_multi(text, n, vars, samples, max_paths=4000, patches=None):
    """Every resolution of the random sources over one call `Simulator(n).simulate(program, [], samples)`;
    returns the joint law of the tuple (final state of run 1, ..., final state of run `samples`)."""
    from inputparser import Parser
    from simulation import Simulator
    program = Parser().parse_string(text)
    _apply_patches(program, patches)
    joint = {}
    prefix = []
    npaths = 0
    error = None
    truncated = False
    while True:
        script = Script(prefix)
        try:
            with Patches(script=script):
                res = Simulator(n).simulate(program, [], samples)
        except Exception as e:  # noqa
            error = {"etype": type(e).__name__, "message": str(e)[:200]}
            break
        if len(res.samples) != samples or any(len(run) != n + 1 for run in res.samples):
            error = {"etype": "HarnessShape", "message": f"{len(res.samples)} runs"}
            break
        w = Fr(1)
        for t in script.trace:
            w *= t[3]
        key = tuple(tuple(_state_values(run[-1], vars)) for run in res.samples)
        firsts = tuple(tuple(_state_values(run[0], vars)) for run in res.samples)
        key = (firsts, key)
        joint[key] = joint.get(key, Fr(0)) + w
        npaths += 1
        tr = script.trace
        j = len(tr) - 1
        while j >= 0 and tr[j][1] + 1 >= tr[j][2]:
            j -= 1
        if j < 0:
            break
        prefix = [t[1] for t in tr[:j]] + [tr[j][1] + 1]
        if npaths >= max_paths:
            truncated = True
            break
    return {"joint": [[fr_str(w), [list(r) for r in k[0]], [list(r) for r in k[1]]] for k, w in joint.items()],
            "npaths": npaths, "truncated": truncated, "error": error}


class ValueScript:
    """first option for every discrete source, the next value of a fixed cyclic list for every rvs call"""

    def __init__(self, values):
        self.values = [Fr(v) for v in values]
        self.k = 0
        self.trace = []

    def decide(self, kind, weights, entries):
        self.trace.append((kind, 0, len(weights), weights[0] / sum(weights), entries[0]))
        return 0

    def next_value(self):
        v = self.values[self.k % len(self.values)]
        self.k += 1
        self.trace.append(("rvs", 0, 1, Fr(1), ["v", fr_str(v)]))
        return float(v)


def trace_draws(text, n, samples, values, vars):
    """ONE call `Simulator(n).simulate(program, [], samples)`; every scipy `rvs` call is recorded with the arguments it
    received and answered with the next scripted value.  Per run: the calls in order, the tape, the states."""
    import scipy.stats as st
    from inputparser import Parser
    from simulation import Simulator
    program = Parser().parse_string(text)
    script = ValueScript(values)
    calls = []
    marks = []           # (number of calls, tape length) at the start of every run
    with Patches(script=script):
        def make(name):
            def rvs(*args, **kwargs):
                calls.append(_normalise_call({"fn": name, "args": [float(a) for a in args],
                                              "kwargs": {k: float(v) for k, v in kwargs.items()}}))
                return script.next_value()
            return rvs
        for name in SCIPY_FAMILIES:
            getattr(st, name).rvs = make(name)
        sim = Simulator(n)
        inner = sim.execute

        def execute(element, state):
            if element is program.initial:
                marks.append((len(calls), len(script.trace)))
            return inner(element, state)
        sim.execute = execute
        res = sim.simulate(program, [], samples)
    runs = []
    if len(marks) != samples:
        return {"error": f"the initial section was executed {len(marks)} times for {samples} runs", "runs": [],
                "ncalls": len(calls)}
    marks.append((len(calls), len(script.trace)))
    for r in range(samples):
        (c0, t0), (c1, t1) = marks[r], marks[r + 1]
        runs.append({"calls": calls[c0:c1], "tape": [t[4] for t in script.trace[t0:t1]],
                     "states": [_state_values(s, vars) for s in res.samples[r]]})
    return {"error": None, "runs": runs, "ncalls": len(calls)}
