"""Worker-side tasks observing the real normalisation passes, type inference and recurrence builder."""
from fractions import Fraction as Fr

from .analyze import _reset_settings, _err, typedefs_dump, mono_expr
from .convert import program_json, Unconvertible, mono_json, fr_str


def snapshots(text, settings=None):
    """Runs the real normalize_program and records the program after every Transformer.execute."""
    _reset_settings(settings)
    res = {"accepted": False, "snaps": []}
    try:
        from inputparser import Parser
        program = Parser().parse_string(text)
    except Exception as e:  # noqa
        res["error"] = _err(e, "parse")
        _reset_settings()
        return res

    def snap(name, prog):
        entry = {"pass": name}
        try:
            entry["program"] = program_json(prog)
            entry["variables"] = sorted(str(v) for v in prog.variables)
        except Unconvertible as u:
            entry["program"] = None
            entry["why"] = str(u)
        except Exception as ex:  # noqa
            entry["program"] = None
            entry["why"] = f"{type(ex).__name__}: {ex}"
        res["snaps"].append(entry)

    snap("parsed", program)
    res["original_variables"] = sorted(str(v) for v in program.original_variables)
    import program.transformer as T
    names = ["LoopGuardTransformer", "DistTransformer", "IfTransformer", "MultiAssignTransformer",
             "ConditionsReducer", "ConstantsTransformer", "UpdateInfoTransformer", "TypeInferer",
             "ConditionsNormalizer", "ConditionsToArithm"]
    originals = {}
    for nm in names:
        cls = getattr(T, nm)
        originals[nm] = cls.execute

        def make(nm_, orig):
            def wrapped(self, prog):
                out = orig(self, prog)
                snap(nm_, out)
                return out
            return wrapped
        cls.execute = make(nm, cls.execute)
    try:
        from program import normalize_program
        program = normalize_program(program)
        res["accepted"] = True
        res["typedefs"] = typedefs_dump(program)
        res["abstracted"] = {str(k): str(v) for k, v in program.abstracted_const_store.items()}
        res["symbols"] = sorted(str(v) for v in program.symbols)
        res["original_loop_guard"] = str(program.original_loop_guard)
    except Exception as e:  # noqa
        res["error"] = _err(e, "normalize")
    finally:
        for nm, orig in originals.items():
            getattr(T, nm).execute = orig
        _reset_settings()
    return res


def _poly_terms(expr, symbols):
    """recurrence right-hand side -> list of (monomial json, coefficient sympy expr) incl. constant []"""
    from utils import get_monoms
    from symengine.lib.symengine_wrapper import sympify
    monoms = get_monoms(sympify(expr).expand(), constant_symbols=symbols, with_constant=True)
    out = []
    for coeff, monom in monoms:
        out.append((mono_json(monom), coeff))
    return out


def _coef_value(c, subs):
    import sympy
    c = sympy.sympify(c)
    sm = {}
    for s in c.free_symbols:
        if s.name in subs:
            f = Fr(subs[s.name])
            sm[s] = sympy.Rational(f.numerator, f.denominator)
    v = c.xreplace(sm)
    if v.free_symbols:
        return None
    v = sympy.nsimplify(v) if v.is_Float else v
    if not v.is_Rational:
        v = sympy.simplify(v)
    if not v.is_Rational:
        return None
    return f"{v.p}/{v.q}"


def recurrences(text, goals, subs=None, settings=None):
    """normalised program (JSON AST), typedefs and, per goal, the recurrence system with coefficients
    evaluated at the parameter point `subs`"""
    _reset_settings(settings)
    subs = subs or {}
    res = {"accepted": False, "systems": []}
    try:
        from inputparser import Parser
        from program import normalize_program
        program = normalize_program(Parser().parse_string(text))
    except Exception as e:  # noqa
        res["error"] = _err(e, "normalize")
        _reset_settings()
        return res
    res["accepted"] = True
    res["typedefs"] = typedefs_dump(program)
    res["abstracted"] = {str(k): str(v) for k, v in program.abstracted_const_store.items()}
    try:
        res["program"] = program_json(program)
    except Exception as u:  # noqa
        res["program"] = None
        res["why"] = str(u)
    res["variables"] = sorted(str(v) for v in program.variables)
    res["symbols"] = sorted(str(v) for v in program.symbols)
    from recurrences import RecBuilder
    rb = RecBuilder(program)
    for mono in goals:
        entry = {"goal": mono}
        try:
            recs = rb.get_recurrences(mono_expr(mono))
            rows = []
            ok = True
            for m in recs.monomials:
                terms = []
                for mj, coeff in _poly_terms(recs.recurrence_dict[m], program.symbols):
                    cv = _coef_value(coeff, subs)
                    if cv is None:
                        ok = False
                    terms.append([mj, cv, str(coeff)[:120]])
                init = recs.init_values_dict[m]
                rows.append({"mono": mono_json(m), "terms": terms, "init": _coef_value(init, subs),
                             "init_expr": str(init)[:200]})
            entry["rows"] = rows
            entry["numeric"] = ok
            entry["acyclic"] = bool(recs.is_acyclic)
            # the matrix form, for the closure / coefficient-extraction clause
            A = recs.recurrence_matrix
            mons = [mono_json(m) for m in recs.monomials]
            if recs.is_inhomogeneous:
                mons = mons + [[]]
            entry["matrix_monomials"] = mons
            entry["matrix"] = [[_coef_value(A[i, j], subs) for j in range(A.shape[1])] for i in range(A.shape[0])]
            entry["init_vector"] = [_coef_value(x, subs) for x in recs.init_values_vector]
            entry["ok"] = True
        except Exception as e:  # noqa
            entry["ok"] = False
            entry["error"] = _err(e, "recurrences")
        res["systems"].append(entry)
    _reset_settings()
    return res


def full_chain(text, goals, subs=None, nvals=10):
    """everything the per-instance for-all-n chain of C01 needs: normalised program + types, the recurrence system of
    every goal (rows, matrix, initial vector at the parameter point) and the solver's closed form with its term shape"""
    from .solve import term_shape, _as_qd, _radicands, _rat
    from .analyze import eval_closed_form, _max_case
    res = recurrences(text, goals, subs)
    if not res.get("accepted"):
        return res
    _reset_settings()
    subs = subs or {}
    try:
        from inputparser import Parser
        from program import normalize_program
        from recurrences import RecBuilder
        from recurrences.solver import RecurrenceSolver
        from utils import unpack_piecewise
        import sympy
        program = normalize_program(Parser().parse_string(text))
        rb = RecBuilder(program)
        for mono, entry in zip(goals, res["systems"]):
            if not entry.get("ok"):
                continue
            try:
                m = mono_expr(mono)
                recs = rb.get_recurrences(m)
                solver = RecurrenceSolver(recs)
                sol = solver.get(sympy.sympify(m))
                entry["closed"] = {"exact": bool(solver.is_exact), "max_case": _max_case(sol),
                                   "index": [str(x) for x in recs.monomials].index(str(sympy.sympify(m))),
                                   "values": [eval_closed_form(sol, n, subs) for n in range(nvals + 1)],
                                   "str": str(sol)[:600]}
                gen = unpack_piecewise(sol)
                gen = gen.xreplace({s: _rat(subs[s.name]) for s in gen.free_symbols if s.name in subs})
                try:
                    shape = term_shape(gen)
                    bases = {}
                    for c_, dg, b_ in shape:
                        bases[str(b_)] = max(bases.get(str(b_), 0), dg + 1)
                    entry["closed"]["degs"] = sorted(bases.values())
                    rads = set()
                    for c_, _, b_ in shape:
                        rads |= _radicands(c_) | _radicands(b_)
                    if all(c_.is_Rational and b_.is_Rational for c_, _, b_ in shape):
                        entry["closed"]["terms"] = [{"coef": f"{c_.p}/{c_.q}", "deg": dg, "base": f"{b_.p}/{b_.q}"}
                                                    for c_, dg, b_ in shape]
                    elif len(rads) == 1:
                        D = next(iter(rads))
                        ts = []
                        for c_, dg, b_ in shape:
                            cq, bq = _as_qd(c_, D), _as_qd(b_, D)
                            if cq is None or bq is None:
                                ts = None
                                break
                            ts.append({"coef": list(cq), "deg": dg, "base": list(bq)})
                        if ts is not None:
                            entry["closed"]["terms_qd"] = ts
                            entry["closed"]["D"] = str(D)
                except Exception as ex:  # noqa
                    entry["closed"]["shape_error"] = str(ex)[:200]
            except Exception as e:  # noqa
                entry["closed"] = {"error": _err(e, "solve")}
    finally:
        _reset_settings()
    return res
