"""Worker-side tasks observing the real normalisation passes, type inference and recurrence builder."""
from fractions import Fraction as Fr

from .analyze import _reset_settings, _err, typedefs_dump, mono_expr
from .convert import program_json, Unconvertible, mono_json, fr_str


def snapshots(text, settings=None):
    """Runs the real normalize_program and records the program after every Transformer.execute."""
    _reset_settings(settings)
    res = {"accepted": False, "snaps": []}
    try:
        from inputparser import Parser
        program = Parser().parse_string(text)
    except Exception as e:  # noqa
        res["error"] = _err(e, "parse")
        _reset_settings()
        return res

    def snap(name, prog):
        entry = {"pass": name}
        try:
            entry["program"] = program_json(prog)
            entry["variables"] = sorted(str(v) for v in prog.variables)
        except Unconvertible as u:
            entry["program"] = None
            entry["why"] = str(u)
        except Exception as ex:  # noqa
            entry["program"] = None
            entry["why"] = f"{type(ex).__name__}: {ex}"
        res["snaps"].append(entry)

    snap("parsed", program)
    res["original_variables"] = sorted(str(v) for v in program.original_variables)
    import program.transformer as T
    names = ["LoopGuardTransformer", "DistTransformer", "IfTransformer", "MultiAssignTransformer",
             "ConditionsReducer", "ConstantsTransformer", "UpdateInfoTransformer", "TypeInferer",
             "ConditionsNormalizer", "ConditionsToArithm"]
    originals = {}
    for nm in names:
        cls = getattr(T, nm)
        originals[nm] = cls.execute

        def make(nm_, orig):
            def wrapped(self, prog):
                out = orig(self, prog)
                snap(nm_, out)
                return out
            return wrapped
        cls.execute = make(nm, cls.execute)
    try:
        from program import normalize_program
        program = normalize_program(program)
        res["accepted"] = True
        res["typedefs"] = typedefs_dump(program)
        res["abstracted"] = {str(k): str(v) for k, v in program.abstracted_const_store.items()}
        res["symbols"] = sorted(str(v) for v in program.symbols)
        res["original_loop_guard"] = str(program.original_loop_guard)
    except Exception as e:  # noqa
        res["error"] = _err(e, "normalize")
    finally:
        for nm, orig in originals.items():
            getattr(T, nm).execute = orig
        _reset_settings()
    return res


def _poly_terms(expr, symbols):
    """recurrence right-hand side -> list of (monomial json, coefficient sympy expr) incl. constant []"""
    from utils import get_monoms
    from symengine.lib.symengine_wrapper import sympify
    monoms = get_monoms(sympify(expr).expand(), constant_symbols=symbols, with_constant=True)
    out = []
    for coeff, monom in monoms:
        out.append((mono_json(monom), coeff))
    return out


def _coef_value(c, subs):
    import sympy
    c = sympy.sympify(c)
    sm = {}
    for s in c.free_symbols:
        if s.name in subs:
            f = Fr(subs[s.name])
            sm[s] = sympy.Rational(f.numerator, f.denominator)
    v = c.xreplace(sm)
    if v.free_symbols:
        return None
    v = sympy.nsimplify(v) if v.is_Float else v
    if not v.is_Rational:
        v = sympy.simplify(v)
    if not v.is_Rational:
        return None
    return f"{v.p}/{v.q}"


def recurrences(text, goals, subs=None, settings=None):
    """normalised program (JSON AST), typedefs and, per goal, the recurrence system with coefficients
    evaluated at the parameter point `subs`"""
    _reset_settings(settings)
    subs = subs or {}
    res = {"accepted": False, "systems": []}
    try:
        from inputparser import Parser
        from program import normalize_program
        program = normalize_program(Parser().parse_string(text))
    except Exception as e:  # noqa
        res["error"] = _err(e, "normalize")
        _reset_settings()
        return res
    res["accepted"] = True
    res["typedefs"] = typedefs_dump(program)
    res["abstracted"] = {str(k): str(v) for k, v in program.abstracted_const_store.items()}
    try:
        res["program"] = program_json(program)
    except Exception as u:  # noqa
        res["program"] = None
        res["why"] = str(u)
    res["variables"] = sorted(str(v) for v in program.variables)
    res["symbols"] = sorted(str(v) for v in program.symbols)
    from recurrences import RecBuilder
    rb = RecBuilder(program)
    for mono in goals:
        entry = {"goal": mono}
        try:
            recs = rb.get_recurrences(mono_expr(mono))
            rows = []
            ok = True
            for m in recs.monomials:
                terms = []
                for mj, coeff in _poly_terms(recs.recurrence_dict[m], program.symbols):
                    cv = _coef_value(coeff, subs)
                    if cv is None:
                        ok = False
                    terms.append([mj, cv, str(coeff)[:120]])
                init = recs.init_values_dict[m]
                rows.append({"mono": mono_json(m), "terms": terms, "init": _coef_value(init, subs),
                             "init_expr": str(init)[:200]})
            entry["rows"] = rows
            entry["numeric"] = ok
            entry["acyclic"] = bool(recs.is_acyclic)
            # the matrix form, for the closure / coefficient-extraction clause
            A = recs.recurrence_matrix
            mons = [mono_json(m) for m in recs.monomials]
            if recs.is_inhomogeneous:
                mons = mons + [[]]
            entry["matrix_monomials"] = mons
            entry["matrix"] = [[_coef_value(A[i, j], subs) for j in range(A.shape[1])] for i in range(A.shape[0])]
            entry["init_vector"] = [_coef_value(x, subs) for x in recs.init_values_vector]
            entry["ok"] = True
        except Exception as e:  # noqa
            entry["ok"] = False
            entry["error"] = _err(e, "recurrences")
        res["systems"].append(entry)
    _reset_settings()
    return res
