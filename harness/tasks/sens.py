"""Worker-side: sensitivities by both methods (C10)."""
from .analyze import _reset_settings, _err, eval_closed_form, mono_expr


def sensitivity(text, goals, param, subs=None, nmax=4, settings=None):
    _reset_settings(settings)
    res = {"accepted": False, "goals": []}
    try:
        from inputparser import Parser
        from program import normalize_program
        program = normalize_program(Parser().parse_string(text))
    except Exception as e:  # noqa
        res["error"] = _err(e, "normalize")
        _reset_settings()
        return res
    from symengine.lib.symengine_wrapper import sympify
    import sympy
    p = sympify(param)
    if p not in program.symbols:
        res["error"] = {"stage": "param", "etype": "NotASymbol", "message": f"{param} not in program.symbols", "file": "", "func": ""}
        _reset_settings()
        return res
    res["accepted"] = True
    from cli.argument_parser import ArgumentParser
    from cli.actions.goals_action import GoalsAction
    from recurrences import RecBuilder, DiffRecBuilder
    args = ArgumentParser().get_defaults()
    for mono in goals:
        g = {"mono": mono}
        m = mono_expr(mono)
        # method 1: differentiate the closed form (SensitivityAction._diff_closed_form)
        try:
            ga = GoalsAction(args)
            ga.initialize_program(program, RecBuilder(program))
            result, exact = ga.handle_moment_goal((m,))
            d = sympy.sympify(result).diff(sympy.Symbol(param)).simplify()
            g["diff_closed_form"] = {"exact": bool(exact), "str": str(d)[:800],
                                     "values": [eval_closed_form(d, n, subs) for n in range(nmax + 1)],
                                     "moment_values": [eval_closed_form(result, n, subs) for n in range(nmax + 1)]}
        except Exception as e:  # noqa
            g["diff_closed_form"] = {"error": _err(e, "diff_closed_form")}
        # method 2: sensitivity recurrences (SensitivityAction._analyze_sensitivity)
        try:
            ga = GoalsAction(args)
            ga.initialize_program(program, DiffRecBuilder(program, p))
            result, exact = ga.handle_moment_goal((m,))
            g["diff_recurrences"] = {"exact": bool(exact), "str": str(result)[:800],
                                     "values": [eval_closed_form(result, n, subs) for n in range(nmax + 1)]}
        except Exception as e:  # noqa
            g["diff_recurrences"] = {"error": _err(e, "diff_recurrences")}
        res["goals"].append(g)
    _reset_settings()
    return res


def sensitivity_cli(text, goals, param, subs=None, nmax=4):
    """the printed lines of `polar.py prog --goals ... -sens_diff p` and `-sens p` (real SensitivityAction), evaluated"""
    from .analyze import cli_goals, eval_printed
    out = {}
    gs = ["E(" + "*".join(f"{v}**{k}" for v, k in g) + ")" for g in goals]
    for method, flag in (("cli_sens_diff", "-sens_diff"), ("cli_sens", "-sens")):
        r = cli_goals(text, gs, -1, extra_args=[flag, param])
        if r.get("error"):
            out[method] = {"error": r["error"]}
            continue
        rows = []
        for l in r["lines"]:
            if l.startswith("∂") and " = " in l and "| n=" not in l:
                rhs = l.split(" = ", 1)[1]
                parts = [p.strip() for p in rhs.split(";")]
                try:
                    vals = []
                    for n in range(nmax + 1):
                        if n < len(parts) - 1:
                            vals.append(eval_printed(parts[n], n, subs))
                        else:
                            vals.append(eval_printed(parts[-1], n, subs))
                    rows.append({"raw": l[:300], "values": vals})
                except Exception as ex:  # noqa
                    rows.append({"raw": l[:300], "unparsed": str(ex)[:100]})
        out[method] = {"rows": rows}
    return out


def sens_chain(text, goal, param, subs=None, nvals=12):
    """Per-instance for-all-n chain of the sensitivity-recurrence method (theorems Polar.Sens.sens_pruned_sound /
    sens_unique): (1) every delta-row of DiffRecBuilder's system is the formal parameter derivative of the moment row
    (product rule) up to pruned terms; (2) every pruned term is justified: a pruned c'·M has c' = 0 identically, a pruned
    c·δM belongs to the closed set of monomials whose rows and initial values do not depend on the parameter;
    (3) the initial values of delta rows are the derivatives of the moment rows' initial values; returns the augmented
    matrix / initial vector at the parameter point and the solver's closed form for the window validator."""
    from .solve import term_shape, _as_qd, _radicands, _rat
    from .analyze import _max_case
    from .convert import mono_json
    from .normalize import _coef_value
    _reset_settings()
    subs = subs or {}
    res = {"accepted": False, "problems": []}
    try:
        from inputparser import Parser
        from program import normalize_program
        program = normalize_program(Parser().parse_string(text))
        from symengine.lib.symengine_wrapper import sympify
        from recurrences import DiffRecBuilder
        from recurrences.solver import RecurrenceSolver
        from utils import get_monoms, unpack_piecewise
        import sympy
        p = sympify(param)
        if p not in program.symbols:
            res["error"] = {"stage": "param", "etype": "NotASymbol", "message": param}
            return res
        drb = DiffRecBuilder(program, p)
        rb = drb.rec_builder
        delta = drb.delta
        m = sympify(mono_expr(goal))
        recs = drb.get_recurrences(m)
    except Exception as e:  # noqa
        res["error"] = _err(e, "diff_recurrences")
        _reset_settings()
        return res
    res["accepted"] = True
    P = sympy.Symbol(param)
    D_ = sympy.Symbol(str(delta))
    syms = program.symbols

    def split(expr):
        acc = {}
        for c, mj in get_monoms(sympify(expr).expand(), constant_symbols=syms, with_constant=True):
            mj = sympy.sympify(mj)
            acc[mj] = acc.get(mj, sympy.Integer(0)) + sympy.sympify(c)
        return [(c, mj) for mj, c in acc.items()]

    def is_zero(e):
        e = sympy.sympify(e)
        return e == 0 or sympy.simplify(e) == 0

    try:
        pruned = set()
        n_delta_rows = 0
        for mon in recs.monomials:
            if str(delta) not in {str(z) for z in mon.free_symbols}:
                # a plain moment row must be the RecBuilder's own row
                if not is_zero(sympy.sympify(recs.recurrence_dict[mon]) - sympy.sympify(rb.get_recurrence(sympify(mon)))):
                    res["problems"].append(f"moment row of {mon} differs from RecBuilder's")
                continue
            n_delta_rows += 1
            M = sympify(sympy.sympify(mon).subs(D_, 1))
            full = sympy.Integer(0)
            for c, mj in split(rb.get_recurrence(M)):
                full += sympy.diff(c, P) * mj
                if mj != 1:
                    full += c * mj * D_
            emitted = sympy.sympify(recs.recurrence_dict[mon])
            diff_rows = sympy.expand(full - emitted)
            if diff_rows != 0:
                for c, mj in split(diff_rows):
                    if is_zero(c):
                        continue
                    if D_ in mj.free_symbols:
                        base = mj.subs(D_, 1)
                        # the emitted row lacks c·δ(base): allowed only when δ(base) ≡ 0; anything else is a wrong coefficient
                        want_c = sum((cc for cc, mm in split(rb.get_recurrence(M)) if mm == base), sympy.Integer(0))
                        if is_zero(c - want_c):
                            pruned.add(base)
                        else:
                            res["problems"].append(f"row δ({M}): coefficient of δ({base}) is off by {c - want_c}"[:300])
                    else:
                        res["problems"].append(f"row δ({M}): term ({c})*{mj} of the product rule is missing or wrong"[:300])
            init_emitted = sympy.sympify(recs.init_values_dict[mon])
            init_full = sympy.diff(sympy.sympify(rb.get_initial_value(M)), P)
            if not is_zero(init_emitted - init_full):
                res["problems"].append(f"initial value of δ({M}) is {init_emitted}, derivative of the moment's initial value is {init_full}"[:300])
        # closure of the pruned set: rows and initial values free of the parameter
        work, seen = list(pruned), set()
        while work:
            M = work.pop()
            if M in seen:
                continue
            seen.add(M)
            if len(seen) > 400:
                res["problems"].append("closure of parameter-independent monomials exceeds 400")
                break
            if not is_zero(sympy.diff(sympy.sympify(rb.get_initial_value(sympify(M))), P)):
                res["problems"].append(f"δ({M}) was dropped but the initial value of {M} depends on {param}"[:300])
            for c, mj in split(rb.get_recurrence(sympify(M))):
                if not is_zero(sympy.diff(c, P)):
                    res["problems"].append(f"δ({M}) was dropped but its recurrence has the coefficient {c} of {mj}"[:300])
                if mj != 1:
                    work.append(mj)
        res["delta_rows"] = n_delta_rows
        res["pruned"] = sorted(str(x) for x in seen)
        # the augmented linear system at the parameter point and the solver's closed form of δ·goal
        A = recs.recurrence_matrix
        mons = [str(x) for x in recs.monomials]
        res["monomials"] = mons
        res["matrix"] = [[_coef_value(A[i, j], subs) for j in range(A.shape[1])] for i in range(A.shape[0])]
        res["init_vector"] = [_coef_value(x, subs) for x in recs.init_values_vector]
        target = m * delta
        solver = RecurrenceSolver(recs)
        sol = solver.get(sympy.sympify(target))
        cl = {"exact": bool(solver.is_exact), "max_case": _max_case(sol), "index": mons.index(str(sympy.sympify(target))),
              "values": [eval_closed_form(sol, n, subs) for n in range(nvals + 1)], "str": str(sol)[:600]}
        gen = unpack_piecewise(sol)
        gen = gen.xreplace({s: _rat(subs[s.name]) for s in gen.free_symbols if s.name in subs})
        try:
            shape = term_shape(gen)
            bases = {}
            for c_, dg, b_ in shape:
                bases[str(b_)] = max(bases.get(str(b_), 0), dg + 1)
            cl["degs"] = sorted(bases.values())
            rads = set()
            for c_, _, b_ in shape:
                rads |= _radicands(c_) | _radicands(b_)
            if all(c_.is_Rational and b_.is_Rational for c_, _, b_ in shape):
                cl["terms"] = [{"coef": f"{c_.p}/{c_.q}", "deg": dg, "base": f"{b_.p}/{b_.q}"} for c_, dg, b_ in shape]
            elif len(rads) == 1:
                Dr = next(iter(rads))
                ts = []
                for c_, dg, b_ in shape:
                    cq, bq = _as_qd(c_, Dr), _as_qd(b_, Dr)
                    if cq is None or bq is None:
                        ts = None
                        break
                    ts.append({"coef": list(cq), "deg": dg, "base": list(bq)})
                if ts is not None:
                    cl["terms_qd"] = ts
                    cl["D"] = str(Dr)
        except Exception as ex:  # noqa
            cl["shape_error"] = str(ex)[:200]
        res["closed"] = cl
    except Exception as e:  # noqa
        res["chain_error"] = _err(e, "sens_chain")
    finally:
        _reset_settings()
    return res
