"""Worker-side: sensitivities by both methods (C10)."""
from .analyze import _reset_settings, _err, eval_closed_form, mono_expr


def sensitivity(text, goals, param, subs=None, nmax=4, settings=None):
    _reset_settings(settings)
    res = {"accepted": False, "goals": []}
    try:
        from inputparser import Parser
        from program import normalize_program
        program = normalize_program(Parser().parse_string(text))
    except Exception as e:  # noqa
        res["error"] = _err(e, "normalize")
        _reset_settings()
        return res
    from symengine.lib.symengine_wrapper import sympify
    import sympy
    p = sympify(param)
    if p not in program.symbols:
        res["error"] = {"stage": "param", "etype": "NotASymbol", "message": f"{param} not in program.symbols", "file": "", "func": ""}
        _reset_settings()
        return res
    res["accepted"] = True
    from cli.argument_parser import ArgumentParser
    from cli.actions.goals_action import GoalsAction
    from recurrences import RecBuilder, DiffRecBuilder
    args = ArgumentParser().get_defaults()
    for mono in goals:
        g = {"mono": mono}
        m = mono_expr(mono)
        # method 1: differentiate the closed form (SensitivityAction._diff_closed_form)
        try:
            ga = GoalsAction(args)
            ga.initialize_program(program, RecBuilder(program))
            result, exact = ga.handle_moment_goal((m,))
            d = sympy.sympify(result).diff(sympy.Symbol(param)).simplify()
            g["diff_closed_form"] = {"exact": bool(exact), "str": str(d)[:800],
                                     "values": [eval_closed_form(d, n, subs) for n in range(nmax + 1)],
                                     "moment_values": [eval_closed_form(result, n, subs) for n in range(nmax + 1)]}
        except Exception as e:  # noqa
            g["diff_closed_form"] = {"error": _err(e, "diff_closed_form")}
        # method 2: sensitivity recurrences (SensitivityAction._analyze_sensitivity)
        try:
            ga = GoalsAction(args)
            ga.initialize_program(program, DiffRecBuilder(program, p))
            result, exact = ga.handle_moment_goal((m,))
            g["diff_recurrences"] = {"exact": bool(exact), "str": str(result)[:800],
                                     "values": [eval_closed_form(result, n, subs) for n in range(nmax + 1)]}
        except Exception as e:  # noqa
            g["diff_recurrences"] = {"error": _err(e, "diff_recurrences")}
        res["goals"].append(g)
    _reset_settings()
    return res


def sensitivity_cli(text, goals, param, subs=None, nmax=4):
    """the printed lines of `polar.py prog --goals ... -sens_diff p` and `-sens p` (real SensitivityAction), evaluated"""
    from .analyze import cli_goals, eval_printed
    out = {}
    gs = ["E(" + "*".join(f"{v}**{k}" for v, k in g) + ")" for g in goals]
    for method, flag in (("cli_sens_diff", "-sens_diff"), ("cli_sens", "-sens")):
        r = cli_goals(text, gs, -1, extra_args=[flag, param])
        if r.get("error"):
            out[method] = {"error": r["error"]}
            continue
        rows = []
        for l in r["lines"]:
            if l.startswith("∂") and " = " in l and "| n=" not in l:
                rhs = l.split(" = ", 1)[1]
                parts = [p.strip() for p in rhs.split(";")]
                try:
                    vals = []
                    for n in range(nmax + 1):
                        if n < len(parts) - 1:
                            vals.append(eval_printed(parts[n], n, subs))
                        else:
                            vals.append(eval_printed(parts[-1], n, subs))
                    rows.append({"raw": l[:300], "values": vals})
                except Exception as ex:  # noqa
                    rows.append({"raw": l[:300], "unparsed": str(ex)[:100]})
        out[method] = {"rows": rows}
    return out
