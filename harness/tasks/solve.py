"""Worker-side: drive Polar's recurrence solvers directly on a given linear system (C04)."""
from fractions import Fraction as Fr

from .analyze import _reset_settings, _err, to_rational, eval_closed_form, _max_case


class _StubProgram:
    def __init__(self, symbols):
        self.symbols = symbols


def _rat(x):
    import sympy
    f = Fr(x)
    return sympy.Rational(f.numerator, f.denominator)


def _as_qd(x, D):
    """x = a + b*sqrt(D) with rational a, b  (D = -1: a + b*I); returns (a, b) as strings or None"""
    import sympy
    x = sympy.nsimplify(sympy.expand(x)) if False else sympy.expand(x)
    if D == -1:
        re_, im_ = x.as_real_imag()
        re_, im_ = sympy.nsimplify(re_), sympy.nsimplify(im_)
        if re_.is_Rational and im_.is_Rational:
            return (f"{re_.p}/{re_.q}", f"{im_.p}/{im_.q}")
        return None
    s = sympy.sqrt(D)
    t = sympy.Symbol("_sq")
    y = sympy.expand(sympy.radsimp(x)).subs(s, t)
    try:
        p = sympy.Poly(y, t)
    except Exception:
        return None
    if p.degree() > 1 or any(not c.is_Rational for c in p.all_coeffs()):
        # reduce higher powers of sqrt(D)
        y = sympy.expand(y)
        try:
            p = sympy.Poly(sympy.rem(sympy.Poly(y, t), sympy.Poly(t**2 - D, t)), t)
        except Exception:
            return None
        if any(not c.is_Rational for c in p.all_coeffs()):
            return None
    cs = p.all_coeffs()
    if len(cs) == 1:
        a, b = cs[0], sympy.Integer(0)
    else:
        b, a = cs
    return (f"{a.p}/{a.q}", f"{b.p}/{b.q}")


def _radicands(expr):
    import sympy
    ds = set()
    for p in expr.atoms(sympy.Pow):
        if p.exp == sympy.Rational(1, 2) and p.base.is_Integer:
            ds.add(int(p.base))
        elif p.exp == sympy.Rational(-1, 2) and p.base.is_Integer:
            ds.add(int(p.base))
    if expr.has(sympy.I):
        ds.add(-1)
    return ds


def term_shape(expr):
    """exponential polynomial in n -> list of (coef, deg, base) sympy triples, or raises ValueError"""
    import sympy
    n = sympy.Symbol("n", integer=True)
    expr = sympy.sympify(expr).xreplace({sympy.Symbol("n"): n})
    e = sympy.expand(sympy.expand_power_base(sympy.expand(expr), force=True))
    e = sympy.expand(sympy.powsimp(e, combine="exp"))
    e = sympy.expand(e, power_exp=True, power_base=True)
    out = []
    for term in sympy.Add.make_args(e):
        coef, deg, base = sympy.Integer(1), 0, sympy.Integer(1)
        for f in sympy.Mul.make_args(term):
            if not f.has(n):
                coef *= f
            elif f == n:
                deg += 1
            elif f.is_Pow and f.base == n and f.exp.is_Integer and f.exp > 0:
                deg += int(f.exp)
            elif f.is_Pow and not f.base.has(n):
                ex = sympy.expand(f.exp)
                c1 = ex.coeff(n, 1)
                c0 = ex.coeff(n, 0)
                if sympy.expand(ex - c1 * n - c0) != 0 or not c1.is_Integer or c1.has(n) or c0.has(n):
                    raise ValueError(f"exponent not linear in n: {f}")
                if c1 < 0:
                    base *= (1 / f.base) ** (-c1)
                else:
                    base *= f.base ** c1
                coef *= f.base ** c0
            else:
                raise ValueError(f"factor not of exponential-polynomial form: {f}")
        out.append((sympy.simplify(coef), deg, sympy.simplify(base)))
    return out


def solve_system(A, v, consts=None, force_cyclic=False, settings=None, nvals=12, numeric=None, subs=None):
    """A: d x d list of strings (rationals or expressions in parameters), v: initial vector, consts:
    inhomogeneous constants.  Returns for each component the closed form's values, shape and flags."""
    import sympy
    _reset_settings(settings)
    numeric = numeric or {}
    d = len(A)
    xs = [sympy.Symbol(f"x{i}") for i in range(d)]
    syms = set()
    rec, init = {}, {}
    for i in range(d):
        rhs = sympy.Integer(0)
        for j in range(d):
            a = sympy.sympify(A[i][j], rational=True)
            syms |= a.free_symbols
            rhs += a * xs[j]
        if consts:
            c = sympy.sympify(consts[i], rational=True)
            syms |= c.free_symbols
            rhs += c
        rec[xs[i]] = sympy.expand(rhs)
        vi = sympy.sympify(v[i], rational=True)
        syms |= vi.free_symbols
        init[xs[i]] = vi
    res = {"components": [], "d": d}
    try:
        from recurrences import Recurrences
        from recurrences.solver import RecurrenceSolver
        from symengine.lib.symengine_wrapper import sympify as se
        prog = _StubProgram({se(s) for s in syms})
        recs = Recurrences(rec, init, prog)
        res["acyclic"] = bool(recs.is_acyclic)
        res["inhomogeneous"] = bool(recs.is_inhomogeneous)
        res["order"] = [str(m) for m in recs.monomials]
        solver = RecurrenceSolver(recs, numeric.get("numeric_roots"), numeric.get("numeric_croots"),
                                  numeric.get("numeric_eps"), force_cyclic_solver=force_cyclic)
        res["solver"] = type(solver.solver).__name__
    except Exception as e:  # noqa
        res["error"] = _err(e, "setup")
        _reset_settings()
        return res
    for i in range(d):
        comp = {"i": i}
        try:
            sol = solver.get(xs[i])
            comp["exact"] = bool(solver.is_exact)
            comp["closed_form"] = str(sol)[:1500]
            mc = _max_case(sol)
            comp["max_case"] = mc
            comp["values"] = [eval_closed_form(sol, n, subs) for n in range(nvals + 1)]
            from utils import unpack_piecewise
            gen = unpack_piecewise(sol)
            if subs:
                sm = {s: _rat(subs[s.name]) for s in gen.free_symbols if s.name in subs}
                gen = gen.xreplace(sm)
            try:
                shape = term_shape(gen)
                comp["degs"] = sorted([dg + 1 for _, dg, _ in shape])
                rads = set()
                for c_, _, b_ in shape:
                    rads |= _radicands(c_) | _radicands(b_)
                if all(c_.is_Rational and b_.is_Rational for c_, _, b_ in shape):
                    comp["terms"] = [{"coef": f"{c_.p}/{c_.q}", "deg": dg, "base": f"{b_.p}/{b_.q}"}
                                     for c_, dg, b_ in shape]
                elif len(rads) == 1:
                    D = next(iter(rads))
                    ts = []
                    for c_, dg, b_ in shape:
                        cq, bq = _as_qd(c_, D), _as_qd(b_, D)
                        if cq is None or bq is None:
                            ts = None
                            break
                        ts.append({"coef": list(cq), "deg": dg, "base": list(bq)})
                    if ts is not None:
                        comp["terms_qd"] = ts
                        comp["D"] = str(D)
                comp["shape_ok"] = True
                # distinct bases with max degree + 1: the window the validator needs
                bases = {}
                for c_, dg, b_ in shape:
                    key = str(b_)
                    bases[key] = max(bases.get(key, 0), dg + 1)
                comp["degs"] = sorted(bases.values())
            except Exception as ex:  # noqa
                comp["shape_ok"] = False
                comp["shape_error"] = str(ex)[:200]
            comp["ok"] = True
        except Exception as e:  # noqa
            comp["ok"] = False
            comp["error"] = _err(e, "solve")
        res["components"].append(comp)
    _reset_settings()
    return res
