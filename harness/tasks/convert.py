"""Worker-side conversion of Polar's in-memory objects to the harness JSON AST (see harness/hast.py)."""
from fractions import Fraction as Fr


class Unconvertible(Exception):
    pass


def fr_str(f):
    f = Fr(f)
    return str(f.numerator) if f.denominator == 1 else f"{f.numerator}/{f.denominator}"


def expr_json(e):
    """symengine / sympy expression -> ["num",..] | ["var",..] | ..."""
    from symengine.lib.symengine_wrapper import sympify
    e = sympify(e)
    if e.is_Symbol:
        return ["var", str(e)]
    if e.is_Number:
        if e.is_Integer:
            return ["num", str(int(e))]
        if e.is_Rational:
            s = str(e)
            return ["num", fr_str(Fr(s))]
        raise Unconvertible(f"non-rational number {e}")
    if e.is_Add:
        args = list(e.args)
        out = expr_json(args[0])
        for a in args[1:]:
            out = ["add", out, expr_json(a)]
        return out
    if e.is_Mul:
        args = list(e.args)
        out = expr_json(args[0])
        for a in args[1:]:
            out = ["mul", out, expr_json(a)]
        return out
    if e.is_Pow:
        base, ex = e.args
        if ex.is_Integer and int(ex) >= 0:
            return ["pow", expr_json(base), int(ex)]
        if ex.is_Integer and int(ex) < 0:
            return ["div", ["num", "1"], ["pow", expr_json(base), -int(ex)]]
        raise Unconvertible(f"non-integer power {e}")
    raise Unconvertible(f"unsupported expression {e} ({type(e).__name__})")


def cond_json(c):
    from program.condition import TrueCond, FalseCond, Atom, And, Or, Not
    if isinstance(c, TrueCond):
        return ["tt"]
    if isinstance(c, FalseCond):
        return ["ff"]
    if isinstance(c, Atom):
        return ["cmp", str(c.cop), expr_json(c.poly1), expr_json(c.poly2)]
    if isinstance(c, And):
        return ["and", cond_json(c.cond1), cond_json(c.cond2)]
    if isinstance(c, Or):
        return ["or", cond_json(c.cond1), cond_json(c.cond2)]
    if isinstance(c, Not):
        return ["not", cond_json(c.cond)]
    raise Unconvertible(f"unknown condition {type(c).__name__}")


def dist_json(d):
    name = type(d).__name__
    if name == "Bernoulli":
        ps = [d.p]
    elif name == "Normal":
        ps = [d.mu, d.sigma2]
    elif name == "Uniform":
        ps = [d.a, d.b]
    elif name == "Laplace":
        ps = [d.mu, d.b]
    elif name == "Exponential":
        ps = [d.lamb]
    elif name == "Gamma":
        ps = [d.k, d.theta]
    elif name == "Beta":
        ps = [d.a, d.b]
    elif name == "Categorical":
        ps = list(d.probabilities)
    elif name == "DiscreteUniform":
        ps = [d.values[0], d.values[-1]]
    else:
        raise Unconvertible(f"distribution {name}")
    return ["dist", name, [expr_json(p) for p in ps]]


def assign_json(a):
    from program.assignment import PolyAssignment, DistAssignment
    guard = cond_json(a.condition)
    dflt = str(a.default)
    if isinstance(a, PolyAssignment):
        if len(a.polynomials) == 1 and a.probabilities[0] == 1:
            rhs = ["expr", expr_json(a.polynomials[0])]
        else:
            rhs = ["choice", [[expr_json(p), expr_json(q)] for p, q in zip(a.polynomials, a.probabilities)]]
        return ["assign", str(a.variable), rhs, guard, dflt]
    if isinstance(a, DistAssignment):
        return ["assign", str(a.variable), dist_json(a.distribution), guard, dflt]
    raise Unconvertible(f"assignment {type(a).__name__}")


def stmts_json(stmts):
    from program.ifstatem import IfStatem
    out = []
    for s in stmts:
        if isinstance(s, IfStatem):
            els = stmts_json(s.else_branch) if s.else_branch else []
            node = els
            for c, b in reversed(list(zip(s.conditions, s.branches))):
                node = [["ite", cond_json(c), stmts_json(b), node]]
            out += node
        else:
            out.append(assign_json(s))
    return out


def program_json(p):
    return {"init": stmts_json(p.initial), "guard": cond_json(p.loop_guard), "body": stmts_json(p.loop_body)}


def mono_json(m):
    """symengine monomial (product of powers of symbols) -> [[var, exp], ...] sorted"""
    from symengine.lib.symengine_wrapper import sympify
    m = sympify(m)
    if m == 1:
        return []
    parts = m.args if m.is_Mul else [m]
    out = []
    for p in parts:
        if p.is_Symbol:
            out.append([str(p), 1])
        elif p.is_Pow and p.args[0].is_Symbol and p.args[1].is_Integer:
            out.append([str(p.args[0]), int(p.args[1])])
        else:
            raise Unconvertible(f"not a monomial: {m}")
    return sorted(out)
