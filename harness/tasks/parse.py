"""Worker-side: parse-only tasks (C19)."""
from .analyze import _reset_settings, _err
from .convert import program_json, Unconvertible


def parse_only(text, settings=None):
    _reset_settings(settings)
    try:
        from inputparser import Parser
        p = Parser().parse_string(text)
    except Exception as e:  # noqa
        _reset_settings()
        return {"accepted": False, "error": _err(e, "parse")}
    out = {"accepted": True}
    try:
        out["program"] = program_json(p)
        out["printed"] = str(p)[:1500]
    except Exception as u:  # noqa
        out["program"] = None
        out["why"] = str(u)
    _reset_settings()
    return out
