"""Worker-side tasks of C13 (Sin/Cos/Exp moments).

* `stub_tables`   — the real `FunctionalAssignment.get_func_moment` on a *stub distribution* whose
                    transforms are uninterpreted functions; returns the coefficient table of the result.
* `polar_moment`  — the real `get_func_moment` on a real distribution (exact and rounded mode).
* `const_moment`  — the real `get_const_moment` for Sin/Cos/Exp of a constant.
* `quad_moments`  — an independent mpmath oracle (quadrature of the defining integral / finite sums);
                    imports nothing from Polar.
* `analyze_repaired` — the whole pipeline with ONE known defect repaired in memory (attribution of the
                    finding F132 only; never used to decide a verdict).
"""
import time


# --------------------------------------------------------------------------------------------------
# stub distribution: cf(t) = A(0,t) + i B(0,t), mgf(t) = M(0,t)
# --------------------------------------------------------------------------------------------------
# A characteristic function is hermitian, phi(-t) = conj(phi(t)).  Writing phi = A + iB with real
# uninterpreted A (even) and B (odd), the k-th derivative phi^(k) = A_k + i B_k has A_k of parity
# (-1)^k and B_k of parity (-1)^(k+1).  The stub encodes the derivative order in the first argument
# (d/dt A(k,t) = A(k+1,t)), so that `diff(cf(t), t, a).xreplace({t: w})` of the real code yields
# closed terms A(a,w), B(a,w); negative frequencies are folded by parity.  With this stub the code's
# own `assert im(result).expand() == 0` and `re(result)` are exercised unmodified.

_STUB = {}


def _stub_classes():
    if _STUB:
        return _STUB
    import sympy
    from sympy import Function, S

    class A(Function):
        nargs = 2
        is_extended_real = True
        is_real = True
        is_commutative = True

        @classmethod
        def eval(cls, k, t):
            if t.is_number and k.is_Integer:
                if t.is_zero and int(k) % 2 == 1:
                    return S.Zero
                if t.is_negative:
                    return (-1) ** int(k) * cls(k, -t)

        def fdiff(self, argindex=2):
            if argindex != 2:
                raise sympy.function.ArgumentIndexError(self, argindex)
            return A(self.args[0] + 1, self.args[1])

    class B(Function):
        nargs = 2
        is_extended_real = True
        is_real = True
        is_commutative = True

        @classmethod
        def eval(cls, k, t):
            if t.is_number and k.is_Integer:
                if t.is_zero and int(k) % 2 == 0:
                    return S.Zero
                if t.is_negative:
                    return (-1) ** (int(k) + 1) * cls(k, -t)

        def fdiff(self, argindex=2):
            if argindex != 2:
                raise sympy.function.ArgumentIndexError(self, argindex)
            return B(self.args[0] + 1, self.args[1])

    class M(Function):
        nargs = 2
        is_extended_real = True
        is_real = True
        is_commutative = True

        def fdiff(self, argindex=2):
            if argindex != 2:
                raise sympy.function.ArgumentIndexError(self, argindex)
            return M(self.args[0] + 1, self.args[1])

    _STUB.update(A=A, B=B, M=M)
    return _STUB


def _make_stub(mgf_exists=True):
    import sympy
    from program.distribution import Distribution
    cl = _stub_classes()

    class StubDist(Distribution):
        def __init__(self):
            self.calls = []
            super().__init__([])

        def set_parameters(self, parameters):
            pass

        def get_moment(self, k):
            # the raw moments of the stub law are the ones its transform implies,
            # E[X^k] = (-i)^k phi^(k)(0); a code path that takes the frequency-0 term from the
            # moments (/repo c7c1f2a) therefore yields the same coefficient table
            k = int(k)
            self.calls.append(("get_moment", str(k)))
            z = sympy.Integer(0)
            return sympy.expand((-sympy.I) ** k * (cl["A"](sympy.Integer(k), z) + sympy.I * cl["B"](sympy.Integer(k), z)))

        def is_discrete(self):
            return False

        def sample(self, state):
            raise NotImplementedError()

        def subs(self, substitutions):
            pass

        def get_support(self):
            return set()

        def get_free_symbols(self):
            return set()

        def cf(self, t):
            t = sympy.sympify(t)
            self.calls.append(("cf", str(t)))
            return cl["A"](sympy.Integer(0), t) + sympy.I * cl["B"](sympy.Integer(0), t)

        def mgf(self, t):
            t = sympy.sympify(t)
            self.calls.append(("mgf", str(t)))
            return cl["M"](sympy.Integer(0), t)

        def mgf_exists_at(self, t):
            self.calls.append(("mgf_exists_at", str(t)))
            return mgf_exists

        def __str__(self):
            return "Stub()"

    return StubDist()


def _canon_table(expr):
    """real linear combination of A(k,w), B(k,w), M(k,w) -> sorted [[kind,k,w,"p/q"],…] or None"""
    import sympy
    cl = _stub_classes()
    expr = sympy.expand(sympy.sympify(expr))
    d = expr.as_coefficients_dict()
    out = []
    for term, co in d.items():
        co = sympy.nsimplify(co) if not co.is_Rational else co
        if term == 1:
            if co != 0:
                return None
            continue
        if not (isinstance(term, (cl["A"], cl["B"], cl["M"])) and co.is_Rational):
            return None
        k, w = term.args
        if not (k.is_Integer and w.is_Integer):
            return None
        if co != 0:
            out.append([type(term).__name__, int(k), int(w), f"{co.p}/{co.q}"])
    return sorted(out)


def _exc(e):
    import traceback
    tb = traceback.extract_tb(e.__traceback__)
    fr = [f for f in tb if "/site-packages/" not in f.filename]
    where = fr[-1] if fr else (tb[-1] if tb else None)
    return {"etype": type(e).__name__, "message": str(e)[:200],
            "func": where.name if where else "?",
            "file": where.filename.split("/")[-1] if where else "?"}


def stub_tables(cases, mgf_exists=True):
    """cases: list of power dicts, e.g. {"Id":1,"Sin":2,"Cos":1}.  Exact mode."""
    from program.assignment.functional_assignment import FunctionalAssignment as FA
    old = FA.exact_func_moments
    FA.exact_func_moments = True
    res = []
    try:
        for powers in cases:
            stub = _make_stub(mgf_exists)
            try:
                r = FA.get_func_moment(stub, dict(powers))
                tab = _canon_table(r)
                if tab is None:
                    res.append({"ok": False, "kind": "shape", "text": str(r)[:300], "calls": stub.calls})
                else:
                    res.append({"ok": True, "table": tab, "calls": stub.calls})
            except Exception as e:  # noqa
                res.append({"ok": False, "kind": "raise", "error": _exc(e), "calls": stub.calls})
    finally:
        FA.exact_func_moments = old
    return res


# --------------------------------------------------------------------------------------------------
# real distributions
# --------------------------------------------------------------------------------------------------

POLAR_NAME = {"Normal": "Normal", "Uniform": "Uniform", "Exponential": "DistExp", "Gamma": "Gamma",
              "Laplace": "Laplace", "Beta": "Beta", "Bernoulli": "Bernoulli",
              "DiscreteUniform": "DiscreteUniform", "Categorical": "Categorical",
              "TruncNormal": "TruncNormal"}


def _mkdist(family, params):
    from program.distribution import distribution_factory
    return distribution_factory(POLAR_NAME[family], list(params))


def _num30(v):
    """(re, im) strings of a sympy number at 30 digits; None if it is not a finite number"""
    import sympy
    v = sympy.sympify(v)
    if v.free_symbols:
        return None
    z = sympy.N(v, 34)
    try:
        re_, im_ = z.as_real_imag()
    except Exception:
        return None
    if not (re_.is_Float or re_.is_Rational) or not (im_.is_Float or im_.is_Rational):
        return None
    if re_.has(sympy.nan) or im_.has(sympy.nan) or re_.is_infinite or im_.is_infinite:
        return None
    return [str(sympy.Float(re_, 34)), str(sympy.Float(im_, 34))]


def polar_moment(family, params, powers, modes=("exact", "rounded")):
    """value of FunctionalAssignment.get_func_moment(dist, powers) in the requested modes"""
    from program.assignment.functional_assignment import FunctionalAssignment as FA
    import sympy
    old = FA.exact_func_moments
    out = {}
    try:
        for mode in modes:
            FA.exact_func_moments = (mode == "exact")
            t0 = time.time()
            try:
                dist = _mkdist(family, params)
                r = FA.get_func_moment(dist, dict(powers))
                rs = sympy.sympify(r)
                rec = {"ok": True, "text": str(rs)[:160]}
                if rs.is_Rational:
                    rec["rational"] = f"{rs.p}/{rs.q}"
                num = _num30(rs)
                if num is None:
                    rec["ok"] = False
                    rec["kind"] = "not-a-number"
                else:
                    rec["re"], rec["im"] = num
                out[mode] = rec
            except Exception as e:  # noqa
                out[mode] = {"ok": False, "kind": "raise", "error": _exc(e)}
            out[mode]["secs"] = round(time.time() - t0, 3)
    finally:
        FA.exact_func_moments = old
    return out


def polar_moments(family, params, powers_list, modes=("exact", "rounded")):
    return [polar_moment(family, params, pw, modes) for pw in powers_list]


def const_moment(func, arg, k, exact):
    """FunctionalAssignment(var, func, arg).get_const_moment(k)"""
    from program.assignment.functional_assignment import FunctionalAssignment as FA
    import sympy
    old = FA.exact_func_moments
    FA.exact_func_moments = bool(exact)
    try:
        fa = FA("v", func, arg)
        r = sympy.sympify(fa.get_const_moment(k))
        rec = {"ok": True, "text": str(r)[:120]}
        if r.is_Rational:
            rec["rational"] = f"{r.p}/{r.q}"
        num = _num30(r)
        if num is None:
            return {"ok": False, "kind": "not-a-number", "text": str(r)[:120]}
        rec["re"], rec["im"] = num
        return rec
    except Exception as e:  # noqa
        return {"ok": False, "kind": "raise", "error": _exc(e)}
    finally:
        FA.exact_func_moments = old


# --------------------------------------------------------------------------------------------------
# independent oracle: quadrature of the defining integral (no Polar import)
# --------------------------------------------------------------------------------------------------

def _density(mp, family, P, PF):
    """returns ("disc", [(prob, value), …]) or ("cont", pdf, pieces) where pieces is a list of
    (lo, hi, sing_lo, sing_hi): integration pieces with the substitution order that removes an
    algebraic end-point singularity (None = smooth end)"""
    def sing(expo):
        # density ~ dist_to_endpoint ** (expo - 1); substitution x = end ± h u^m with m = denominator
        return None if expo is None or expo.denominator == 1 else expo.denominator
    if family == "Normal":
        mu, s2 = P
        sd = mp.sqrt(s2)
        return "cont", (lambda x: mp.exp(-(x - mu) ** 2 / (2 * s2)) / (sd * mp.sqrt(2 * mp.pi))), ("gauss", mu, sd)
    if family == "Uniform":
        a, b = P
        return "cont", (lambda x: 1 / (b - a)), ("finite", a, b, None, None)
    if family == "Exponential":
        (lam,) = P
        return "cont", (lambda x: lam * mp.exp(-lam * x)), ("right", mp.mpf(0), lam, None)
    if family == "Gamma":
        k, th = P
        c = 1 / (mp.gamma(k) * th ** k)
        return "cont", (lambda x: c * x ** (k - 1) * mp.exp(-x / th)), ("right", mp.mpf(0), 1 / th, sing(PF[0]))
    if family == "Laplace":
        mu, b = P
        return "cont", (lambda x: mp.exp(-abs(x - mu) / b) / (2 * b)), ("both", mu, 1 / b)
    if family == "Beta":
        al, be = P[0], P[1]
        sc = P[2] if len(P) > 2 else mp.mpf(1)
        c = 1 / (mp.beta(al, be) * sc)
        return "cont", (lambda x: c * (x / sc) ** (al - 1) * (1 - x / sc) ** (be - 1)), \
            ("finite", mp.mpf(0), sc, sing(PF[0]), sing(PF[1]))
    if family == "TruncNormal":
        mu, s2, a, b = P
        sd = mp.sqrt(s2)
        Z = mp.ncdf((b - mu) / sd) - mp.ncdf((a - mu) / sd)
        return "cont", (lambda x: mp.exp(-(x - mu) ** 2 / (2 * s2)) / (sd * mp.sqrt(2 * mp.pi) * Z)), \
            ("finite", a, b, None, None)
    if family == "Bernoulli":
        (p,) = P
        return "disc", [(1 - p, mp.mpf(0)), (p, mp.mpf(1))], None
    if family == "DiscreteUniform":
        a, b = int(P[0]), int(P[1])
        n = b - a + 1
        return "disc", [(mp.mpf(1) / n, mp.mpf(v)) for v in range(a, b + 1)], None
    if family == "Categorical":
        return "disc", [(p, mp.mpf(i)) for i, p in enumerate(P)], None
    raise ValueError(family)


def _integrate(mp, f, lo, hi, sing_lo=None, sing_hi=None, step=3, shift=0):
    """Gauss-Legendre on pieces of length <= step; end pieces with an algebraic singularity are
    integrated after x = lo + h u^m (resp. hi - h u^m).  Returns (value, error estimate)."""
    n = max(1, int(mp.ceil((hi - lo) / step))) + shift
    if (sing_lo or sing_hi) and n < 2:
        n = 2
    pts = mp.linspace(lo, hi, n + 1)
    total, err = mp.mpf(0), mp.mpf(0)
    first, last = 0, n
    if sing_lo:
        h = pts[1] - lo
        m = sing_lo
        v, e = mp.quad(lambda u: f(lo + h * u ** m) * h * m * u ** (m - 1), [0, 1], error=True,
                       method="gauss-legendre", maxdegree=9)
        total += v
        err += abs(e)
        first = 1
    if sing_hi:
        h = hi - pts[n - 1]
        m = sing_hi
        v, e = mp.quad(lambda u: f(hi - h * u ** m) * h * m * u ** (m - 1), [0, 1], error=True,
                       method="gauss-legendre", maxdegree=9)
        total += v
        err += abs(e)
        last = n - 1
    if last > first:
        v, e = mp.quad(f, pts[first:last + 1], error=True, method="gauss-legendre", maxdegree=9)
        total += v
        err += abs(e)
    return total, err


def _quad_one(mp, family, P, PF, a, b, c, d, shift=0):
    """E[X^a sin^b X cos^c X e^{dX}] with an error estimate; None if the moment does not exist"""
    kind, dens, shape = _density(mp, family, P, PF)

    def g(x):
        v = x ** a if a else mp.mpf(1)
        if b:
            v *= mp.sin(x) ** b
        if c:
            v *= mp.cos(x) ** c
        if d:
            v *= mp.exp(d * x)
        return v

    if kind == "disc":
        return sum(p * g(v) for p, v in dens), mp.mpf(0)
    pdf = dens
    f = lambda x: g(x) * pdf(x)
    tail = 96 + 7 * (a + 2)      # e^{-tail} * (polynomial growth) is far below 1e-36
    if shape[0] == "gauss":
        _, mu, sd = shape
        cen = mu + d * sd * sd
        return _integrate(mp, f, cen - 14 * sd, cen + 14 * sd, step=min(3, 3 * sd), shift=shift)
    if shape[0] == "finite":
        _, lo, hi, s1, s2 = shape
        return _integrate(mp, f, lo, hi, s1, s2, shift=shift)
    if shape[0] == "right":
        _, lo, rate, s1 = shape
        r = rate - d
        if r <= 0:
            return None
        return _integrate(mp, f, lo, lo + tail / r, s1, None, shift=shift)
    if shape[0] == "both":
        _, mu, rate = shape
        if abs(d) >= rate:
            return None
        v1, e1 = _integrate(mp, f, mu - tail / (rate + d), mu, shift=shift)
        v2, e2 = _integrate(mp, f, mu, mu + tail / (rate - d), shift=shift)
        return v1 + v2, e1 + e2
    raise ValueError(shape)


def _parse_param(mp, s):
    """"p/q" or "p/q+r/s*pi" -> (mpf, Fraction or None)"""
    from fractions import Fraction
    s = str(s).replace(" ", "")
    if "pi" in s:
        m = __import__("re").match(r"^(-?\d+(?:/\d+)?)\+(-?\d+(?:/\d+)?)\*pi$", s)
        if not m:
            raise ValueError("parameter " + s)
        r, q = Fraction(m.group(1)), Fraction(m.group(2))
        return mp.mpf(r.numerator) / r.denominator + mp.pi * q.numerator / q.denominator, None
    fr = Fraction(s)
    return mp.mpf(fr.numerator) / fr.denominator, fr


def quad_moments(family, params, exps, dps=42, double=True):
    """exps: list of [a,b,c,d].  Returns [{"value": str, "err": str} | {"missing": True}, …]; err is
    the larger of the quadrature's own estimate and the difference between two subdivisions."""
    import mpmath
    mp = mpmath.mp
    old = mp.dps
    mp.dps = dps
    try:
        pp = [_parse_param(mp, s) for s in params]
        P = [x[0] for x in pp]
        PF = [x[1] for x in pp]
        out = []
        for (a, b, c, d) in exps:
            r = _quad_one(mp, family, P, PF, int(a), int(b), int(c), int(d))
            if r is None:
                out.append({"missing": True})
                continue
            val, err = r
            if double:
                r2 = _quad_one(mp, family, P, PF, int(a), int(b), int(c), int(d), shift=2)
                err = max(abs(err), abs(val - r2[0]))
            out.append({"value": mpmath.nstr(val, 38, strip_zeros=False), "err": mpmath.nstr(abs(err), 5)})
        return out
    finally:
        mp.dps = old


def func_const_value(func, arg, k, dps=45):
    """f(arg)^k by mpmath (oracle of get_const_moment)"""
    import mpmath
    from fractions import Fraction
    mp = mpmath.mp
    old = mp.dps
    mp.dps = dps
    try:
        fr = Fraction(str(arg))
        x = mp.mpf(fr.numerator) / fr.denominator
        f = {"Sin": mp.sin, "Cos": mp.cos, "Exp": mp.exp}[func]
        return mpmath.nstr(f(x) ** int(k), 40, strip_zeros=False)
    finally:
        mp.dps = old


# --------------------------------------------------------------------------------------------------
# attribution helpers: the real code with ONE defect repaired in memory (never used for a verdict)
# --------------------------------------------------------------------------------------------------

def _defloat(p):
    """replace every machine float inside a symengine expression by the rational of its decimal text"""
    from symengine.lib.symengine_wrapper import sympify
    from sympy import Rational
    from symengine.lib.symengine_wrapper import sympy2symengine
    p = sympify(p)
    if getattr(p, "is_Float", False):
        return sympy2symengine(Rational(str(p)))
    rep = {}

    def walk(e):
        if getattr(e, "is_Float", False):
            rep[e] = sympy2symengine(Rational(str(e)))
            return
        for a in getattr(e, "args", ()):
            walk(a)

    walk(p)
    return p.xreplace(rep) if rep else p


def _apply_repairs(names):
    from program.assignment.functional_assignment import FunctionalAssignment as FA
    from program.distribution.distribution import Distribution
    undo = []
    if "floats" in names:
        orig_init = FA.__dict__["__init__"]
        orig_dinit = Distribution.__dict__["__init__"]

        def fa_init(self, var, func, argument):
            orig_init(self, var, func, argument)
            if self.argument.is_Number:
                self.argument = _defloat(self.argument)

        def d_init(self, parameters):
            orig_dinit(self, [_defloat(p) for p in parameters])

        FA.__init__ = fa_init
        Distribution.__init__ = d_init
        undo.append(lambda: setattr(FA, "__init__", orig_init))
        undo.append(lambda: setattr(Distribution, "__init__", orig_dinit))
    return undo


def analyze_repaired(text, goals, nmax=3, settings=None, repairs=()):
    """harness.tasks.analyze.analyze with the named defects repaired in memory"""
    from harness.tasks.analyze import analyze
    undo = _apply_repairs(list(repairs))
    try:
        return analyze(text, goals, nmax=nmax, settings=settings)
    finally:
        for u in reversed(undo):
            u()


def func_moment_repaired(family, params, powers, repairs=()):
    """get_func_moment on a real distribution with a repair: outcome only"""
    from program.assignment.functional_assignment import FunctionalAssignment as FA
    undo = _apply_repairs(list(repairs))
    try:
        try:
            FA.get_func_moment(_mkdist(family, params), dict(powers))
            return {"raised": False}
        except Exception as e:  # noqa
            return {"raised": True, "error": _exc(e)}
    finally:
        for u in reversed(undo):
            u()


def const_moment_repaired(func, arg, k, exact, repairs=("floats",)):
    undo = _apply_repairs(list(repairs))
    try:
        return const_moment(func, arg, k, exact)
    finally:
        for u in reversed(undo):
            u()
