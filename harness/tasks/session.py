"""Worker-side: several analyses in ONE process, in a given order (C20)."""
import re

from .analyze import analyze


def _canon_names(names):
    """map generated auxiliary names (_old3, _t12, _x1 ...) to history-independent ones"""
    groups = {}
    for nm in names:
        m = re.fullmatch(r"_([A-Za-z]+?)(\d+)", nm)
        if m:
            groups.setdefault(m.group(1), []).append((int(m.group(2)), nm))
    mapping = {}
    for pre, lst in groups.items():
        for rank, (_, nm) in enumerate(sorted(lst)):
            mapping[nm] = f"_{pre}#{rank}"
    return mapping


def summarize(res):
    out = {"accepted": res.get("accepted")}
    if not res.get("accepted"):
        e = res.get("error", {})
        out["error"] = [e.get("stage"), e.get("etype"), e.get("func")]
        return out
    td = res.get("typedefs", {})
    mp = _canon_names(list(td.keys()))
    # renamed versions of source variables (_x1) keep their base name
    out["types"] = sorted((mp.get(k, k), sorted(v)) for k, v in td.items())
    goals = []
    for g in res.get("goals", []):
        if g.get("ok"):
            goals.append({"mono": g["mono"], "values": g["values"], "exact": g["exact"]})
        else:
            e = g.get("error", {})
            goals.append({"mono": g["mono"], "error": [e.get("stage"), e.get("etype"), e.get("func")]})
    out["goals"] = sorted(goals, key=lambda x: str(x["mono"]))
    return out


def session(jobs):
    """jobs: list of {key, text, goals, subs, nmax, settings, force_cyclic}; returns {key: summary} in run order"""
    out = []
    for j in jobs:
        try:
            r = analyze(j["text"], j["goals"], j.get("subs"), j.get("nmax", 4), j.get("settings"),
                        j.get("force_cyclic", False))
            out.append([j["key"], summarize(r)])
        except Exception as e:  # noqa
            out.append([j["key"], {"crash": type(e).__name__}])
    return out
