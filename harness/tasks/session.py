"""Worker-side: several analyses in ONE process, in a given order (C20)."""
import re

from .analyze import analyze


def _canon_names(names):
    """map generated auxiliary names (_old3, _t12, _x1 ...) to history-independent ones"""
    groups = {}
    for nm in names:
        m = re.fullmatch(r"_([A-Za-z]+?)(\d+)", nm)
        if m:
            groups.setdefault(m.group(1), []).append((int(m.group(2)), nm))
    mapping = {}
    for pre, lst in groups.items():
        for rank, (_, nm) in enumerate(sorted(lst)):
            mapping[nm] = f"_{pre}#{rank}"
    return mapping


def alpha_canonical(pj):
    """the normalised program (model AST) with its generated auxiliary names replaced, in order of first occurrence, by
    history-independent ones; two programs with equal canonical forms are injective renamings of each other that fix every
    source name (hypotheses of Polar.Ren.aux_names_irrelevant)"""
    import json
    if pj is None:
        return None
    text = json.dumps(pj)
    mapping = {}

    def sub(m):
        nm = m.group(1)
        if nm not in mapping:
            pre = re.fullmatch(r"_([A-Za-z]+?)(\d+)", nm).group(1)
            mapping[nm] = f"_{pre}#{sum(1 for v in mapping.values() if v.startswith('_' + pre + '#'))}"
        return '"' + mapping[nm] + '"'
    return re.sub(r'"(_[A-Za-z]+?\d+)"', sub, text)


def summarize(res):
    out = {"accepted": res.get("accepted")}
    if not res.get("accepted"):
        e = res.get("error", {})
        out["error"] = [e.get("stage"), e.get("etype"), e.get("func")]
        return out
    td = res.get("typedefs", {})
    mp = _canon_names(list(td.keys()))
    # renamed versions of source variables (_x1) keep their base name
    out["types"] = sorted((mp.get(k, k), sorted(v)) for k, v in td.items())
    if "program_json" in res:
        out["program"] = alpha_canonical(res["program_json"])
    goals = []
    for g in res.get("goals", []):
        if g.get("ok"):
            goals.append({"mono": g["mono"], "values": g["values"], "exact": g["exact"]})
        else:
            e = g.get("error", {})
            goals.append({"mono": g["mono"], "error": [e.get("stage"), e.get("etype"), e.get("func")]})
    out["goals"] = sorted(goals, key=lambda x: str(x["mono"]))
    return out


def session(jobs):
    """jobs: list of {key, text, goals, subs, nmax, settings, force_cyclic}; returns {key: summary} in run order"""
    out = []
    for j in jobs:
        try:
            r = analyze(j["text"], j["goals"], j.get("subs"), j.get("nmax", 4), j.get("settings"),
                        j.get("force_cyclic", False), want_program_json=True)
            out.append([j["key"], summarize(r)])
        except Exception as e:  # noqa
            out.append([j["key"], {"crash": type(e).__name__}])
    return out
