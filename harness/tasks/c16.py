"""C16 worker-side tasks: drive `invariants.exponent_lattice.ExponentLattice` of the working tree.

All functions return plain JSON-able data.  Nothing here judges the result; the verdicts come from
polar-model (ops lattice_check / lattice_check_quad / span_check)."""
from fractions import Fraction as Fr


# ------------------------------------------------------------------------------------------------
# building sympy numbers
# ------------------------------------------------------------------------------------------------

def _rat(s, how):
    """a rational given as "p/q" turned into a sympy number in one of the ways callers do"""
    import sympy
    f = Fr(s)
    if how == "sympify":                       # what tests/test_exponent_lattice.py does
        return sympy.sympify(s)
    if how == "Rational":
        return sympy.Rational(f.numerator, f.denominator)
    if how == "Integer" and f.denominator == 1:
        return sympy.Integer(f.numerator)
    if how == "div":                           # Integer / Integer
        return sympy.Integer(f.numerator) / sympy.Integer(f.denominator)
    return sympy.Rational(f.numerator, f.denominator)


def _quad(a, b, D):
    """a + b*sqrt(D) as a sympy expression (sqrt(-1) = I)"""
    import sympy
    a = sympy.Rational(Fr(a).numerator, Fr(a).denominator)
    b = sympy.Rational(Fr(b).numerator, Fr(b).denominator)
    return a + b * sympy.sqrt(sympy.Integer(D))


def _plain(basis):
    """list of lists of python ints, or a description of what is wrong with the shape"""
    out = []
    for row in basis:
        r = []
        for x in row:
            if isinstance(x, bool) or not isinstance(x, int):
                xi = int(x)
                if xi != x:
                    raise ValueError(f"non-integer entry {x!r} in basis")
                x = xi
            r.append(int(x))
        out.append(r)
    return out


def _branch(lat):
    try:
        if lat.is_trivially_empty():
            return "trivial"
        if all([b.is_rational for b in lat.bases]):
            return "rational"
        return "kauers"
    except Exception:
        return "?"


def _one(bases):
    from invariants.exponent_lattice import ExponentLattice
    lat = ExponentLattice(list(bases))
    try:
        basis = lat.compute_basis()
        return {"status": "ok", "basis": _plain(basis), "branch": _branch(lat)}
    except Exception as e:  # noqa
        import traceback
        tb = traceback.extract_tb(e.__traceback__)
        return {"status": "error", "etype": type(e).__name__, "message": str(e)[:300],
                "where": tb[-1].name if tb else "?", "branch": _branch(lat)}


# ------------------------------------------------------------------------------------------------
# tasks
# ------------------------------------------------------------------------------------------------

def rational_batch(cases):
    """cases: [{"bases": ["p/q", ...], "how": "sympify"|...}] -> one outcome per case"""
    out = []
    for c in cases:
        bs = [_rat(s, c.get("how", "sympify")) for s in c["bases"]]
        out.append(_one(bs))
    return out


def quad_batch(cases):
    """cases: [{"D": int, "bases": [[a, b], ...]}]  (a + b*sqrt(D))"""
    out = []
    for c in cases:
        bs = [_quad(a, b, c["D"]) for a, b in c["bases"]]
        r = _one(bs)
        r["exprs"] = [str(b) for b in bs]
        out.append(r)
    return out


def _is_one_exact(expr):
    """exact decision expr == 1 for an algebraic number"""
    import sympy
    x = sympy.Symbol("x")
    e = sympy.expand(expr)
    if e == 1:
        return True
    if e.is_Rational:
        return False
    mp = sympy.minimal_polynomial(e, x, polys=True)
    return mp.degree() == 1 and mp.eval(1) == 0


def expr_case(exprs, bound):
    """general algebraic bases given as sympy expression strings.  Returns the code's basis, the exact
    soundness of each row (sympy minimal_polynomial) and all exponent vectors in the box
    [-bound, bound]^k that satisfy the relation (numeric filter at 60 digits, then exact)."""
    import itertools
    import sympy
    bs = [sympy.sympify(s) for s in exprs]
    r = _one(bs)
    if r["status"] != "ok":
        return r
    k = len(bs)

    def prod(e):
        p = sympy.Integer(1)
        for b, x in zip(bs, e):
            p = p * b ** x
        return p

    r["sound"] = [len(row) == k and _is_one_exact(prod(row)) for row in r["basis"]]
    logs = [sympy.log(b).evalf(80) for b in bs]
    twopi = (2 * sympy.pi).evalf(80)
    rel = []
    for e in itertools.product(range(-bound, bound + 1), repeat=k):
        s = sum(l * x for l, x in zip(logs, e))
        re, im = sympy.re(s), sympy.im(s)
        if abs(re) > 1e-40:
            continue
        t = im / twopi
        if abs(t - round(t)) > 1e-40:
            continue
        if _is_one_exact(prod(e)):
            rel.append(list(e))
    r["box_relations"] = rel
    return r


# ------------------------------------------------------------------------------------------------
# constructed-relation family: bases  sign_i * g**a_i * h**b_i  for multiplicatively independent,
# positive real, non-torsion generators g, h; the exact lattice is the integer kernel of the exponent
# rows (plus parity), whatever the size of the exponents
# ------------------------------------------------------------------------------------------------

GENERATORS = {          # name: (expression, inverse)
    "sqrt2": ("sqrt(2)", "sqrt(2)/2"),
    "1+sqrt2": ("1 + sqrt(2)", "sqrt(2) - 1"),
    "phi": ("(1 + sqrt(5))/2", "(sqrt(5) - 1)/2"),
    "2+sqrt3": ("2 + sqrt(3)", "2 - sqrt(3)"),
    "sqrt3": ("sqrt(3)", "sqrt(3)/3"),
    "sqrt5": ("sqrt(5)", "sqrt(5)/5"),
    "2": ("2", "1/2"),
    "3": ("3", "1/3"),
    "5": ("5", "1/5"),
}


def _gpow(name, a):
    import sympy
    g, ginv = (sympy.sympify(x) for x in GENERATORS[name])
    return sympy.expand(g ** a) if a >= 0 else sympy.expand(ginv ** (-a))


def constructed_case(g, h, a, b, signs):
    import sympy
    bs = []
    for i in range(len(a)):
        v = _gpow(g, a[i])
        if h is not None:
            v = sympy.expand(v * _gpow(h, b[i]))
        bs.append(sympy.expand(signs[i] * v))
    r = _one(bs)
    r["exprs"] = [str(x)[:120] for x in bs]
    return r
