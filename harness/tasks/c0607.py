"""C06 / C07 worker-side tasks: drive `invariants.InvariantIdeal` (directly, and through
`cli.actions.goals_action.GoalsAction` with `--invariants`) of the working tree and prepare the
certificates that polar-model decides.

Nothing here judges: returned are the reported basis (as polynomials over the goal names), the exact
term lists of the goal closed forms, the number of special cases, and - for C07 - *proposals*: a kernel
basis of the evaluation matrix of all monomials of degree <= k with pivots, and cofactors of every
kernel vector w.r.t. the reported basis (sympy `reduced`).  Lean checks all of them."""
import contextlib
import io
from fractions import Fraction as Fr

from .. import c0607_lib as L
from .analyze import _reset_settings, _err
from .solve import _as_qd, _radicands

S_NAME = "_S"     # pseudo goal standing for sqrt(D) when a basis polynomial has coefficients in Q(sqrt D)


def _n():
    import sympy
    return sympy.Symbol("n", integer=True)


def parse_cf(src):
    import sympy
    return sympy.sympify(src).xreplace({sympy.Symbol("n"): _n()})


def max_special_case(expr):
    """largest k such that a Piecewise condition of the closed form mentions `n <= k` (-1: none).
    Unlike utils.get_max_case_in_piecewise this also looks inside Or(...) conditions."""
    import sympy
    k = -1
    for pw in expr.atoms(sympy.Piecewise):
        for _, cond in pw.args:
            if cond in (True, sympy.true):
                continue
            for rel in cond.atoms(sympy.core.relational.Relational):
                if isinstance(rel, sympy.LessThan) and rel.args[0] == _n() and rel.args[1].is_Integer:
                    k = max(k, int(rel.args[1]))
                elif isinstance(rel, sympy.StrictLessThan) and rel.args[0] == _n() and rel.args[1].is_Integer:
                    k = max(k, int(rel.args[1]) - 1)
                elif isinstance(rel, sympy.Equality) and rel.args[0] == _n() and rel.args[1].is_Integer:
                    k = max(k, int(rel.args[1]))
                else:
                    raise ValueError(f"special-case condition not understood: {rel}")
    return k


def term_shape(expr):
    """exponential polynomial in n -> [(coef, deg, base)] (sympy); like tasks.solve.term_shape but a
    rational factor in the exponent is allowed (2**(n/2) has base sqrt(2))"""
    import sympy
    n = _n()
    e = sympy.expand(sympy.expand_power_base(sympy.expand(expr), force=True))
    e = sympy.expand(sympy.powsimp(e, combine="exp"))
    e = sympy.expand(e, power_exp=True, power_base=True)
    out = []
    for term in sympy.Add.make_args(e):
        coef, deg, base = sympy.Integer(1), 0, sympy.Integer(1)
        for f in sympy.Mul.make_args(term):
            if not f.has(n):
                coef *= f
            elif f == n:
                deg += 1
            elif f.is_Pow and f.base == n and f.exp.is_Integer and f.exp > 0:
                deg += int(f.exp)
            elif f.is_Pow and not f.base.has(n):
                ex = sympy.expand(f.exp)
                c1, c0 = ex.coeff(n, 1), ex.coeff(n, 0)
                if sympy.expand(ex - c1 * n - c0) != 0 or not c1.is_Rational or c0.has(n):
                    raise ValueError(f"exponent not linear in n: {f}")
                base *= f.base ** c1
                coef *= f.base ** c0
            else:
                raise ValueError(f"factor not of exponential-polynomial form: {f}")
        out.append((coef, deg, base))
    return out


def _num_json(x, D):
    import sympy
    x = sympy.nsimplify(x) if False else x
    if D is None:
        x = sympy.simplify(x) if not x.is_Rational else x
        if not x.is_Rational:
            return None
        return f"{x.p}/{x.q}"
    if x.is_Rational:
        return [f"{x.p}/{x.q}", "0"]
    q = _as_qd(sympy.simplify(x), D)
    return None if q is None else [q[0], q[1]]


def closed_form_terms(exprs):
    """general parts (sympy, Piecewise already unpacked) -> (D, [term list JSON per expr]) or raises"""
    shapes = [term_shape(e) for e in exprs]
    rads = set()
    for sh in shapes:
        for c, _, b in sh:
            rads |= _radicands(c) | _radicands(b)
    if len(rads) > 1:
        raise ValueError(f"more than one radicand: {sorted(rads)}")
    D = next(iter(rads)) if rads else None
    out = []
    for sh in shapes:
        ts = []
        for c, d, b in sh:
            cj, bj = _num_json(c, D), _num_json(b, D)
            if cj is None or bj is None:
                raise ValueError(f"number outside Q(sqrt {D}): {c} | {b}")
            ts.append({"coef": cj, "deg": int(d), "base": bj})
        out.append(ts)
    return D, out


def _sym_value_matches(expr, n, F, val):
    """sympy's exact value of expr at n equals the pair value `val`"""
    import sympy
    v = expr.xreplace({_n(): sympy.Integer(n)})
    want = sympy.Rational(val[0].numerator, val[0].denominator)
    if F.n == 2:
        want = want + sympy.Rational(val[1].numerator, val[1].denominator) * sympy.sqrt(sympy.Integer(int(F.D)))
    d = sympy.simplify(sympy.expand(v - want))
    if d == 0:
        return True
    try:
        return bool(sympy.expand(d, complex=True) == 0 or sympy.minimal_polynomial(d, sympy.Symbol("zz")) == sympy.Symbol("zz"))
    except Exception:
        return False


def poly_json(expr, goal_syms, goal_names, D):
    """sympy polynomial in the goal symbols -> JSON polynomial over goal names (+ S_NAME for sqrt D)"""
    import sympy
    p = sympy.Poly(sympy.expand(expr), *goal_syms)
    out = []
    irr = False
    for mon, c in p.terms():
        c = sympy.simplify(c)
        m = [[g, int(e)] for g, e in zip(goal_names, mon) if e]
        if c.free_symbols:
            raise ValueError(f"symbolic coefficient {c}")
        if c.is_Rational:
            out.append([m, f"{c.p}/{c.q}"])
            continue
        if D is None:
            rs = _radicands(c)
            raise ValueError(f"irrational coefficient {c} (radicands {sorted(rs)}) with rational closed forms")
        q = _as_qd(c, D)
        if q is None:
            raise ValueError(f"coefficient outside Q(sqrt {D}): {c}")
        irr = True
        if Fr(q[0]) != 0:
            out.append([m, q[0]])
        if Fr(q[1]) != 0:
            out.append([m + [[S_NAME, 1]], q[1]])
    return out, irr


def json_to_sympy(p, symmap):
    import sympy
    e = sympy.Integer(0)
    for m, c in p:
        f = Fr(c)
        t = sympy.Rational(f.numerator, f.denominator)
        for g, k in m:
            t *= symmap[g] ** int(k)
        e += t
    return e


def sympy_to_json_q(expr, goal_syms, goal_names):
    import sympy
    p = sympy.Poly(sympy.expand(expr), *goal_syms, domain="QQ")
    return [[[[g, int(e)] for g, e in zip(goal_names, mon) if e], f"{sympy.Rational(c).p}/{sympy.Rational(c).q}"]
            for mon, c in p.terms()]


# ------------------------------------------------------------------------------------------------
# the common back end: closed forms (sympy) + reported basis -> everything Lean needs
# ------------------------------------------------------------------------------------------------

def _run_ideal(closed_forms, res):
    """InvariantIdeal(closed_forms).compute_basis(); records bases / lattice / errors"""
    from invariants import InvariantIdeal
    from invariants.exponent_lattice import ExponentLattice
    try:
        ideal = InvariantIdeal(closed_forms)
        res["bases"] = [str(b) for b in ideal.base_to_symbol.keys()]
        if all(b.is_Rational for b in ideal.base_to_symbol.keys()):
            res["bases_q"] = [f"{b.p}/{b.q}" for b in ideal.base_to_symbol.keys()]
        try:
            lat = ExponentLattice(list(ideal.base_to_symbol.keys())).compute_basis()
            res["lattice"] = [[int(x) for x in row] for row in lat]
        except Exception as e:  # noqa
            res["lattice_error"] = _err(e, "lattice")
        basis = ideal.compute_basis()
        return list(basis)
    except Exception as e:  # noqa
        res["refused"] = _err(e, "invariant-ideal")
        return None


def _prepare(goal_names, cf_exprs, basis, res, want_c07, k_min, k_extra, caps, nocheck_values=False):
    """fills res with cfs/D/n0/basis polys (C06) and the kernel certificates (C07)"""
    import sympy
    from utils import unpack_piecewise
    n = _n()
    extra = set()
    for e in cf_exprs:
        extra |= (e.free_symbols - {n})
    if extra:
        res["status"] = "symbolic"
        res["symbols"] = sorted(str(s) for s in extra)
        return res
    try:
        res["n0"] = 1 + max([max_special_case(e) for e in cf_exprs] + [-1])
        generals = [unpack_piecewise(e) for e in cf_exprs]
        D, tjs = closed_form_terms(generals)
    except Exception as e:  # noqa
        res["status"] = "unsupported-shape"
        res["detail"] = str(e)[:300]
        return res
    res["D"] = None if D is None else str(D)
    res["cfs"] = [[g, ts] for g, ts in zip(goal_names, tjs)]
    F = L.Field(D)
    cfs = {g: L.norm_terms(F, L.parse_terms(F, ts)) for g, ts in zip(goal_names, tjs)}
    n0 = res["n0"]
    # guard the extraction itself: the term lists reproduce sympy's exact values of the closed forms
    if not nocheck_values:
        for g, e in zip(goal_names, generals):
            for k in (n0, n0 + 1, n0 + 3):
                if not _sym_value_matches(e, k, F, L.eval_terms(F, cfs[g], k)):
                    res["status"] = "shape-mismatch"
                    res["detail"] = f"{g} at n={k}"
                    return res
    goal_syms = [sympy.Symbol(g) for g in goal_names]
    stray = set()
    for b in basis:
        stray |= (b.free_symbols - set(goal_syms))
    if stray:
        res["status"] = "basis-has-foreign-symbols"
        res["detail"] = sorted(str(s) for s in stray)
        return res
    polys, irr_any = [], False
    try:
        for b in basis:
            pj, irr = poly_json(b, goal_syms, goal_names, D)
            polys.append(pj)
            irr_any = irr_any or irr
    except Exception as e:  # noqa
        res["status"] = "unsupported-basis"
        res["detail"] = str(e)[:300]
        return res
    res["basis"] = polys
    res["basis_str"] = [str(b) for b in basis]
    res["irrational_basis"] = irr_any
    if irr_any:
        res["cfs_ext"] = res["cfs"] + [[S_NAME, [{"coef": ["0", "1"], "deg": 0, "base": ["1", "0"]}]]]
    res["status"] = "ok"
    if not want_c07:
        return res
    # ---------------- C07 proposals ----------------
    c07 = {}
    res["c07"] = c07
    if irr_any:
        c07["status"] = "skipped-irrational-basis"
        return res
    maxdeg = max([L.poly_degree(p) for p in polys] + [0])
    k = max(k_min, maxdeg) + k_extra
    goals = list(goal_names)

    def size(k):
        ms = L.monos_up_to(goals, k)
        W = L.shape_size([L.subst_mono(F, cfs, m) for m in ms])
        return ms, W
    monos, W = size(k)
    while (len(monos) > caps["cols"] or W > caps["window"]) and k > max(maxdeg, 1):
        k -= 1
        monos, W = size(k)
    c07["k"] = k
    c07["ncols"] = len(monos)
    c07["window"] = W
    if len(monos) > caps["cols"] or W > caps["window"]:
        c07["status"] = "skipped-large"
        return res
    rows = L.eval_matrix(F, cfs, goals, monos, n0, W)
    B, free, pivR, pivC = L.kernel_with_pivots(rows, len(monos))
    c07["kernel_dim"] = len(B)
    if len(B) > caps["kernel"]:
        c07["status"] = "skipped-large"
        return res
    kernel_polys = [L.poly_of_vec(monos, v) for v in B]
    c07["kernel"] = kernel_polys
    c07["free"] = [[[g, int(e)] for g, e in monos[j]] for j in free]
    c07["pivC"] = [[[g, int(e)] for g, e in monos[j]] for j in pivC]
    c07["pivR"] = pivR
    symmap = {g: s for g, s in zip(goal_names, goal_syms)}
    cofs, candidates, notes = [], [], []
    G = None
    for qj in kernel_polys:
        q = json_to_sympy(qj, symmap)
        if not basis:
            cofs.append([])
            candidates.append(qj)
            continue
        Q, r = sympy.reduced(q, list(basis), *goal_syms, order="lex", domain="QQ")
        if r == 0:
            cofs.append([sympy_to_json_q(c, goal_syms, goal_names) for c in Q])
            continue
        # the reported set may fail to be a Groebner basis for this order: decide membership properly
        if G is None:
            G = sympy.groebner(list(basis), *goal_syms, order="grevlex", domain="QQ")
        if G.contains(q):
            notes.append("member-by-groebner-only")
            cofs.append(None)
        else:
            cofs.append(None)
            candidates.append(qj)
    c07["cofs"] = cofs
    c07["candidates"] = candidates
    c07["notes"] = notes
    c07["status"] = "ok"
    return res


DEFAULT_CAPS = {"cols": 60, "window": 160, "kernel": 45}


def tuple_case(cfs, want_c07=False, k_min=3, k_extra=0, caps=None):
    """cfs: [[goal, sympy source in n], ..] -> InvariantIdeal(dict).compute_basis() + certificates"""
    res = {"kind": "tuple"}
    caps = dict(DEFAULT_CAPS, **(caps or {}))
    goal_names = [g for g, _ in cfs]
    exprs = [parse_cf(s) for _, s in cfs]
    res["closed_forms"] = [str(e) for e in exprs]
    basis = _run_ideal({g: e for g, e in zip(goal_names, exprs)}, res)
    if basis is None:
        res["status"] = "refused"
        return res
    return _prepare(goal_names, exprs, basis, res, want_c07, k_min, k_extra, caps)


def _cli_args(goals):
    from cli.argument_parser import ArgumentParser
    ap = ArgumentParser().argument_parser
    argv = ["case.prob", "--invariants"] + (["--goals", *goals] if goals else [])
    return ap.parse_args(argv)


def _printed_lines(out):
    """the lines `<poly> = 0` of the section 'Invariants' of the CLI output ([]: 'no invariants' message;
    None: section missing)"""
    if "-   Invariants    -" not in out:
        return None
    sec = out.split("-   Invariants    -", 1)[1]
    if "There are not polynomial invariants" in sec:
        return []
    if "Following is a gr" not in sec:
        return None
    lines = [l.strip() for l in sec.split("Following is a gr", 1)[1].split("\n")[1:]]
    return [l[:-3].strip() for l in lines if l.endswith("= 0")]


def _ids_unambiguous(ids):
    """goal identifiers that can be told apart inside a printed polynomial: plain names or E(..)/ck(..)/kk(..)"""
    import re
    return all(re.fullmatch(r"[A-Za-z_]\w*", g) or re.fullmatch(r"(E|[ck]\d+)\(.*\)", g) for g in ids)


def _parse_printed(lines, ids):
    """printed polynomials -> sympy polynomials over placeholder symbols"""
    import sympy
    polys = []
    order = sorted(range(len(ids)), key=lambda i: -len(ids[i]))
    for body in lines:
        for i in order:
            body = body.replace(ids[i], f"GOAL{i}_")
        polys.append(sympy.sympify(body, rational=True))
    return polys


def program_case(text, goals, want_c07=False, k_min=3, k_extra=0, caps=None, subs=None,
                 want_matrix=True):
    """Run `--invariants` through GoalsAction in-process on program `text` with CLI goal strings
    (`goals` empty: the CLI default, E(v) for every original variable)."""
    import sympy
    _reset_settings()
    res = {"kind": "program"}
    caps = dict(DEFAULT_CAPS, **(caps or {}))
    try:
        from inputparser import Parser
        program = Parser().parse_string(text)
        from program import normalize_program
        program = normalize_program(program)
    except Exception as e:  # noqa
        res["status"] = "refused"
        res["refused"] = _err(e, "parse/normalize")
        return res
    import cli.actions.goals_action as GA
    from recurrences import RecBuilder
    args = _cli_args(goals)
    captured = {}
    Orig = GA.InvariantIdeal

    class Spy(Orig):
        def __init__(self, closed_forms):
            captured["closed_forms"] = dict(closed_forms)
            super().__init__(closed_forms)
            captured["bases"] = list(self.base_to_symbol.keys())

        def compute_basis(self):
            try:
                from invariants.exponent_lattice import ExponentLattice
                lat = ExponentLattice(list(self.base_to_symbol.keys())).compute_basis()
                captured["lattice"] = [[int(x) for x in row] for row in lat]
            except Exception:  # noqa
                pass
            b = super().compute_basis()
            captured["basis"] = list(b)
            return b

    buf = io.StringIO()
    try:
        GA.InvariantIdeal = Spy
        action = GA.GoalsAction(args)
        action.initialize_program(program, RecBuilder(program))
        with contextlib.redirect_stdout(buf):
            action.handle_all_goals()
    except Exception as e:  # noqa
        res["status"] = "refused"
        res["refused"] = _err(e, "goals-action")
        res["have_closed_forms"] = "closed_forms" in captured
        _reset_settings()
        return res
    finally:
        GA.InvariantIdeal = Orig
    out = buf.getvalue()
    if "basis" not in captured:
        res["status"] = "no-invariant-section"
        _reset_settings()
        return res
    ids = list(captured["closed_forms"].keys())
    res["goal_ids"] = ids
    res["probabilistic"] = bool(program.is_probabilistic)
    exprs = [sympy.sympify(captured["closed_forms"][g]) for g in ids]
    exprs = [e.xreplace({sympy.Symbol("n"): _n()}) for e in exprs]
    res["closed_forms"] = [str(e)[:400] for e in exprs]
    res["bases"] = [str(b) for b in captured["bases"]]
    if "lattice" in captured:
        res["lattice"] = captured["lattice"]
    if all(b.is_Rational for b in captured["bases"]):
        res["bases_q"] = [f"{b.p}/{b.q}" for b in captured["bases"]]
    try:
        from utils import get_max_case_in_piecewise
        res["polar_max_case"] = [int(get_max_case_in_piecewise(e)) for e in exprs]
    except Exception:
        pass
    basis = captured["basis"]
    # the printed section must be the computed basis (covers handle_invariants' printing glue): textually
    # (every basis element printed once as `str(b) = 0`, nothing else) and - where the goal identifiers can be
    # told apart inside a printed polynomial - also after parsing the text back
    try:
        lines = _printed_lines(out)
        if lines is None:
            res["printed_ok"] = False
            res["printed_detail"] = "section not found"
        else:
            res["printed_ok"] = sorted(lines) == sorted(str(b) for b in basis)
            if not res["printed_ok"]:
                res["printed_detail"] = out[-1500:]
            elif _ids_unambiguous(ids):
                ph = {sympy.Symbol(g): sympy.Symbol(f"GOAL{i}_") for i, g in enumerate(ids)}
                want = [sympy.expand(b.xreplace(ph)) for b in basis]
                got = [sympy.expand(p) for p in _parse_printed(lines, ids)]
                res["printed_ok"] = (len(want) == len(got)
                                     and all(any(sympy.expand(w - g) == 0 for g in got) for w in want))
                if not res["printed_ok"]:
                    res["printed_detail"] = out[-1500:]
            else:
                res["ambiguous_ids"] = True
    except Exception as e:  # noqa
        res["printed_ok"] = False
        res["printed_detail"] = "unparseable: " + str(e)[:200]
    if subs:
        sm = {}
        for e in exprs:
            for s in e.free_symbols:
                if s.name in subs:
                    f = Fr(subs[s.name])
                    sm[s] = sympy.Rational(f.numerator, f.denominator)
        if sm:
            exprs = [e.xreplace(sm) for e in exprs]
            basis = [b.xreplace(sm) for b in basis]
            res["substituted"] = sorted(str(s) for s in sm)
            want_c07 = False      # the ideal over Q(parameters) is not the ideal at a point
    # closed forms of raw-moment goals against Polar's own linear system (A, v): decided by cfinite_check
    if want_matrix:
        res["systems"] = _systems(program, goals, ids, subs)
    res = _prepare(ids, exprs, basis, res, want_c07, k_min, k_extra, caps, nocheck_values=False)
    _reset_settings()
    return res


def _systems(program, goals, ids, subs):
    """for each goal the linear systems behind it: E(M): the recurrence matrix, initial vector and index of
    M (decided for all n by cfinite_check); ck(M) / kk(M): the systems of the raw moments E(M^j), j <= k, from
    which the check recomputes the central moment / cumulant sequence independently of the goal glue"""
    import sympy
    out = []
    try:
        from inputparser import GoalParser, MOMENT, CENTRAL, CUMULANT
        from recurrences import RecBuilder
        rb = RecBuilder(program)
        gl = goals or [f"E({v})" for v in program.original_variables]

        def system(monom):
            recs = rb.get_recurrences(monom)
            A, v = recs.recurrence_matrix, recs.init_values_vector
            sm = {}
            for s in (A.free_symbols | v.free_symbols):
                if subs and s.name in subs:
                    f = Fr(subs[s.name])
                    sm[s] = sympy.Rational(f.numerator, f.denominator)
            A, v = A.xreplace(sm), v.xreplace(sm)
            if A.free_symbols or v.free_symbols or A.shape[0] > 40:
                return None
            if not all(x.is_Rational for x in A) or not all(x.is_Rational for x in v):
                return None
            mons = [sympy.sympify(m) for m in recs.monomials]
            target = sympy.sympify(monom)
            if target not in mons:
                return None
            return {"i": mons.index(target),
                    "A": [[f"{x.p}/{x.q}" for x in A.row(i)] for i in range(A.shape[0])],
                    "v": [f"{x.p}/{x.q}" for x in v]}
        for gid, gstr in zip(ids, gl):
            gtype, gdata = GoalParser.parse(gstr)
            if gtype == MOMENT:
                sy = system(gdata[0])
                if sy:
                    out.append(dict(sy, goal=gid, kind="E"))
            elif gtype in (CENTRAL, CUMULANT):
                order, monom = int(gdata[0]), gdata[1]
                if order > 6:
                    continue
                raws = [system(monom ** j) for j in range(1, order + 1)]
                if all(raws):
                    out.append({"goal": gid, "kind": "c" if gtype == CENTRAL else "k", "order": order, "raws": raws})
    except Exception as e:  # noqa
        out.append({"error": _err(e, "systems")})
    return out
