"""Worker-side tasks of C11 (central moments, cumulants, tail bounds, expansions).

Everything here runs inside a worker process (cwd=/repo, the real Polar modules importable) and
returns plain JSON-able data; rationals travel as "p/q" strings."""
import contextlib
import io
import re
from fractions import Fraction as Fr

from .analyze import _reset_settings, _err, eval_closed_form, to_rational


def _q(v):
    f = Fr(v)
    return f"{f.numerator}/{f.denominator}"


def _sym_rat(s):
    import sympy
    f = Fr(s)
    return sympy.Rational(f.numerator, f.denominator)


# ------------------------------------------------------------------------------------------------
# (a) function level: raw_moments_to_centrals / raw_moments_to_cumulants
# ------------------------------------------------------------------------------------------------

def convert(moments, flavour="sympy"):
    """moments: ["p/q", ...] = m_1..m_N.  Returns the dicts of the two functions as lists (index k-1)."""
    import sympy
    from utils import raw_moments_to_centrals, raw_moments_to_cumulants
    if flavour == "symengine":
        import symengine
        ms = {i + 1: symengine.Rational(Fr(m).numerator, Fr(m).denominator) for i, m in enumerate(moments)}
    else:
        ms = {i + 1: _sym_rat(m) for i, m in enumerate(moments)}
    if flavour == "reversed":
        # the CLI builds the dict in the order N..1 (get_all_moments)
        ms = {k: ms[k] for k in sorted(ms, reverse=True)}
    cen = raw_moments_to_centrals(dict(ms))
    cum = raw_moments_to_cumulants(dict(ms))
    n = len(moments)
    return {"centrals": [to_rational(sympy.sympify(cen[k])) for k in range(1, n + 1)],
            "cumulants": [to_rational(sympy.sympify(cum[k])) for k in range(1, n + 1)],
            "central_keys": sorted(int(k) for k in cen), "cumulant_keys": sorted(int(k) for k in cum)}


def convert_symbolic(exprs, points):
    """exprs: strings of sympy expressions (symbols a, b, c, n) for m_1..m_N; points: list of
    {symbol: "p/q"}.  The functions are applied to the *symbolic* vector and the results evaluated at
    every point; the moment values at the point are returned as well."""
    import sympy
    from utils import raw_moments_to_centrals, raw_moments_to_cumulants
    loc = {s: sympy.Symbol(s) for s in ("a", "b", "c")}
    loc["n"] = sympy.Symbol("n", integer=True)
    ms = {i + 1: sympy.sympify(e, locals=loc, rational=True) for i, e in enumerate(exprs)}
    cen = raw_moments_to_centrals(dict(ms))
    cum = raw_moments_to_cumulants(dict(ms))
    n = len(exprs)
    out = []
    for pt in points:
        sub = {}
        for s, v in pt.items():
            sub[loc[s]] = _sym_rat(v)
        out.append({
            "moments": [to_rational(ms[k].xreplace(sub)) for k in range(1, n + 1)],
            "centrals": [to_rational(sympy.sympify(cen[k]).xreplace(sub)) for k in range(1, n + 1)],
            "cumulants": [to_rational(sympy.sympify(cum[k]).xreplace(sub)) for k in range(1, n + 1)],
        })
    return {"points": out}


# ------------------------------------------------------------------------------------------------
# (b) end to end: the goal handlers of cli/actions/goals_action.py
# ------------------------------------------------------------------------------------------------

_RAT = re.compile(r"^-?\d+(/\d+)?$")


def _parse_printed(s):
    s = s.strip()
    if _RAT.match(s):
        return ("q", _q(Fr(s)))
    import sympy
    try:
        return to_rational(sympy.sympify(s, rational=True))
    except Exception:
        return ("bad", s[:120])


def _cli_args(goals, at_n, tail_bound_moments):
    """the Namespace exactly as cli/argument_parser.py builds it (real argparse run on a CLI line)"""
    from cli.argument_parser import ArgumentParser
    ap = ArgumentParser().argument_parser
    argv = ["case.prob", "--goals", *goals, "--at_n", str(at_n), "--tail_bound_moments", str(tail_bound_moments)]
    return ap.parse_args(argv)


def goals(text, goals, subs=None, nmax=4, at_n=2, tail_bound_moments=2):
    """Parse + normalise `text`, then run the real goal handlers on the CLI goal strings `goals`.

    Returns per goal: kind, the closed form's values at n = 0..nmax (for tail bounds: of every listed
    bound), and what `handle_all_goals` *prints* for `--at_n`."""
    _reset_settings()
    res = {"accepted": False, "goals": []}
    try:
        from inputparser import Parser
        program = Parser().parse_string(text)
    except Exception as e:  # noqa
        res["error"] = _err(e, "parse")
        return res
    try:
        from program import normalize_program
        program = normalize_program(program)
    except Exception as e:  # noqa
        res["error"] = _err(e, "normalize")
        return res
    res["accepted"] = True
    import cli.actions.goals_action as GA
    from inputparser import GoalParser, MOMENT, CUMULANT, CENTRAL, TAIL_BOUND_LOWER, TAIL_BOUND_UPPER
    from recurrences import RecBuilder
    args = _cli_args(goals, at_n, tail_bound_moments)
    action = GA.GoalsAction(args)
    action.initialize_program(program, RecBuilder(program))

    # (1) each handler on its own, closed forms captured
    captured = []
    orig_pp = GA.prettify_piecewise

    def spy(expr):
        captured.append(expr)
        return orig_pp(expr)

    try:
        parsed = action.parse_goals()
    except Exception as e:  # noqa
        res["error"] = _err(e, "goal-parse")
        res["accepted"] = False
        return res
    for gstr, (gtype, gdata) in zip(goals, parsed):
        g = {"goal": gstr, "kind": gtype}
        try:
            if gtype == MOMENT:
                cf, exact = action.handle_moment_goal(gdata)
                g["values"] = [eval_closed_form(cf, n, subs) for n in range(nmax + 1)]
            elif gtype == CENTRAL:
                g["order"] = int(gdata[0])
                cf, exact = action.handle_central_moment_goal(gdata)
                g["values"] = [eval_closed_form(cf, n, subs) for n in range(nmax + 1)]
            elif gtype == CUMULANT:
                g["order"] = int(gdata[0])
                cf, exact = action.handle_cumulant_goal(gdata)
                g["values"] = [eval_closed_form(cf, n, subs) for n in range(nmax + 1)]
            elif gtype in (TAIL_BOUND_UPPER, TAIL_BOUND_LOWER):
                g["monom"] = str(gdata[0])
                g["a"] = to_rational(__import__("sympy").sympify(gdata[1]))
                del captured[:]
                GA.prettify_piecewise = spy
                buf = io.StringIO()
                try:
                    with contextlib.redirect_stdout(buf):
                        if gtype == TAIL_BOUND_UPPER:
                            action.handle_tail_bound_upper_goal(gdata)
                        else:
                            action.handle_tail_bound_lower_goal(gdata)
                finally:
                    GA.prettify_piecewise = orig_pp
                g["bounds"] = [[eval_closed_form(b, n, subs) for n in range(nmax + 1)] for b in captured]
                g["printed"] = buf.getvalue()[-3000:]
            g["ok"] = True
        except Exception as e:  # noqa
            g["ok"] = False
            g["error"] = _err(e, "goal")
        res["goals"].append(g)

    # (2) the whole action as the CLI runs it, output parsed (covers dispatch, printing, eval_re, min)
    buf = io.StringIO()
    try:
        action2 = GA.GoalsAction(args)
        action2.initialize_program(program, RecBuilder(program))
        with contextlib.redirect_stdout(buf):
            action2.handle_all_goals()
        res["printed_ok"] = True
    except Exception as e:  # noqa
        res["printed_ok"] = False
        res["printed_error"] = _err(e, "handle_all_goals")
    out = buf.getvalue()
    res["printed"] = _parse_at_n_lines(out, at_n, subs)
    _reset_settings()
    return res


def _parse_at_n_lines(out, at_n, subs):
    """lines like `c2(x | n=2) = 3/4 ≅ 0.75`, `P(x >= 2 | n=2) <= 5/8 ≅ …`, `P(x > 0 | n=2) >= 2/5 ≅ …`"""
    import sympy
    res = []
    tag = f"| n={at_n})"
    for line in out.split("\n"):
        if tag not in line or "≅" not in line:
            continue
        head, _, rest = line.partition(tag)
        rest = rest.split("≅")[0].strip()
        m = re.match(r"^(=|<=|>=)\s*(.*)$", rest)
        if not m:
            continue
        val = m.group(2).strip()
        parsed = _parse_printed(val)
        if parsed[0] == "symbolic" and subs:
            try:
                e = sympy.sympify(val, rational=True)
                sm = {s: _sym_rat(subs[s.name]) for s in e.free_symbols if s.name in subs}
                parsed = to_rational(e.xreplace(sm))
            except Exception:
                pass
        res.append({"head": head.strip() + " " + tag, "rel": m.group(1), "value": parsed})
    return res


# ------------------------------------------------------------------------------------------------
# (c) expansions
# ------------------------------------------------------------------------------------------------

def _normal_raw_moments(mu, s2, kmax):
    """E X^j, X ~ N(mu, s2), j = 0..kmax: m_j = mu m_{j-1} + (j-1) s2 m_{j-2}"""
    import sympy
    m = [sympy.Integer(1), mu]
    for j in range(2, kmax + 1):
        m.append(sympy.expand(mu * m[j - 1] + (j - 1) * s2 * m[j - 2]))
    return m[:kmax + 1]


def gram_charlier(cumulants, kmax, integrate=False):
    """GramCharlierExpansion(cumulants)() for rational cumulants: returns
       * the polynomial factor in y = x - mu (coefficients; must be rational),
       * the integrals of x^k * density, k = 0..kmax, by exact integration against the Gaussian
         (term-wise, with the Gaussian's raw moments), and optionally by sympy.integrate."""
    import sympy
    from expansions.gram_charlier import GramCharlierExpansion
    ks = {i + 1: _sym_rat(c) for i, c in enumerate(cumulants)}
    dens = GramCharlierExpansion(dict(ks))()
    dens = sympy.sympify(dens)
    x = sympy.Symbol("x")
    mu = ks[1] if len(ks) > 0 else sympy.Integer(0)
    s2 = ks[2] if len(ks) > 1 else sympy.Integer(1)
    sigma = sympy.sqrt(s2)
    # the Gaussian factor, written independently of the code
    phi = sympy.exp(-(x - mu) ** 2 / (2 * s2)) / (sigma * sympy.sqrt(2 * sympy.pi))
    exps = list(dens.atoms(sympy.exp))
    res = {"n_exp_atoms": len(exps)}
    if len(exps) != 1:
        res["shape_ok"] = False
        return res
    arg_ok = sympy.expand(exps[0].args[0] - (-(x - mu) ** 2 / (2 * s2))) == 0
    res["gauss_arg_ok"] = bool(arg_ok)
    poly = sympy.expand(sympy.simplify(dens.xreplace({exps[0]: sympy.Integer(1)}) * sigma * sympy.sqrt(2 * sympy.pi)))
    res["shape_ok"] = bool(arg_ok and poly.is_polynomial(x) and not poly.has(sympy.pi))
    if not res["shape_ok"]:
        res["poly"] = str(poly)[:300]
        return res
    P = sympy.Poly(poly, x)
    # polynomial in y = x - mu
    y = sympy.Symbol("y")
    Py = sympy.Poly(sympy.expand(poly.xreplace({x: y + mu})), y)
    coeffs_y = list(reversed(Py.all_coeffs()))
    res["poly_y"] = [to_rational(sympy.simplify(c)) for c in coeffs_y]
    nm = _normal_raw_moments(mu, s2, kmax + P.degree())
    ints = []
    cs = list(reversed(P.all_coeffs()))
    for k in range(kmax + 1):
        tot = sympy.Integer(0)
        for j, c in enumerate(cs):
            tot += c * nm[j + k]
        ints.append(to_rational(sympy.simplify(sympy.expand(tot))))
    res["integrals"] = ints
    if integrate:
        # direct symbolic integration of the density as returned (substituting x = mu + sigma t first)
        t = sympy.Symbol("t", real=True)
        body = sympy.expand(sympy.simplify(dens.xreplace({x: mu + sigma * t}) * sigma))
        direct = []
        for k in range(min(kmax, 3) + 1):
            v = sympy.integrate(sympy.expand((mu + sigma * t) ** k * body), (t, -sympy.oo, sympy.oo))
            direct.append(to_rational(sympy.simplify(v)))
        res["direct"] = direct
    return res


def _he(n, z):
    """probabilists' Hermite polynomials by the three-term recurrence (independent of utils/special_polys)"""
    import sympy
    a, b = sympy.Integer(1), z
    if n == 0:
        return a
    for k in range(1, n):
        a, b = b, sympy.expand(z * b - k * a)
    return b


def cornish_fisher_textbook(N):
    """The Cornish–Fisher expansion to the order given by N cumulants (N-2 correction groups, at most
    4), from the published table (Cornish & Fisher 1938 / Abramowitz–Stegun 26.2.49 / Wikipedia), in
    terms of γ_r = κ_{r+2}/σ^{r+2}:  written with Hermite polynomials, independently of the code."""
    import sympy
    z = sympy.Symbol("z")
    ks = sympy.symbols("k1:%d" % (N + 1))
    k = {i + 1: ks[i] for i in range(N)}
    sigma = sympy.sqrt(k[2])

    def g(r):
        return k[r + 2] / sigma ** (r + 2)
    He = lambda n: _he(n, z)  # noqa
    R = sympy.Rational
    w = z
    if N >= 3:
        w += g(1) * He(2) / 6
    if N >= 4:
        w += g(2) * He(3) / 24 - g(1) ** 2 * (2 * He(3) + He(1)) / 36
    if N >= 5:
        w += g(3) * He(4) / 120 - g(1) * g(2) * (He(4) + He(2)) / 24 + g(1) ** 3 * (12 * He(4) + 19 * He(2)) / 324
    if N >= 6:
        w += (g(4) * He(5) / 720 - g(2) ** 2 * (3 * He(5) + 6 * He(3) + 2 * He(1)) / 384
              - g(1) * g(3) * (2 * He(5) + 3 * He(3)) / 180
              + g(1) ** 2 * g(2) * (14 * He(5) + 37 * He(3) + 8 * He(1)) / 288
              - g(1) ** 4 * (252 * He(5) + 832 * He(3) + 227 * He(1)) / 7776)
    return k[1] + sigma * w, k, z


def _cf_in_z(expr):
    """undo the final substitution z -> sqrt(2)*erfinv(2p-1)"""
    import sympy
    p = sympy.Symbol("p")
    z = sympy.Symbol("z")
    atoms = list(expr.atoms(sympy.erfinv))
    if len(atoms) > 1:
        return None
    if not atoms:
        return expr
    if sympy.expand(atoms[0].args[0] - (2 * p - 1)) != 0:
        return None
    return expr.xreplace({atoms[0]: z / sympy.sqrt(2)})


def cornish_fisher_symbolic(N):
    """CornishFisherExpansion with N indeterminate cumulants versus the textbook formula (N ≤ 6)"""
    import sympy
    from expansions.cornish_fisher import CornishFisherExpansion
    text, k, z = cornish_fisher_textbook(N)
    code = CornishFisherExpansion({i: k[i] for i in k})()
    code = _cf_in_z(sympy.sympify(code))
    if code is None:
        return {"shape_ok": False}
    byname = {s.name: s for s in text.free_symbols}
    code = code.xreplace({s: byname[s.name] for s in code.free_symbols if s.name in byname})
    diff = sympy.simplify(sympy.expand(code - text))
    return {"shape_ok": True, "equal": bool(diff == 0), "diff": str(diff)[:300],
            "degree_z": int(sympy.Poly(sympy.expand(code), z).degree())}


def cornish_fisher_numeric(sigma, cumulants):
    """rational cumulants with κ₂ = σ² (σ rational): coefficients in z of the expansion, and the
    textbook value for the same numbers"""
    import sympy
    from expansions.cornish_fisher import CornishFisherExpansion
    ks = {i + 1: _sym_rat(c) for i, c in enumerate(cumulants)}
    code = CornishFisherExpansion(dict(ks))()
    code = _cf_in_z(sympy.sympify(code))
    if code is None:
        return {"shape_ok": False}
    z = sympy.Symbol("z")
    P = sympy.Poly(sympy.expand(code), z)
    coeffs = [to_rational(c) for c in reversed(P.all_coeffs())]
    res = {"shape_ok": True, "coeffs": coeffs}
    N = len(cumulants)
    if N <= 6:
        text, k, _ = cornish_fisher_textbook(N)
        tv = sympy.expand(text.xreplace({k[i]: ks[i] for i in k}))
        T = sympy.Poly(tv, z)
        res["textbook"] = [to_rational(c) for c in reversed(T.all_coeffs())]
    return res


def special_polys(n, xs):
    """prob_hermite_poly(n, x) coefficients and ce_bell_poly(n, *xs)"""
    import sympy
    from utils import prob_hermite_poly, ce_bell_poly
    x = sympy.Symbol("x")
    h = sympy.sympify(prob_hermite_poly(n, x))
    P = sympy.Poly(h, x) if h.has(x) else None
    if P is None:
        coeffs = [to_rational(h)]
    else:
        coeffs = [to_rational(c) for c in reversed(P.all_coeffs())]
    args = [_sym_rat(v) for v in xs]
    b = ce_bell_poly(n, *args)
    return {"hermite": coeffs, "bell": to_rational(sympy.sympify(b))}
