"""Attribution functions shared by the end-to-end checks."""


def removable_singularity(prop, rec):
    """F70: a parametric closed form that is 0/0 at an isolated parameter value (typically where two
    characteristic roots coincide, e.g. p = 1 or p = -1) although its limit there is the exact value.
    Attributed only if EVERY mismatch of the record is of kind 'removable-singularity', i.e. the expression is
    undefined at the point and its limit equals the exact expectation."""
    ms = rec.get("mismatches")
    if not ms:
        return None
    if all(m.get("kind") == "removable-singularity" for m in ms):
        return "parametric closed form undefined (0/0) at a parameter value where its limit is the exact value"
    return None
