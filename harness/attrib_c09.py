"""Attribution for C09 known findings."""
from fractions import Fraction as Fr


def shifted_by_one(prop, rec):
    """F15: the moment-given-termination sequence is the exact conditional expectation of the *previous*
    iteration count: reported(n) = E(M | T <= n-1) for every n >= 2 (the guard is recovered over the `_old`
    copy of the guard variable).  Attributed only if this shifted identity holds at every compared point."""
    polar = rec.get("polar_cond")      # list of (tag, value)
    truth = rec.get("truth_cond")      # list of Fraction | None
    if not polar or not truth:
        return None
    pts = 0
    for n in range(2, min(len(polar), len(truth) + 1)):
        t = truth[n - 1]
        tag, v = polar[n]
        if t is None:
            continue
        if tag != "q" or Fr(v) != t:
            return None
        pts += 1
    if pts >= 3:
        return "moment-given-termination sequence is shifted by one iteration: reported(n) = E(M | T <= n-1)"
    return None
