"""The harness's own AST for Polar's loop language: construction helpers, pretty-printer to Polar
source text (with spelling variations for C19) and JSON encoding for the Lean model.

Expr  : ("num", Fraction) ("var", x) ("add",a,b) ("sub",a,b) ("mul",a,b) ("neg",a) ("pow",a,k) ("div",a,b)
Cond  : ("tt",) ("ff",) ("cmp",op,l,r) ("not",c) ("and",a,b) ("or",a,b)
Rhs   : ("expr",e) ("choice",[(e,p),...]) ("dist",name,[e,...]) ("func",name,arg)
Stmt  : ("assign",x,rhs,guard,dflt) ("simult",[x..],[rhs..]) ("ite",c,[t..],[e..])
"""
from fractions import Fraction as Fr


def num(v):
    return ("num", Fr(v))


def var(x):
    return ("var", x)


def add(a, b):
    return ("add", a, b)


def sub(a, b):
    return ("sub", a, b)


def mul(a, b):
    return ("mul", a, b)


def neg(a):
    return ("neg", a)


def pw(a, k):
    return ("pow", a, int(k))


def div(a, b):
    return ("div", a, b)


TT = ("tt",)
FF = ("ff",)


def cmp_(op, l, r):
    return ("cmp", op, l, r)


def assign(x, rhs):
    return ("assign", x, rhs, TT, x)


def ex(e):
    return ("expr", e)


# ---------------------------------------------------------------------------------------------
# JSON for the Lean model
# ---------------------------------------------------------------------------------------------

def fr_str(f):
    f = Fr(f)
    return str(f.numerator) if f.denominator == 1 else f"{f.numerator}/{f.denominator}"


def expr_json(e):
    t = e[0]
    if t == "num":
        return ["num", fr_str(e[1])]
    if t == "var":
        return ["var", e[1]]
    if t in ("add", "sub", "mul", "div"):
        return [t, expr_json(e[1]), expr_json(e[2])]
    if t == "neg":
        return ["neg", expr_json(e[1])]
    if t == "pow":
        return ["pow", expr_json(e[1]), int(e[2])]
    raise ValueError(f"bad expr {e}")


def cond_json(c):
    t = c[0]
    if t in ("tt", "ff"):
        return [t]
    if t == "cmp":
        return ["cmp", c[1], expr_json(c[2]), expr_json(c[3])]
    if t == "not":
        return ["not", cond_json(c[1])]
    if t in ("and", "or"):
        return [t, cond_json(c[1]), cond_json(c[2])]
    raise ValueError(f"bad cond {c}")


def rhs_json(r):
    t = r[0]
    if t == "expr":
        return ["expr", expr_json(r[1])]
    if t == "choice":
        return ["choice", [[expr_json(e), expr_json(p)] for e, p in r[1]]]
    if t == "dist":
        return ["dist", r[1], [expr_json(p) for p in r[2]]]
    raise ValueError(f"bad rhs {r}")


def stmt_json(s):
    t = s[0]
    if t == "assign":
        return ["assign", s[1], rhs_json(s[2]), cond_json(s[3]), s[4]]
    if t == "simult":
        return ["simult", list(s[1]), [rhs_json(r) for r in s[2]]]
    if t == "ite":
        return ["ite", cond_json(s[1]), [stmt_json(x) for x in s[2]], [stmt_json(x) for x in s[3]]]
    raise ValueError(f"bad stmt {s}")


def program_json(p):
    return {"init": [stmt_json(s) for s in p["init"]], "guard": cond_json(p["guard"]),
            "body": [stmt_json(s) for s in p["body"]]}


# ---------------------------------------------------------------------------------------------
# pretty-printer (Polar source syntax)
# ---------------------------------------------------------------------------------------------

class Style:
    """Spelling choices; default = canonical."""

    def __init__(self, rnd=None, decimals=False, extra_parens=False, trivia=False, elif_nested=False,
                 explicit_last_prob=False, simult_temps=False):
        self.rnd = rnd
        self.decimals = decimals
        self.extra_parens = extra_parens
        self.trivia = trivia
        self.elif_nested = elif_nested
        self.explicit_last_prob = explicit_last_prob
        self.simult_temps = simult_temps
        self._tmp = 0

    def coin(self, p=0.5):
        return self.rnd is not None and self.rnd.random() < p


def _is_terminating_decimal(f):
    d = f.denominator
    while d % 2 == 0:
        d //= 2
    while d % 5 == 0:
        d //= 5
    return d == 1


def _decimal_str(f):
    # exact decimal expansion of a fraction whose denominator is 2^a 5^b
    neg_ = f < 0
    f = abs(f)
    ip = f.numerator // f.denominator
    rest = f - ip
    digits = []
    while rest != 0 and len(digits) < 30:
        rest *= 10
        d = rest.numerator // rest.denominator
        digits.append(str(d))
        rest -= d
    s = str(ip) + ("." + "".join(digits) if digits else ".0")
    return ("-" if neg_ else "") + s


def num_str(f, st, top=False):
    f = Fr(f)
    if f.denominator == 1:
        s = str(f.numerator)
        if f < 0 and not top:
            return f"({s})"
        return s
    if st.decimals and _is_terminating_decimal(f) and (st.rnd is None or st.coin(0.8)):
        s = _decimal_str(f)
        return f"({s})" if f < 0 else s
    return f"({f.numerator}/{f.denominator})"


_PREC = {"add": 1, "sub": 1, "mul": 2, "div": 2, "neg": 3, "pow": 4, "num": 5, "var": 5}


def expr_str(e, st=None, prec=0, top=True):
    st = st or Style()
    t = e[0]
    if t == "num":
        s = num_str(e[1], st, top=top and prec == 0)
    elif t == "var":
        s = e[1]
    elif t == "add":
        s = f"{expr_str(e[1], st, 1, False)} + {expr_str(e[2], st, 1, False)}"
    elif t == "sub":
        s = f"{expr_str(e[1], st, 1, False)} - {expr_str(e[2], st, 2, False)}"
    elif t == "mul":
        s = f"{expr_str(e[1], st, 2, False)}*{expr_str(e[2], st, 2, False)}"
    elif t == "div":
        s = f"{expr_str(e[1], st, 2, False)}/{expr_str(e[2], st, 3, False)}"
    elif t == "neg":
        inner = e[1]
        if inner[0] in ("var",) or (inner[0] == "num" and inner[1] >= 0 and inner[1].denominator == 1):
            s = f"(-{expr_str(inner, Style(), 5, False)})"      # a sign may only precede an atom
        elif inner[0] == "pow" and inner[1][0] == "var":
            # Python precedence: -y**2 is -(y**2)
            s = f"-{expr_str(inner, Style(), 4, False)}" if top else f"(-{expr_str(inner, Style(), 4, False)})"
        else:
            s = f"(-1)*({expr_str(inner, st, 0, False)})"
            if prec > 2:
                s = f"({s})"
    elif t == "pow":
        s = f"{expr_str(e[1], st, 5, False)}**{int(e[2])}"
    else:
        raise ValueError(e)
    if t in _PREC and _PREC[t] < prec and t not in ("num", "var", "neg"):
        s = f"({s})"
    elif st.extra_parens and st.coin(0.3) and not (t == "num" and top):
        s = f"({s})"
    return s


def cond_str(c, st=None, nested=False):
    st = st or Style()
    t = c[0]
    if t == "tt":
        return "true"
    if t == "ff":
        return "false"
    if t == "cmp":
        return f"{expr_str(c[2], st)} {c[1]} {expr_str(c[3], st)}"
    if t == "not":
        return f"!({cond_str(c[1], st)})"
    if t in ("and", "or"):
        op = "&&" if t == "and" else "||"
        s = f"{cond_str(c[1], st, True)} {op} {cond_str(c[2], st, True)}"
        return f"({s})" if nested else s
    raise ValueError(c)


def rhs_str(r, st=None):
    st = st or Style()
    t = r[0]
    if t == "expr":
        return expr_str(r[1], st)
    if t == "choice":
        alts = r[1]
        parts = []
        explicit = st.explicit_last_prob
        for i, (e, p) in enumerate(alts):
            parts.append(expr_str(e, st))
            if i < len(alts) - 1 or explicit:
                parts.append("{" + expr_str(p, st) + "}")
        return " ".join(parts)
    if t == "dist":
        name = {"Exponential": "DistExp"}.get(r[1], r[1])     # Polar's source name of the exponential law
        return f"{name}({', '.join(expr_str(p, st) for p in r[2])})"
    if t == "func":
        return f"{r[1]}({r[2]})"
    raise ValueError(r)


def _nl(st):
    if st.trivia and st.coin(0.3):
        return st.rnd.choice(["\n\n", "  \n", " # c\n", "\n   \n", "\n# full line comment\n"])
    return "\n"


def stmts_str(stmts, st, ind):
    out = ""
    pad = " " * ind
    for s in stmts:
        t = s[0]
        if t == "assign":
            if s[3] != TT:
                raise ValueError("guarded assignment has no source syntax")
            out += f"{pad}{s[1]} = {rhs_str(s[2], st)}" + _nl(st)
        elif t == "simult":
            if st.simult_temps:
                tmps = []
                for x, r in zip(s[1], s[2]):
                    tv = f"tmpv{st._tmp}"
                    st._tmp += 1
                    tmps.append(tv)
                    out += f"{pad}{tv} = {rhs_str(r, st)}" + _nl(st)
                for x, tv in zip(s[1], tmps):
                    out += f"{pad}{x} = {tv}" + _nl(st)
            else:
                out += f"{pad}{', '.join(s[1])} = {', '.join(rhs_str(r, st) for r in s[2])}" + _nl(st)
        elif t == "ite":
            out += _ite_str(s, st, ind)
        else:
            raise ValueError(s)
    return out


def _ite_str(s, st, ind):
    pad = " " * ind
    out = f"{pad}if {cond_str(s[1], st)}:" + _nl(st)
    out += stmts_str(s[2], st, ind + 4)
    els = s[3]
    # elif chain: else-branch consisting of exactly one ite
    while len(els) == 1 and els[0][0] == "ite" and not st.elif_nested:
        inner = els[0]
        out += f"{pad}elif {cond_str(inner[1], st)}:" + _nl(st)
        out += stmts_str(inner[2], st, ind + 4)
        els = inner[3]
    if els:
        out += f"{pad}else:" + _nl(st)
        out += stmts_str(els, st, ind + 4)
    out += f"{pad}end" + _nl(st)
    return out


def program_str(p, st=None):
    st = st or Style()
    out = ""
    if p.get("types"):
        out += "types\n"
        for v, spec in p["types"]:
            out += f"    {v} : {spec}\n"
        out += "end\n"
    out += stmts_str(p["init"], st, 0)
    out += f"while {cond_str(p['guard'], st)}:" + _nl(st)
    out += stmts_str(p["body"], st, 4)
    out += "end\n"
    return out


# ---------------------------------------------------------------------------------------------
# utilities on ASTs
# ---------------------------------------------------------------------------------------------

def expr_vars(e, acc=None):
    acc = set() if acc is None else acc
    if e[0] == "var":
        acc.add(e[1])
    elif e[0] in ("add", "sub", "mul", "div"):
        expr_vars(e[1], acc)
        expr_vars(e[2], acc)
    elif e[0] in ("neg", "pow"):
        expr_vars(e[1], acc)
    return acc


def cond_vars(c, acc=None):
    acc = set() if acc is None else acc
    if c[0] == "cmp":
        expr_vars(c[2], acc)
        expr_vars(c[3], acc)
    elif c[0] == "not":
        cond_vars(c[1], acc)
    elif c[0] in ("and", "or"):
        cond_vars(c[1], acc)
        cond_vars(c[2], acc)
    return acc


def rhs_vars(r, acc=None):
    acc = set() if acc is None else acc
    if r[0] == "expr":
        expr_vars(r[1], acc)
    elif r[0] == "choice":
        for e, p in r[1]:
            expr_vars(e, acc)
            expr_vars(p, acc)
    elif r[0] == "dist":
        for p in r[2]:
            expr_vars(p, acc)
    return acc


def stmts_assigned(stmts, acc=None):
    acc = set() if acc is None else acc
    for s in stmts:
        if s[0] == "assign":
            acc.add(s[1])
        elif s[0] == "simult":
            acc.update(s[1])
        elif s[0] == "ite":
            stmts_assigned(s[2], acc)
            stmts_assigned(s[3], acc)
    return acc


def stmts_read(stmts, acc=None):
    acc = set() if acc is None else acc
    for s in stmts:
        if s[0] == "assign":
            rhs_vars(s[2], acc)
            cond_vars(s[3], acc)
        elif s[0] == "simult":
            for r in s[2]:
                rhs_vars(r, acc)
        elif s[0] == "ite":
            cond_vars(s[1], acc)
            stmts_read(s[2], acc)
            stmts_read(s[3], acc)
    return acc


def count_stmts(stmts):
    n = 0
    for s in stmts:
        n += 1
        if s[0] == "ite":
            n += count_stmts(s[2]) + count_stmts(s[3])
    return n


def ite_depth(stmts):
    d = 0
    for s in stmts:
        if s[0] == "ite":
            d = max(d, 1 + max(ite_depth(s[2]), ite_depth(s[3])))
    return d
