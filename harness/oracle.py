"""Bridges between generated cases, the Polar worker tasks and the Lean reference semantics."""
from fractions import Fraction as Fr

from . import hast as H


def case_text(case, style=None):
    return H.program_str(case["program"], style)


def polar_subs(case):
    """symbol -> 'p/q' for Polar's closed forms: parameters and `x0` initial-value symbols"""
    subs = {k: H.fr_str(v) for k, v in case["params"].items()}
    assigned = None
    for x, v in case["sigma0"].items():
        subs[x + "0"] = H.fr_str(v)
        if assigned is None:
            try:
                assigned = set(H.stmts_assigned(case["program"]["init"])) | set(H.stmts_assigned(case["program"]["body"]))
            except Exception:
                assigned = set()
        if x not in assigned and x not in subs:
            # a variable that is read but never assigned anywhere is a symbolic constant for Polar: it appears under its own name
            subs[x] = H.fr_str(v)
    return subs


def lean_sigma0(case, extra_vars=()):
    s = {k: H.fr_str(v) for k, v in case["params"].items()}
    for x, v in case["sigma0"].items():
        s[x] = H.fr_str(v)
    return s


def moments_request(case, nmax, goals=None, program=None):
    return {"op": "moments", "program": H.program_json(program or case["program"]),
            "sigma0": lean_sigma0(case), "monos": [[[x, k] for x, k in g] for g in (goals or case["goals"])],
            "nmax": nmax}


def parse_q(s):
    return Fr(s)


def compare_values(polar_vals, oracle_vals):
    """polar_vals: list of (tag, str); oracle_vals: list of 'p/q'.  Returns list of (n, kind, polar, oracle)."""
    bad = []
    for n, (pv, ov) in enumerate(zip(polar_vals, oracle_vals)):
        tag, s = pv
        o = Fr(ov)
        if tag == "q":
            if Fr(s) != o:
                bad.append((n, "wrong-value", s, ov))
        elif tag in ("float", "irrational"):
            try:
                # complex numbers print as a + b*I: not comparable -> mismatch unless tiny imaginary part
                val = complex(s.replace("*I", "j").replace(" ", "")) if "I" in s else float(s)
                if isinstance(val, complex):
                    ok = abs(val.imag) < 1e-12 and abs(val.real - float(o)) <= 1e-9 * max(1.0, abs(float(o)))
                else:
                    ok = abs(val - float(o)) <= 1e-9 * max(1.0, abs(float(o)))
            except Exception:
                ok = False
            if not ok:
                bad.append((n, "wrong-value-" + tag, s, ov))
        elif tag == "undefined-limit":
            # the closed form is 0/0 at the parameter point; s is its limit there
            bad.append((n, "removable-singularity" if Fr(s) == o else "undefined-at-point-and-limit-wrong", s, ov))
        elif tag == "undefined":
            bad.append((n, "undefined-at-point", s, ov))
        else:
            bad.append((n, "non-numeric-" + tag, s, ov))
    return bad
