"""Attribution of C14 failures to entries of known_findings.json.

F140  (invariants)  `utils/solvers.py:solve_rec_by_summing` strips every `Piecewise` from the summed closed form
      (`without_piecewise`), and with it the initial-value cases of the solved effective monomials: when an
      effective variable is read before it is (re)assigned in the first iteration — its closed form is
      `Piecewise((x0, n = 0), (general, True))` — the returned f ignores x0 and is wrong from n = 1 on.
      Cure used for attribution: the same synthesis call is repeated in a worker and exactly what the stripping
      removed, Σ_{j<n} k^j·(inhom(n−j) − general_branch(n−j)), is added back to the values of the closed form the
      tree returns (harness/tasks/c14.py:repair_piecewise; nothing else is recomputed, so e.g. a wrong summation
      bound is *not* cured).  The failure is attributed only if (a) the solved effective part contains a Piecewise
      in n, (b) the re-run reproduces a wrong closed form and (c) the repaired values equal the exact expectations
      E(Q(state_n)) of the Lean reference semantics for every compared n.

F141  (synthesised loops)  `SolvLoopSynthesizer` (both `handle_unsolvable_loop` and `handle_solvable_loop`) replaces
      every effective variable by a *deterministic* variable that carries its mean (`t = E-recurrence of var`), but
      keeps non-linear monomials of effective variables in the updates of the fresh variable s and of retained
      variables: for a random effective z the loop computes (E z)^2 where the source has E(z^2).  Signature, decided
      on the exact reachable law of the source (Lean reference semantics): the source is random; every non-copy
      update `v = g(..)` of the loop is an exact moment recurrence of the source, E[g(phi(state_n))] =
      E[phi(v)(state_{n+1})] for all compared n (so signs, coefficients and index shifts are right) and all watched first moments agree at n = 0 (initial values are right);
      some g contains a monomial of degree ≥ 2 all of whose variables have affine updates themselves (genuine
      carriers of a mean).  Any other disagreement is not attributed.
"""
from fractions import Fraction as Fr

from .common import model_one
from .pool import run_tasks


def _run(fn, args, timeout=400):
    for _ in range(2):      # one retry: a loaded machine must not turn a known finding into a violation
        r = run_tasks([{"fn": "harness.tasks.c14:" + fn, "args": args}], timeout=timeout, nworkers=1)[0]
        if r.get("status") == "ok":
            return r["result"]
    return None


def _model(req, timeout=90):
    import time
    for i in range(3):
        ans = model_one(req, timeout=timeout)
        if ans.get("ok"):
            return ans
        time.sleep(2)
    return ans


def piecewise_dropped(prop, rec):
    if rec.get("kind") != "inv" or not (rec.get("mismatch") or rec.get("cf_first_bad")):
        return None
    case = rec["case"]
    args = {"inv_deg": case["inv_deg"], "mode": rec["mode"], "seed": rec.get("seed", 0), "nmax": 5}
    if case.get("path"):
        args["path"] = case["path"]
    else:
        args["text"] = case["text"]
    res = _run("repair_piecewise", args)
    if not res or rec["si"] >= len(res["solutions"]):
        return None
    r = res["solutions"][rec["si"]]
    if not r["has_piecewise"] or r.get("Q") is None:
        return None
    # exact expectations of the re-run's own Q (the parametrisation of the solution family may differ between runs)
    from .checks.c14 import poly_from_terms, monos_of, expect_poly, sigma_source, json_vars
    Q = poly_from_terms(r["Q"])
    monos = monos_of(Q)
    pj = rec["source"]
    names = json_vars(pj, set()) | {x for m in Q for x, _ in m}
    sig = sigma_source(r["point"], names, set(r["symbols"]))
    ans = _model({"op": "moments", "program": pj, "sigma0": sig, "monos": monos or [[]], "nmax": 5, "budget": 6000})
    if not ans.get("ok"):
        return None
    exact = expect_poly(Q, monos or [[]], ans["values"])
    if len(exact) < 2:
        return None
    try:
        repaired = [Fr(v) for v in r["values"][:len(exact)]]
    except Exception:  # noqa
        return None
    coded = []
    for tag, v in r["f_values"][:len(exact)]:
        coded.append(Fr(v) if tag == "q" else None)
    if repaired != exact:
        return None
    if coded == exact:
        return None     # the re-run does not reproduce a wrong closed form
    first = next(i for i, (a, b) in enumerate(zip(coded, exact)) if a != b)
    return (f"closed form of E({rec['sol']['Q_str'][:60]}) wrong from n={first} on: the Piecewise initial-value case of a "
            f"solved effective monomial is stripped by solve_rec_by_summing/without_piecewise [{case['id']} {rec['mode']}]")


def _expr_poly(e):
    """model-AST expression -> polynomial {mono tuple: Fraction} (division only by constants)"""
    from .checks.c14 import poly_mul, poly_pow
    t = e[0]
    if t == "num":
        c = Fr(e[1])
        return {(): c} if c != 0 else {}
    if t == "var":
        return {((e[1], 1),): Fr(1)}
    if t in ("add", "sub"):
        a, b = _expr_poly(e[1]), _expr_poly(e[2])
        out = dict(a)
        for m, c in b.items():
            out[m] = out.get(m, Fr(0)) + (c if t == "add" else -c)
        return {m: c for m, c in out.items() if c != 0}
    if t == "mul":
        return poly_mul(_expr_poly(e[1]), _expr_poly(e[2]))
    if t == "neg":
        return {m: -c for m, c in _expr_poly(e[1]).items()}
    if t == "pow":
        return poly_pow(_expr_poly(e[1]), int(e[2]))
    if t == "div":
        d = _expr_poly(e[2])
        if set(d) != {()}:
            raise ValueError("division by a non-constant")
        return {m: c / d[()] for m, c in _expr_poly(e[1]).items()}
    raise ValueError(e)


def _subst_poly(g, phi):
    from .checks.c14 import poly_mul, poly_pow
    out = {}
    for m, c in g.items():
        p = {(): c}
        for y, k in m:
            if y not in phi:
                return None
            p = poly_mul(p, poly_pow(phi[y], k))
        for mm, cc in p.items():
            out[mm] = out.get(mm, Fr(0)) + cc
    return {m: c for m, c in out.items() if c != 0}


def nonlinear_effective_in_loop(prop, rec):
    """F141, decided on the reachable law of the *source* (exact, Lean reference semantics):
    (1) the source is random; (2) every non-copy update `v = g(..)` of the synthesised loop is an exact moment
    recurrence of the source, E[g(phi(state_n))] = E[phi(v)(state_{n+1})] for all compared n — the loop is right
    as a system over expectations; (3) some g contains a monomial of degree >= 2 whose variables all have affine
    updates themselves (genuinely effective carriers of a mean) — the only thing wrong is that the loop evaluates
    that monomial at the means.  A wrong sign / coefficient / shifted index breaks (2); a defective variable
    wrongly retained breaks (3)."""
    if rec.get("kind") != "loop" or not rec.get("mismatch"):
        return None
    from .checks.c14 import is_random, poly_from_terms, monos_of, expect_poly
    src, tg = rec["source"], rec["target"]
    if not is_random(src) or not tg.get("program"):
        return None
    # initial values must be right: every watched first moment agrees at n = 0
    try:
        os_, ot = rec["oracle_source"], rec["oracle_target"]
        for i in range(len(rec["watch"])):
            e0 = expect_poly(rec["images"][i], rec["smonos"] or [[]], os_["values"])[0]
            if e0 != Fr(ot["values"][i][0]):
                return None
    except Exception:  # noqa
        return None
    try:
        phi = {y: poly_from_terms(t) for y, t in tg["phi"].items()}
        vals = tg["values"]
        # never-assigned symbols of the loop (x0, free coefficients, parameters) are constants at the sample point
        updates = []
        assigned = [st[1] for st in tg["program"]["body"]]
        for st in tg["program"]["body"]:
            if st[0] != "assign" or st[2][0] != "expr" or st[3] != ["tt"]:
                return None
            g = _expr_poly(st[2][1])
            consts = {x for m in g for x, _ in m if x not in assigned and x in vals}
            if consts:
                from .checks.c14 import poly_mul
                gg = {}
                for m, c in g.items():
                    cc, mm = c, []
                    for x, k in m:
                        if x in consts:
                            cc *= Fr(vals[x]) ** k
                        else:
                            mm.append((x, k))
                    mm = tuple(mm)
                    gg[mm] = gg.get(mm, Fr(0)) + cc
                g = {m: c for m, c in gg.items() if c != 0}
            updates.append((st[1], g))
    except Exception:  # noqa
        return None
    # compose the body: value of every loop variable after one iteration as a polynomial over the old state
    cur = {}
    for v, g in updates:
        sub = {}
        ok = True
        for m in g:
            for x, _ in m:
                if x not in sub:
                    sub[x] = cur.get(x, {((x, 1),): Fr(1)})
        gv = _subst_poly(g, sub)
        if gv is None:
            return None
        cur[v] = gv
    work = sorted(cur.items())
    affine = {v for v, g in work if all(sum(k for _, k in m) <= 1 for m in g)}
    nonlinear = []
    for v, g in work:
        for m in g:
            if sum(k for _, k in m) >= 2:
                if all(x in affine for x, _ in m):
                    nonlinear.append(m)
                else:
                    return None
    if not nonlinear:
        return None
    # (2) exact moment recurrences along the source run
    need, pairs = [], []
    from .checks.c14 import json_vars
    names = json_vars(src, set())
    for v, g in work:
        if v not in phi:
            continue
        lhs = _subst_poly(g, phi)
        if lhs is None:
            return None
        used = {x for p_ in (lhs, phi[v]) for m in p_ for x, _ in m}
        if not used <= names:
            continue        # a temporary of Polar's parser that the generator's own AST does not have
        pairs.append((v, lhs, phi[v]))
        need += monos_of(lhs) + monos_of(phi[v])
    seen, monos = set(), []
    for m in need:
        key = str(m)
        if key not in seen:
            seen.add(key)
            monos.append(m)
    ans = _model({"op": "moments", "program": src, "sigma0": rec["sigma0"], "monos": monos or [[]], "nmax": 5,
                  "budget": 6000})
    if not ans.get("ok"):
        return None
    checked = 0
    for v, lhs, img in pairs:
        a = expect_poly(lhs, monos or [[]], ans["values"])
        b = expect_poly(img, monos or [[]], ans["values"])
        for n in range(min(len(a), len(b)) - 1):
            if a[n] != b[n + 1]:
                return None
            checked += 1
    if checked == 0:
        return None
    m = rec["mismatch"]
    return (f"synthesised loop evaluates non-linear monomials of random effective variables at their means "
            f"({[[list(x) for x in mm] for mm in nonlinear][:3]}); every update is an exact moment recurrence of the source: "
            f"moment of {m['mono']} wrong from n={m['n']} [{rec['case']['id']}]")
