"""Attribution of C14 failures to entries of known_findings.json.

F140  (invariants)  `utils/solvers.py:solve_rec_by_summing` strips every `Piecewise` from the summed closed form
      (`without_piecewise`), and with it the initial-value cases of the solved effective monomials: when an
      effective variable is read before it is (re)assigned in the first iteration — its closed form is
      `Piecewise((x0, n = 0), (general, True))` — the returned f ignores x0 and is wrong from n = 1 on.
      Cure used for attribution: the same synthesis call is repeated in a worker and exactly what the stripping
      removed, Σ_{j<n} k^j·(inhom(n−j) − general_branch(n−j)), is added back to the values of the closed form the
      tree returns (harness/tasks/c14.py:repair_piecewise; nothing else is recomputed, so e.g. a wrong summation
      bound is *not* cured).  The failure is attributed only if (a) the solved effective part contains a Piecewise
      in n, (b) the re-run reproduces a wrong closed form and (c) the repaired values equal the exact expectations
      E(Q(state_n)) of the Lean reference semantics for every compared n.

F141  (synthesised loops)  `SolvLoopSynthesizer` replaces every effective variable by a *deterministic* variable
      that carries its mean (`t = E-recurrence of var`), but keeps non-linear monomials of effective variables in the
      update of the fresh variable s (and of retained variables): for a random effective z the loop computes
      (E z)^2 where the source has E(z^2).  Structural signature decided by the Lean loop certificate
      (op synth_loop_check): the source is random, the synthesised loop is closed, its own system and the initial
      vectors check, and the *only* rows on which the source's one-step operator disagrees with the loop's are
      monomials of total degree ≥ 2 in retained (effective) variables — every linear row, in particular the row of
      s itself, agrees.  Any other disagreement is not attributed.
"""
from fractions import Fraction as Fr

from .common import model_one
from .pool import run_tasks


def _run(fn, args, timeout=400):
    r = run_tasks([{"fn": "harness.tasks.c14:" + fn, "args": args}], timeout=timeout, nworkers=1)[0]
    if r.get("status") != "ok":
        return None
    return r["result"]


def piecewise_dropped(prop, rec):
    if rec.get("kind") != "inv" or not (rec.get("mismatch") or rec.get("cf_first_bad")):
        return None
    case = rec["case"]
    args = {"inv_deg": case["inv_deg"], "mode": rec["mode"], "seed": rec.get("seed", 0), "nmax": 5}
    if case.get("path"):
        args["path"] = case["path"]
    else:
        args["text"] = case["text"]
    res = _run("repair_piecewise", args)
    if not res or rec["si"] >= len(res["solutions"]):
        return None
    r = res["solutions"][rec["si"]]
    if not r["has_piecewise"] or r.get("Q") is None:
        return None
    # exact expectations of the re-run's own Q (the parametrisation of the solution family may differ between runs)
    from .checks.c14 import poly_from_terms, monos_of, expect_poly, sigma_source, json_vars
    Q = poly_from_terms(r["Q"])
    monos = monos_of(Q)
    pj = rec["source"]
    names = json_vars(pj, set()) | {x for m in Q for x, _ in m}
    sig = sigma_source(r["point"], names, set(r["symbols"]))
    ans = model_one({"op": "moments", "program": pj, "sigma0": sig, "monos": monos or [[]], "nmax": 5, "budget": 6000},
                    timeout=60)
    if not ans.get("ok"):
        return None
    exact = expect_poly(Q, monos or [[]], ans["values"])
    if len(exact) < 2:
        return None
    try:
        repaired = [Fr(v) for v in r["values"][:len(exact)]]
    except Exception:  # noqa
        return None
    coded = []
    for tag, v in r["f_values"][:len(exact)]:
        coded.append(Fr(v) if tag == "q" else None)
    if repaired != exact:
        return None
    if coded == exact:
        return None     # the re-run does not reproduce a wrong closed form
    first = next(i for i, (a, b) in enumerate(zip(coded, exact)) if a != b)
    return (f"closed form of E({rec['sol']['Q_str'][:60]}) wrong from n={first} on: the Piecewise initial-value case of a "
            f"solved effective monomial is stripped by solve_rec_by_summing/without_piecewise [{case['id']} {rec['mode']}]")


def nonlinear_effective_in_loop(prop, rec):
    if rec.get("kind") != "loop" or not rec.get("mismatch"):
        return None
    from .checks.c14 import is_random
    if not is_random(rec["source"]):
        return None
    cert = rec.get("cert") or {}
    if not (cert.get("ok") and cert.get("closed") and cert.get("target_system_ok") and cert.get("init_equal")):
        return None
    bad = cert.get("bad_rows") or []
    if not bad:
        return None
    retained = set(rec["target"]["retained"])
    for i in bad:
        elem = cert["elems"][i]
        if len(elem) != 1:
            return None
        mono = elem[0][0]
        if sum(k for _, k in mono) < 2 or any(x not in retained for x, _ in mono):
            return None
    m = rec["mismatch"]
    return (f"synthesised loop computes powers of the means of random effective variables "
            f"({[cert['elems'][i][0][0] for i in bad][:3]}) where the source has their moments: moment of {m['mono']} "
            f"wrong from n={m['n']} [{rec['case']['id']}]")
