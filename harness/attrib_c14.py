"""Attribution of C14 failures to entries of known_findings.json.

F140  (invariants)  `utils/solvers.py:solve_rec_by_summing` strips every `Piecewise` from the summed closed form
      (`without_piecewise`), and with it the initial-value cases of the solved effective monomials: when an
      effective variable is read before it is (re)assigned in the first iteration — its closed form is
      `Piecewise((x0, n = 0), (general, True))` — the returned f ignores x0 and is wrong from n = 1 on.
      Cure used for attribution: the same synthesis call is repeated in a worker and exactly what the stripping
      removed, Σ_{j<n} k^j·(inhom(n−j) − general_branch(n−j)), is added back to the values of the closed form the
      tree returns (harness/tasks/c14.py:repair_piecewise; nothing else is recomputed, so e.g. a wrong summation
      bound is *not* cured).  The failure is attributed only if (a) the solved effective part contains a Piecewise
      in n, (b) the re-run reproduces a wrong closed form and (c) the repaired values equal the exact expectations
      E(Q(state_n)) of the Lean reference semantics for every compared n.

F141  (synthesised loops)  `SolvLoopSynthesizer` (both `handle_unsolvable_loop` and `handle_solvable_loop`) replaces
      every effective variable by a *deterministic* variable that carries its mean (`t = E-recurrence of var`), but
      keeps non-linear monomials of effective variables in the updates of the fresh variable s and of retained
      variables: for a random effective z the loop computes (E z)^2 where the source has E(z^2).  Signature, decided
      on the exact reachable law of the source (Lean reference semantics): the source is random; every non-copy
      update `v = g(..)` of the loop is an exact moment recurrence of the source, E[g(phi(state_n))] =
      E[phi(v)(state_{n+1})] for all compared n (so signs, coefficients and index shifts are right) and all watched first moments agree at n = 0 (initial values are right);
      some g contains a monomial of degree ≥ 2 all of whose variables are genuine carriers of a mean, i.e. are
      effective for one of the two reasons Polar's theory has: their own (composed) update is affine, or they are
      *finite-valued* in the source (a finite variable is never defective: its powers reduce, so e.g.
      `y = y/2 - y**2` on {0, 1, -1/2} is legitimately retained — gen-94 of the thorough tier, seed 0).  Finiteness is
      not taken from Polar's type inference but decided on the Lean reference semantics (`_finite_valued`): the
      joint support of the variable's dependency closure stops growing, which proves it finite for every n; and its
      exponent in the monomial must be smaller than its number of values (larger powers are reduced to lower ones
      by RecBuilder._reduce_powers in the unchanged tree — a surviving one is a lost reduction, not this finding).
      Any other disagreement is not attributed.
"""
from fractions import Fraction as Fr

from .common import model_one
from .pool import run_tasks


def _run(fn, args, timeout=400):
    for _ in range(2):      # one retry: a loaded machine must not turn a known finding into a violation
        r = run_tasks([{"fn": "harness.tasks.c14:" + fn, "args": args}], timeout=timeout, nworkers=1)[0]
        if r.get("status") == "ok":
            return r["result"]
    return None


def _model(req, timeout=90):
    import time
    for i in range(3):
        ans = model_one(req, timeout=timeout)
        if ans.get("ok"):
            return ans
        time.sleep(2)
    return ans


def piecewise_dropped(prop, rec):
    if rec.get("kind") != "inv" or not (rec.get("mismatch") or rec.get("cf_first_bad")):
        return None
    case = rec["case"]
    args = {"inv_deg": case["inv_deg"], "mode": rec["mode"], "seed": rec.get("seed", 0), "nmax": 5}
    if case.get("path"):
        args["path"] = case["path"]
    else:
        args["text"] = case["text"]
    res = _run("repair_piecewise", args)
    if not res or rec["si"] >= len(res["solutions"]):
        return None
    r = res["solutions"][rec["si"]]
    if not r["has_piecewise"] or r.get("Q") is None:
        return None
    # exact expectations of the re-run's own Q (the parametrisation of the solution family may differ between runs)
    from .checks.c14 import poly_from_terms, monos_of, expect_poly, sigma_source, json_vars
    Q = poly_from_terms(r["Q"])
    monos = monos_of(Q)
    pj = rec["source"]
    names = json_vars(pj, set()) | {x for m in Q for x, _ in m}
    sig = sigma_source(r["point"], names, set(r["symbols"]))
    ans = _model({"op": "moments", "program": pj, "sigma0": sig, "monos": monos or [[]], "nmax": 5, "budget": 6000})
    if not ans.get("ok"):
        return None
    exact = expect_poly(Q, monos or [[]], ans["values"])
    if len(exact) < 2:
        return None
    try:
        repaired = [Fr(v) for v in r["values"][:len(exact)]]
    except Exception:  # noqa
        return None
    coded = []
    for tag, v in r["f_values"][:len(exact)]:
        coded.append(Fr(v) if tag == "q" else None)
    if repaired != exact:
        return None
    if coded == exact:
        return None     # the re-run does not reproduce a wrong closed form
    first = next(i for i, (a, b) in enumerate(zip(coded, exact)) if a != b)
    return (f"closed form of E({rec['sol']['Q_str'][:60]}) wrong from n={first} on: the Piecewise initial-value case of a "
            f"solved effective monomial is stripped by solve_rec_by_summing/without_piecewise [{case['id']} {rec['mode']}]")


def _expr_poly(e):
    """model-AST expression -> polynomial {mono tuple: Fraction} (division only by constants)"""
    from .checks.c14 import poly_mul, poly_pow
    t = e[0]
    if t == "num":
        c = Fr(e[1])
        return {(): c} if c != 0 else {}
    if t == "var":
        return {((e[1], 1),): Fr(1)}
    if t in ("add", "sub"):
        a, b = _expr_poly(e[1]), _expr_poly(e[2])
        out = dict(a)
        for m, c in b.items():
            out[m] = out.get(m, Fr(0)) + (c if t == "add" else -c)
        return {m: c for m, c in out.items() if c != 0}
    if t == "mul":
        return poly_mul(_expr_poly(e[1]), _expr_poly(e[2]))
    if t == "neg":
        return {m: -c for m, c in _expr_poly(e[1]).items()}
    if t == "pow":
        return poly_pow(_expr_poly(e[1]), int(e[2]))
    if t == "div":
        d = _expr_poly(e[2])
        if set(d) != {()}:
            raise ValueError("division by a non-constant")
        return {m: c / d[()] for m, c in _expr_poly(e[1]).items()}
    raise ValueError(e)


def _subst_poly(g, phi):
    from .checks.c14 import poly_mul, poly_pow
    out = {}
    for m, c in g.items():
        p = {(): c}
        for y, k in m:
            if y not in phi:
                return None
            p = poly_mul(p, poly_pow(phi[y], k))
        for mm, cc in p.items():
            out[mm] = out.get(mm, Fr(0)) + cc
    return {m: c for m, c in out.items() if c != 0}


def _stmt_vars(node, acc):
    """every variable a statement of the model AST mentions: read, assigned, or kept when its condition fails"""
    if isinstance(node, list):
        if len(node) == 2 and node[0] == "var" and isinstance(node[1], str):
            acc.add(node[1])
        elif len(node) == 5 and node[0] == "assign":
            acc.add(node[1])
            if isinstance(node[4], str):
                acc.add(node[4])
            _stmt_vars(node[2], acc)
            _stmt_vars(node[3], acc)
        elif len(node) == 3 and node[0] == "simult":
            acc.update(node[1])
            _stmt_vars(node[2], acc)
        else:
            for x in node:
                _stmt_vars(x, acc)
    return acc


def _stmt_assigned(node, acc):
    if isinstance(node, list) and node:
        if node[0] == "assign":
            acc.add(node[1])
        elif node[0] == "simult":
            acc.update(node[1])
        elif node[0] == "ite":
            for br in node[2:]:
                for st in br:
                    _stmt_assigned(st, acc)
    return acc


def _finite_valued(src, sigma0, w, nmax=6):
    """Is the source variable `w` finite-valued along the whole run?  Decided on the Lean reference semantics (op
    `dist`, exact joint laws), independently of Polar's type inference:
      V := dependency closure of w in the loop body (over-approximated per top-level statement: whatever a statement
           assigning a member of V mentions belongs to V), so the V-part of the state after an iteration is a function
           of the V-part before it and of fresh draws: the joint supports satisfy J_{n+1} = F(J_n), F monotone and
           union-preserving;
      if J_{n+1} ⊆ J_0 ∪ … ∪ J_n for some n, that union U is closed (F(U) ⊆ U) and contains every J_m: w takes at
      most |U| values for every m.  Continuous draws in V make `dist` refuse (values are not constants).
    Returns the set of values of w (projection of U) or None."""
    try:
        if src.get("guard") != ["tt"]:
            return None
        body = src["body"]
        V = {w}
        changed = True
        while changed:
            changed = False
            for st in body:
                if _stmt_assigned(st, set()) & V:
                    vs = _stmt_vars(st, set())
                    if not vs <= V:
                        V |= vs
                        changed = True
        vs = sorted(V)
        iw = vs.index(w)
        seen = set()
        for n in range(nmax + 1):
            ans = _model({"op": "dist", "program": src, "sigma0": sigma0, "vars": vs, "n": n}, timeout=40)
            if not ans.get("ok"):
                return None
            J = {tuple(Fr(v) for v in vals) for wt, vals in ans["dist"] if Fr(wt) != 0}
            if not J or len(J) > 200:
                return None
            if n > 0 and J <= seen:
                return {t[iw] for t in seen}
            seen |= J
    except Exception:  # noqa
        return None
    return None


def nonlinear_effective_in_loop(prop, rec):
    """F141, decided on the reachable law of the *source* (exact, Lean reference semantics):
    (1) the source is random; (2) every non-copy update `v = g(..)` of the synthesised loop is an exact moment
    recurrence of the source, E[g(phi(state_n))] = E[phi(v)(state_{n+1})] for all compared n — the loop is right
    as a system over expectations; (3) some g contains a monomial of degree >= 2 and the variables of every such
    monomial are genuinely effective carriers of a mean: their own composed update is affine, or they stand for a
    source variable that is finite-valued for every n (`_finite_valued`, exact) — the only thing wrong is that the
    loop evaluates that monomial at the means.  A wrong sign / coefficient / shifted index breaks (2); a defective
    variable wrongly retained (non-linear self-dependence on infinitely many values) breaks (3)."""
    if rec.get("kind") != "loop" or not rec.get("mismatch"):
        return None
    from .checks.c14 import is_random, poly_from_terms, monos_of, expect_poly
    src, tg = rec["source"], rec["target"]
    if not is_random(src) or not tg.get("program"):
        return None
    # initial values must be right: every watched first moment agrees at n = 0
    try:
        os_, ot = rec["oracle_source"], rec["oracle_target"]
        for i in range(len(rec["watch"])):
            e0 = expect_poly(rec["images"][i], rec["smonos"] or [[]], os_["values"])[0]
            if e0 != Fr(ot["values"][i][0]):
                return None
    except Exception:  # noqa
        return None
    try:
        phi = {y: poly_from_terms(t) for y, t in tg["phi"].items()}
        vals = tg["values"]
        # never-assigned symbols of the loop (x0, free coefficients, parameters) are constants at the sample point
        updates = []
        assigned = [st[1] for st in tg["program"]["body"]]
        for st in tg["program"]["body"]:
            if st[0] != "assign" or st[2][0] != "expr" or st[3] != ["tt"]:
                return None
            g = _expr_poly(st[2][1])
            consts = {x for m in g for x, _ in m if x not in assigned and x in vals}
            if consts:
                from .checks.c14 import poly_mul
                gg = {}
                for m, c in g.items():
                    cc, mm = c, []
                    for x, k in m:
                        if x in consts:
                            cc *= Fr(vals[x]) ** k
                        else:
                            mm.append((x, k))
                    mm = tuple(mm)
                    gg[mm] = gg.get(mm, Fr(0)) + cc
                g = {m: c for m, c in gg.items() if c != 0}
            updates.append((st[1], g))
    except Exception:  # noqa
        return None
    # compose the body: value of every loop variable after one iteration as a polynomial over the old state
    cur = {}
    for v, g in updates:
        sub = {}
        ok = True
        for m in g:
            for x, _ in m:
                if x not in sub:
                    sub[x] = cur.get(x, {((x, 1),): Fr(1)})
        gv = _subst_poly(g, sub)
        if gv is None:
            return None
        cur[v] = gv
    work = sorted(cur.items())
    affine = {v for v, g in work if all(sum(k for _, k in m) <= 1 for m in g)}
    nonlinear, not_affine = [], set()
    for v, g in work:
        for m in g:
            if sum(k for _, k in m) >= 2:
                nonlinear.append(m)
                not_affine |= {x for x, _ in m if x not in affine}
    if not nonlinear:
        return None
    finite = []
    declared = (rec.get("res_info") or {}).get("finite_types") or {}
    for x in sorted(not_affine):
        # the loop variable must stand for one source variable (a `_t` carrier or a retained variable) ...
        img = phi.get(x)
        if img is None or len(img) != 1:
            return None
        (mono, coef), = img.items()
        if coef != 1 or len(mono) != 1 or mono[0][1] != 1:
            return None
        w = mono[0][0]
        # ... that takes finitely many values in the source, for every n ...
        values = _finite_valued(src, rec["sigma0"], w)
        if values is None:
            return None
        # ... and whose power is one the unchanged code keeps: RecBuilder._reduce_powers rewrites w**e, e >= number of
        # values of w, into lower powers (then the loop is right), so a surviving w**e with e that large is not this
        # finding but a lost reduction (seeded change C14_D on `y in {0, 1}; x = -x + 2*y**2`).  The number of values
        # is the exact one; Polar's declared type may be a superset (its typer is not relational), then that counts.
        bound = max(len(values), int(declared.get(w, 0) or 0))
        if any(e >= bound for m in nonlinear for y, e in m if y == x):
            return None
        finite.append(w)
    # (2) exact moment recurrences along the source run
    need, pairs = [], []
    from .checks.c14 import json_vars
    names = json_vars(src, set())
    for v, g in work:
        if v not in phi:
            continue
        lhs = _subst_poly(g, phi)
        if lhs is None:
            return None
        used = {x for p_ in (lhs, phi[v]) for m in p_ for x, _ in m}
        if not used <= names:
            continue        # a temporary of Polar's parser that the generator's own AST does not have
        pairs.append((v, lhs, phi[v]))
        need += monos_of(lhs) + monos_of(phi[v])
    seen, monos = set(), []
    for m in need:
        key = str(m)
        if key not in seen:
            seen.add(key)
            monos.append(m)
    ans = _model({"op": "moments", "program": src, "sigma0": rec["sigma0"], "monos": monos or [[]], "nmax": 5,
                  "budget": 6000})
    if not ans.get("ok"):
        return None
    checked = 0
    for v, lhs, img in pairs:
        a = expect_poly(lhs, monos or [[]], ans["values"])
        b = expect_poly(img, monos or [[]], ans["values"])
        for n in range(min(len(a), len(b)) - 1):
            if a[n] != b[n + 1]:
                return None
            checked += 1
    if checked == 0:
        return None
    m = rec["mismatch"]
    fin = f" ({', '.join(finite)} finite-valued in the source, hence effective)" if finite else ""
    return (f"synthesised loop evaluates non-linear monomials of random effective variables at their means "
            f"({[[list(x) for x in mm] for mm in nonlinear][:3]}){fin}; every update is an exact moment recurrence of the source: "
            f"moment of {m['mono']} wrong from n={m['n']} [{rec['case']['id']}]")
