"""Seeded generator of tiny *unsolvable* loops for C14 (harness AST, see hast.py).

Every program has two defective variables x, y (sometimes a third, t or w) that lie on one non-linear
dependency cycle, and usually an effective variable z.  The updates are engineered so that a linear
combination q·x − p·y cancels the non-linear monomial N:

    x' = k·x + p·N + L1(z)        y' = k·y + q·N + L2(z)

(so an invariant of degree 1 exists with E(Q') = k·Q + q·L1 − p·L2), with variations that exercise the
mechanisms named by the property: probabilistic choice between updates (the choice changes the
effective part or the coefficient of N), Bernoulli coefficients, effective variables that are
deterministic (toggle / counter / geometric), finite random (Bernoulli) or random walks (choice,
Normal increments — their second moments enter the effective part), symbolic parameters, initialised
and symbolic initial values, sequential vs simultaneous assignment.  About one program in five is
perturbed (the cancellation is destroyed for one coefficient) so that the search also meets loops
without the engineered invariant.

Two further families aim at the *initial value* and the *summation* of the closed form:
`dep-init` — the init block draws / chooses the value of x (choice, Bernoulli, DiscreteUniform) and derives y
(and sometimes z) from it by a polynomial, so that E(x^a y^b)(0) != E(x^a)(0)·E(y^b)(0); the body has no effective
part (Q' = k·Q, hence Q**2, with its mixed monomial x*y, is an invariant too) and the search runs at degree 2;
`kzero` — k = 0 (Q' contains no multiple of Q) with an effective part polynomial in a counter, the case in
which sympy leaves `Sum(0**j ...)` unevaluated.
"""
from fractions import Fraction as Fr

from . import hast as H

KS = [Fr(1), Fr(2), Fr(1, 2), Fr(-1), Fr(3), Fr(2, 3), Fr(1), Fr(2)]
PQ = [1, 2, -1, 3, -2]
CONSTS = [Fr(0), Fr(1), Fr(-1), Fr(2), Fr(1, 2), Fr(3)]
INITS = [Fr(0), Fr(1), Fr(2), Fr(-1), Fr(1, 2), Fr(3)]

FAMILIES = ["det", "dep-init", "choice-eff", "choice-coef", "bern-coef", "walk", "normal", "param", "three",
            "kzero", "dep-init", "det"]


def _lin(r, zs, allow_sq):
    """affine (optionally quadratic) expression over the effective variables zs"""
    e = H.num(r.choice(CONSTS))
    for z in zs:
        if r.random() < 0.8:
            e = H.add(e, H.mul(H.num(r.choice([1, -1, 2, Fr(1, 2)])), H.var(z)))
        if allow_sq and r.random() < 0.5:
            e = H.add(e, H.mul(H.num(r.choice([1, -1, 2])), H.pw(H.var(z), 2)))
    return e


def _N(r, style):
    y2, xy, x2 = H.pw(H.var("y"), 2), H.mul(H.var("x"), H.var("y")), H.pw(H.var("x"), 2)
    if style == "seq":
        # y is assigned after x and N is written twice: it must not mention x
        return y2
    return r.choice([y2, xy, H.add(y2, xy), H.sub(x2, y2), H.add(x2, H.mul(H.num(2), xy))])


def generate(r, idx, family=None):
    fam = family or FAMILIES[idx % len(FAMILIES)] if r.random() < 0.6 else r.choice(FAMILIES)
    feats = {fam}
    k = r.choice(KS)
    p, q = Fr(r.choice(PQ)), Fr(r.choice(PQ))
    params = []
    init, body = [], []

    # ---- effective variable --------------------------------------------------------------------
    if fam == "kzero":
        k = Fr(0)
    zkind = {"det": r.choice(["toggle", "counter", "geom", "none"]),
             "dep-init": "none", "kzero": "counter",
             "choice-eff": r.choice(["toggle", "counter", "bern"]),
             "choice-coef": r.choice(["toggle", "none", "counter"]),
             "bern-coef": r.choice(["counter", "none", "toggle"]),
             "walk": "walk", "normal": r.choice(["normalwalk", "normal"]),
             "param": r.choice(["toggle", "counter", "bern"]),
             "three": r.choice(["toggle", "counter", "none"])}[fam]
    feats.add("z:" + zkind)
    zs = [] if zkind == "none" else ["z"]
    zupd = None
    allow_sq = False
    if zkind == "toggle":
        init.append(H.assign("z", H.ex(H.num(r.choice([0, 1])))))
        zupd = H.assign("z", H.ex(H.sub(H.num(1), H.var("z"))))
    elif zkind == "counter":
        if r.random() < 0.7:
            init.append(H.assign("z", H.ex(H.num(r.choice(INITS)))))
        zupd = H.assign("z", H.ex(H.add(H.var("z"), H.num(r.choice([1, 2, -1])))))
        allow_sq = r.random() < 0.4
    elif zkind == "geom":
        init.append(H.assign("z", H.ex(H.num(r.choice([1, 2, -1])))))
        zupd = H.assign("z", H.ex(H.mul(H.num(r.choice([2, Fr(1, 2), -1, 3])), H.var("z"))))
    elif zkind == "bern":
        pr = H.num(r.choice([Fr(1, 2), Fr(1, 3), Fr(3, 4)]))
        if fam == "param" and r.random() < 0.5:
            params.append("pp")
            pr = H.var("pp")
        zupd = H.assign("z", ("dist", "Bernoulli", [pr]))
        allow_sq = r.random() < 0.5
    elif zkind == "walk":
        if r.random() < 0.6:
            init.append(H.assign("z", H.ex(H.num(r.choice(INITS)))))
        w = H.num(r.choice([Fr(1, 2), Fr(1, 3), Fr(1, 4)]))
        zupd = H.assign("z", ("choice", [(H.add(H.var("z"), H.num(1)), w),
                                         (H.sub(H.var("z"), H.num(r.choice([1, 2]))), H.sub(H.num(1), w))]))
        allow_sq = r.random() < 0.7
    elif zkind == "normalwalk":
        if r.random() < 0.6:
            init.append(H.assign("z", H.ex(H.num(r.choice(INITS)))))
        body.append(H.assign("g", ("dist", "Normal", [H.num(r.choice([0, 1])), H.num(r.choice([1, 2]))])))
        zupd = H.assign("z", H.ex(H.add(H.var("z"), H.var("g"))))
        allow_sq = r.random() < 0.7
    elif zkind == "normal":
        zupd = H.assign("z", ("dist", "Normal", [H.num(r.choice([0, 1, -1])), H.num(r.choice([1, 2, 4]))]))
        allow_sq = r.random() < 0.7
    if allow_sq:
        feats.add("effective-square")

    # ---- initial values of the defective variables ----------------------------------------------
    if fam == "dep-init":
        kind = r.choice(["choice", "bernoulli", "duniform", "choice3"])
        feats.add("init:" + kind)
        if kind == "choice":
            a, b = r.sample([Fr(1), Fr(3), Fr(-1), Fr(2), Fr(0), Fr(1, 2)], 2)
            w = r.choice([Fr(1, 2), Fr(1, 3), Fr(3, 4)])
            rx0 = ("choice", [(H.num(a), H.num(w)), (H.num(b), H.num(1 - w))])
        elif kind == "choice3":
            rx0 = ("choice", [(H.num(1), H.num(Fr(1, 2))), (H.num(2), H.num(Fr(1, 4))), (H.num(-2), H.num(Fr(1, 4)))])
        elif kind == "bernoulli":
            rx0 = ("dist", "Bernoulli", [H.num(r.choice([Fr(1, 2), Fr(1, 3), Fr(3, 4)]))])
        else:
            lo = r.choice([0, 1, -1])
            rx0 = ("dist", "DiscreteUniform", [H.num(lo), H.num(lo + r.choice([1, 2, 3]))])
        first, second = r.choice([("x", "y"), ("y", "x")])
        init.append(H.assign(first, rx0))
        dep = r.choice([H.mul(H.num(2), H.var(first)), H.add(H.var(first), H.num(1)), H.pw(H.var(first), 2),
                        H.sub(H.num(1), H.var(first)), H.add(H.mul(H.num(-1), H.var(first)), H.pw(H.var(first), 2))])
        init.append(H.assign(second, H.ex(dep)))
    else:
        for v in ("x", "y"):
            if r.random() < 0.5:
                init.append(H.assign(v, H.ex(H.num(r.choice(INITS)))))
            else:
                feats.add("symbolic-init")

    L1, L2 = _lin(r, zs, allow_sq), _lin(r, zs, allow_sq)
    if fam == "dep-init":
        L1 = L2 = H.num(0)          # Q' = k·Q exactly, so Q**2 (mixed monomial x*y) is an invariant as well
    if fam == "kzero":
        allow_sq = True
        L1, L2 = _lin(r, zs, True), _lin(r, zs, r.random() < 0.5)
    if fam == "param" and "pp" not in params or (fam == "param" and r.random() < 0.5):
        params.append("cc")
        L1 = H.add(L1, H.mul(H.var("cc"), H.var("z") if zs else H.num(1)))
        feats.add("param-coef")

    style = r.choice(["seq", "simult", "temp"])
    feats.add("style:" + style)
    N = _N(r, style)
    kx = H.mul(H.num(k), H.var("x"))
    ky = H.mul(H.num(k), H.var("y"))
    perturbed = r.random() < 0.2 and fam not in ("dep-init", "kzero")
    ky_used = H.mul(H.num(k + (1 if perturbed else 0)), H.var("y")) if perturbed else ky
    if perturbed:
        feats.add("perturbed")

    def upd(base, coef, n_expr, lin):
        return H.add(H.add(base, H.mul(H.num(coef), n_expr)), lin)

    pre = []
    n_expr = N
    if style == "temp":
        pre.append(H.assign("t", H.ex(N)))
        n_expr = H.var("t")
    coefN_x, coefN_y = p, q
    bvar = None
    if fam == "bern-coef":
        bvar = "b"
        pre.append(H.assign("b", ("dist", "Bernoulli", [H.num(r.choice([Fr(1, 2), Fr(1, 4), Fr(2, 3)]))])))
        n_expr = H.mul(H.var("b"), n_expr)

    if fam == "choice-eff":
        w = H.num(r.choice([Fr(1, 2), Fr(1, 3), Fr(3, 4)]))
        L1b = _lin(r, zs, allow_sq)
        rx = ("choice", [(upd(kx, coefN_x, n_expr, L1), w), (upd(kx, coefN_x, n_expr, L1b), H.sub(H.num(1), w))])
        ry = H.ex(upd(ky_used, coefN_y, n_expr, L2))
    elif fam == "choice-coef":
        # x' = kx + 2p·N {1/2} kx + 0·N : the expected coefficient of N is p
        rx = ("choice", [(upd(kx, 2 * coefN_x, n_expr, L1), H.num(Fr(1, 2))), (H.add(kx, L1), H.num(Fr(1, 2)))])
        ry = H.ex(upd(ky_used, coefN_y, n_expr, L2))
    else:
        rx = H.ex(upd(kx, coefN_x, n_expr, L1))
        ry = H.ex(upd(ky_used, coefN_y, n_expr, L2))

    z_first = r.random() < 0.6
    if zupd is not None and z_first:
        body.append(zupd)
    body += pre
    if style == "simult":
        body.append(("simult", ["x", "y"], [rx, ry]))
    else:
        body.append(H.assign("x", rx))
        body.append(H.assign("y", ry))
    if fam == "three":
        # a third defective variable fed by the cycle (reachable from it), linear in itself
        if r.random() < 0.5:
            init.append(H.assign("w", H.ex(H.num(r.choice(INITS)))))
        body.append(H.assign("w", H.ex(H.add(H.mul(H.num(r.choice(KS)), H.var("w")),
                                             H.mul(H.num(r.choice([1, 2, -1])), H.var(r.choice(["x", "y"])))))))
    if zupd is not None and not z_first:
        body.append(zupd)

    prog = {"init": init, "guard": H.TT, "body": body}
    deg = 2 if ((r.random() < 0.2 and fam != "three") or fam == "dep-init") else 1
    return {"id": f"gen-{idx}", "family": fam, "program": prog, "features": sorted(feats),
            "params": sorted(set(params)), "inv_deg": deg,
            "engineered": None if perturbed else {"k": H.fr_str(k), "Q": f"{H.fr_str(q)}*x - ({H.fr_str(p)})*y"}}
