"""Check-side machinery shared by C06 and C07: case lists (generated closed-form tuples, programs run
through `--invariants`), the Lean requests, judging, replay."""
import json
import os
from fractions import Fraction as Fr

from . import c0607_lib as L
from . import pipeline
from .common import ROOT, REPO, model_batch_parallel, rng
from .oracle import case_text, polar_subs, moments_request
from .pool import run_tasks

NRAW = 6          # central moments / cumulants are recomputed from raw-moment sequences for n0 <= n <= n0 + NRAW
TASK_TUPLE = "harness.tasks.c0607:tuple_case"
TASK_PROGRAM = "harness.tasks.c0607:program_case"

README_WALKS = """x,y = 0, 0
while true:
    x = x + 1 {1/2} x - 1
    y = y + 1 {1/2} y - 1
end
"""

INLINE = {
    "readme-two-walks": (README_WALKS, ["E(x)", "E(y)", "c2(x)", "c2(y)"]),
    "readme-two-walks-k": (README_WALKS, ["E(x**2)", "k2(y)", "E(x*y)", "c2(x)"]),
    "geo-4-8": ("x, y = 1, 1\nwhile true:\n    x = 4*x\n    y = 8*y\nend\n", []),
    "geo-2-4-special": ("x, y, z = 3, 1, 0\nwhile true:\n    z = x\n    x = 2\n    y = 4*y\nend\n", []),
    "fib-like": ("a, b = 2, 1\nwhile true:\n    a, b = b, a + b\nend\n", []),
    "pell": ("a, b = 1, 0\nwhile true:\n    a, b = a + 2*b, a + b\nend\n", []),
    "prob-geo": ("x, y = 1, 1\nwhile true:\n    x = 2*x {1/2} x\n    y = 3*y {1/4} y\nend\n",
                 ["E(x)", "E(y)", "E(x**2)", "E(x*y)"]),
    "prob-half": ("x, y = 1, 1\nwhile true:\n    x = 4*x {1/2} 0\n    y = y/2\nend\n", ["E(x)", "E(y)", "E(x**2)"]),
    "dep-primes-6-30-5": ("x, y, z = 1, 1, 1\nwhile true:\n    x = 11*x {1/2} x\n    y = 59*y {1/2} y\n    z = 9*z {1/2} z\nend\n",
                          ["E(x)", "E(y)", "E(z)"]),
    "powers-2-8": ("x, y = 1, 1\nwhile true:\n    x = 2*x\n    y = 8*y\nend\n", []),
    "sign-flip": ("x, s = 1, 1\nwhile true:\n    s = -s\n    x = 2*x\nend\n", []),
    "walk-cumulants": ("x = 0\nwhile true:\n    x = x + 2 {1/3} x - 1\nend\n", ["E(x)", "c2(x)", "k3(x)", "E(x**2)"]),
}

FILES = [
    ("documentation/loops/fibonacci.prob", [], None),
    ("documentation/loops/fibonacci2.prob", [], None),
    ("documentation/loops/loop.prob", ["E(x)", "E(y)", "c2(x)", "c2(y)"], None),
    ("benchmarks/consec-pythagorean.prob", [], None),
    ("benchmarks/rodriguez_2004/test1.prob", ["E(x)", "E(y)", "E(z)"], {"a": "3", "b": "5", "c": "-2"}),
    ("tests/benchmarks/2dwalk.prob", ["E(x)", "E(y)", "E(x**2)", "E(y**2)"], None),
    ("tests/benchmarks/square.prob", ["E(x)", "E(y)", "c2(x)"], None),
    ("benchmarks/polar_paper/random_walk_1d.prob", ["E(x)", "E(x**2)", "k2(x)"], None),
    ("documentation/loops/geometric.prob", ["E(x)", "E(steps)", "E(stop)"], None),
    ("tests/benchmarks/gambling.prob", ["E(money)", "E(bet)", "E(is_red)"], None),
    ("tests/benchmarks/binomial.prob", ["E(x)", "E(x**2)", "c2(x)"], {"p": "1/3"}),
    ("benchmarks/polar_paper/geometric.prob", ["E(x)", "E(runtime)", "E(stop)"], None),
    ("tests/benchmarks/duelling_cowboys.prob", None, None),
    ("tests/benchmarks/stuttering_p.prob", None, None),
    ("tests/benchmarks/hermann3.prob", None, None),
    ("benchmarks/polar_paper/randomized_response.prob", None, None),
    ("benchmarks/polar_paper/las_vegas_search.prob", None, None),
]


def _mono_str(mono):
    return "*".join(f"{x}**{k}" if k != 1 else x for x, k in mono) or "1"


def program_cases(tier, tag, n_gen):
    cases = []
    for name, (text, goals) in INLINE.items():
        cases.append({"id": "inline:" + name, "kind": "program", "text": text, "goals": goals, "subs": None})
    for path, goals, subs in FILES:
        p = os.path.join(REPO, path)
        if not os.path.exists(p) or goals is None:
            continue
        with open(p) as fh:
            text = fh.read()
        cases.append({"id": "file:" + path, "kind": "program", "text": text, "goals": goals, "subs": subs})
    gen = pipeline.generate_cases(n_gen, tag, families=["poly", "choice", "poly", "finite", "simult"])
    r = rng(tag + "-goals")
    for c in gen:
        monos = [g for g in c["goals"] if g][:3]
        goals = [f"E({_mono_str(m)})" for m in monos]
        vs = sorted({x for m in monos for x, _ in m})
        if vs:
            v = r.choice(vs)
            goals.append(r.choice([f"c2({v})", f"k2({v})", f"c3({v})"]))
        if len(goals) < 2:
            continue
        cases.append({"id": "gen:" + c["id"], "kind": "program", "text": case_text(c), "goals": goals,
                      "subs": polar_subs(c) or None, "gen_case": c, "family": c.get("family")})
    return cases


def tuple_cases(tier, tag, n_gen):
    r = rng(tag)
    return [dict(t) for t in L.FIXED_TUPLES] + [L.gen_tuple(r, i) for i in range(n_gen)]


def make_task(case, want_c07, k_extra, caps):
    if case["kind"] == "tuple":
        return {"fn": TASK_TUPLE, "args": {"cfs": case["cfs"], "want_c07": want_c07, "k_extra": k_extra,
                                           "caps": caps}}
    return {"fn": TASK_PROGRAM, "args": {"text": case["text"], "goals": case["goals"], "want_c07": want_c07,
                                         "k_extra": k_extra, "caps": caps, "subs": case.get("subs")}}


def run_cases(cases, want_c07, k_extra, caps, timeout, progress=None):
    tasks = [make_task(c, want_c07, k_extra, caps) for c in cases]
    return run_tasks(tasks, timeout=timeout, progress=progress)


# ------------------------------------------------------------------------------------------------
# Lean requests and judging
# ------------------------------------------------------------------------------------------------

def _with_D(req, res):
    if res.get("D") is not None:
        req["D"] = res["D"]
    return req


def lean_requests(res, want_c07):
    """[(tag, payload, request)] for one worker result with status ok"""
    reqs = []
    cfs = res["cfs_ext"] if res.get("irrational_basis") else res["cfs"]
    for i, p in enumerate(res["basis"]):
        reqs.append(("inv", i, _with_D({"op": "invariant_check", "cfs": cfs, "poly": p, "n0": res["n0"]}, res)))
    for si, s in enumerate(res.get("systems") or []):
        if "error" in s:
            continue
        terms = dict((g, ts) for g, ts in res["cfs"]).get(s["goal"])
        if terms is None:
            continue
        if s.get("kind", "E") == "E":
            reqs.append(("sys", s["goal"], _with_D({"op": "cfinite_check", "A": s["A"], "v": s["v"], "i": s["i"],
                                                    "n0": res["n0"], "terms": terms}, res)))
        else:
            for j, rw in enumerate(s["raws"]):
                reqs.append(("raw", (si, j), {"op": "matpow_seq", "A": rw["A"], "v": rw["v"], "nmax": res["n0"] + NRAW}))
    c07 = res.get("c07") or {}
    if want_c07 and c07.get("status") == "ok":
        cofs = [c if c is not None else [] for c in c07["cofs"]]
        reqs.append(("rel", None, _with_D({"op": "relations_check", "cfs": res["cfs"], "k": c07["k"], "n0": res["n0"],
                                           "basis": res["basis"], "kernel": c07["kernel"], "free": c07["free"],
                                           "pivC": c07["pivC"], "pivR": c07["pivR"], "cofs": cofs}, res)))
        for i, q in enumerate(c07["candidates"]):
            reqs.append(("cand", i, _with_D({"op": "invariant_check", "cfs": res["cfs"], "poly": q,
                                             "n0": res["n0"]}, res)))
    return reqs


def judge(cases, outs, want_c07, model_timeout=120):
    """returns one verdict dict per case:
      status      worker status (ok / refused / timeout / symbolic / unsupported-* / harness-error ...)
      c06_bad     [{poly, poly_str, n, value}]        basis polynomials that do not vanish
      c06_ok      number of basis polynomials validated for all n >= n0
      sys_bad     closed forms that disagree with Polar's own linear system
      c07         {status: validated|violation|skipped-*|harness-error|none, witness, k, ...}"""
    allreqs, owner = [], []
    verdicts = []
    for ci, (case, out) in enumerate(zip(cases, outs)):
        v = {"status": None, "c06_bad": [], "c06_ok": 0, "sys_bad": [], "sys_ok": 0, "c07": {"status": "none"},
             "windows": []}
        verdicts.append(v)
        if out["status"] == "timeout":
            v["status"] = "timeout"
            continue
        if out["status"] != "ok":
            v["status"] = "harness-error"
            v["detail"] = out
            continue
        res = out["result"]
        v["status"] = res.get("status")
        v["res"] = res
        if res.get("status") != "ok":
            continue
        for tag, pl, req in lean_requests(res, want_c07):
            allreqs.append(req)
            owner.append((ci, tag, pl))
    answers = model_batch_parallel(allreqs, timeout=model_timeout)
    for (ci, tag, pl), ans in zip(owner, answers):
        v = verdicts[ci]
        res = v["res"]
        if not ans.get("ok"):
            if ans.get("error") == "oracle-timeout":
                v.setdefault("model_timeouts", []).append(tag)
                if tag == "rel":
                    v["c07"] = {"status": "skipped-model-timeout"}
                continue
            v.setdefault("model_errors", []).append({"tag": tag, "error": str(ans.get("error"))[:300]})
            continue
        if tag == "inv":
            if ans["holds"]:
                v["c06_ok"] += 1
                v["windows"].append(ans["window"])
            else:
                v["c06_bad"].append({"index": pl, "poly": res["basis"][pl], "poly_str": res["basis_str"][pl],
                                     "n": ans["first_bad"]["n"], "value": ans["first_bad"]["value"],
                                     "window": ans["window"]})
        elif tag == "sys":
            if ans["agree"]:
                v["sys_ok"] += 1
            else:
                v["sys_bad"].append({"goal": pl, "first_bad": ans["first_bad"]})
        elif tag == "raw":
            si, j = pl
            v.setdefault("_raw", {})[(si, j)] = [Fr(row[res["systems"][si]["raws"][j]["i"]]) for row in ans["seq"]]
        elif tag == "rel":
            c07 = res["c07"]
            v["c07"] = {"status": "pending", "k": c07["k"], "ncols": ans["ncols"], "window": ans["window"],
                        "nrows": ans["nrows"], "kernel_dim": c07["kernel_dim"], "kernel_ok": ans["kernel_ok"],
                        "member_ok": ans["member_ok"], "worker_window": c07["window"], "cands": []}
        elif tag == "cand":
            v.setdefault("_cands", []).append((pl, ans))
    for v in verdicts:
        _judge_derived_goals(v)
    for v in verdicts:
        c = v["c07"]
        if c.get("status") != "pending":
            if v.get("res") and (v["res"].get("c07") or {}).get("status", "").startswith("skipped") and c["status"] == "none":
                v["c07"] = {"status": v["res"]["c07"]["status"]}
            v.pop("_cands", None)
            continue
        c07 = v["res"]["c07"]
        cands = dict(v.pop("_cands", []))
        if not c["kernel_ok"]:
            c["status"] = "harness-error"
            c["detail"] = "Lean rejected the proposed kernel basis / pivots"
            continue
        # kernel vectors without a Lean-accepted certificate
        witnesses, uncertified, broken = [], [], []
        cand_idx = 0
        for i, (cf, ok) in enumerate(zip(c07["cofs"], c["member_ok"])):
            if cf is not None and v["res"]["basis"]:
                if not ok:
                    broken.append(i)          # sympy's cofactors do not check: harness / sympy problem
                continue
            q = c07["kernel"][i]
            if q in c07["candidates"]:
                ans = cands.get(c07["candidates"].index(q))
                if ans is None or not ans.get("ok"):
                    uncertified.append(i)
                elif ans["holds"]:
                    witnesses.append({"poly": q, "poly_str": L.poly_str(q), "window": ans["window"]})
                else:
                    broken.append(i)          # a kernel vector of the window matrix that is not a relation
            else:
                uncertified.append(i)         # member according to sympy's Groebner basis only
        c["uncertified"] = len(uncertified)
        if broken:
            c["status"] = "harness-error"
            c["detail"] = f"certificates rejected for kernel vectors {broken[:5]}"
        elif witnesses:
            witnesses.sort(key=lambda w: (L.poly_degree(w["poly"]), len(w["poly"])))
            c["status"] = "violation"
            c["witness"] = witnesses[0]
            c["n_witnesses"] = len(witnesses)
        elif uncertified:
            c["status"] = "validated-sympy-membership"
        else:
            c["status"] = "validated"
    return verdicts


def central_from_raw(k, m):
    """E (X - EX)^k from raw moments m[1..k] (m[0] = 1)"""
    from math import comb
    mm = [Fr(1)] + [m[j] for j in range(1, k + 1)]
    return sum(comb(k, j) * mm[j] * (-mm[1]) ** (k - j) for j in range(k + 1))


def cumulant_from_raw(k, m):
    """kappa_k by the moment-cumulant recursion"""
    from math import comb
    kap = {}
    for n in range(1, k + 1):
        kap[n] = m[n] - sum(comb(n - 1, j - 1) * kap[j] * m[n - j] for j in range(1, n))
    return kap[k]


def _judge_derived_goals(v):
    """ck(M) / kk(M) goals: the goal's closed form (term list) against the value recomputed from the
    raw-moment sequences of Polar's own linear systems, n0 <= n <= n0 + NRAW"""
    raw = v.pop("_raw", None)
    if not raw or v.get("status") != "ok":
        return
    res = v["res"]
    F = L.Field(res.get("D"))
    cfs = {g: L.parse_terms(F, ts) for g, ts in res["cfs"]}
    for si, s in enumerate(res.get("systems") or []):
        if s.get("kind") not in ("c", "k"):
            continue
        seqs = [raw.get((si, j)) for j in range(s["order"])]
        if any(q is None for q in seqs):
            continue
        ok = True
        for n in range(res["n0"], res["n0"] + NRAW + 1):
            m = {j + 1: seqs[j][n] for j in range(s["order"])}
            want = central_from_raw(s["order"], m) if s["kind"] == "c" else cumulant_from_raw(s["order"], m)
            got = L.eval_terms(F, cfs[s["goal"]], n)
            if got != F.of_rat(want):
                v["sys_bad"].append({"goal": s["goal"], "first_bad": {"n": n, "expected": L.fr_str(want),
                                                                     "got": L.num_json(F, got)},
                                     "how": "recomputed from the raw moments of Polar's linear systems"})
                ok = False
                break
        if ok:
            v["sys_ok"] += 1


# ------------------------------------------------------------------------------------------------
# oracle cross-check for generated programs (independent semantics): raw moments, n >= n0
# ------------------------------------------------------------------------------------------------

def _parse_goal(g):
    """'E(x**2*y)' -> ('E', 1, mono) ; 'c2(x)' -> ('c', 2, mono) ; 'k3(x)' -> ('k', 3, mono)"""
    import re
    m = re.fullmatch(r"E\((.*)\)", g)
    if m:
        kind, order, body = "E", 1, m.group(1)
    else:
        m = re.fullmatch(r"([ck])(\d+)\((.*)\)", g)
        if not m:
            return None
        kind, order, body = m.group(1), int(m.group(2)), m.group(3)
    mono = []
    for p in body.replace("**", "^").split("*"):
        if "^" in p:
            x, k = p.split("^")
            mono.append((x.strip(), int(k)))
        else:
            mono.append((p.strip(), 1))
    return kind, order, mono


def _from_raw(kind, order, raw):
    """central moment / cumulant of order <= 3 from raw moments raw[1..order]"""
    m1 = raw[1]
    if kind == "E":
        return m1
    if order == 1:
        return m1 if kind == "k" else None     # c1: known finding F8 of C11 - not compared here
    if order == 2:
        return raw[2] - m1 ** 2
    if order == 3:
        return raw[3] - 3 * raw[2] * m1 + 2 * m1 ** 3
    return None


def oracle_crosscheck(cases, verdicts, nmax=5):
    """for generated programs: goal values from the term lists (n0 <= n <= nmax) against the Lean
    reference semantics.  Returns list of (case index, goal, n, closed-form value, oracle value)."""
    reqs, meta = [], []
    for ci, (case, v) in enumerate(zip(cases, verdicts)):
        if v.get("status") != "ok" or "gen_case" not in case or v["res"].get("D") is not None:
            continue
        goals = []
        for gid, gstr in zip(v["res"]["goal_ids"], case["goals"]):
            pg = _parse_goal(gstr)
            if pg is None or pg[1] > 3:
                continue
            goals.append((gid, pg))
        monos = []
        for gid, (kind, order, mono) in goals:
            for j in range(1, order + 1):
                monos.append([[x, k * j] for x, k in mono])
        if not monos:
            continue
        reqs.append(moments_request(case["gen_case"], nmax, goals=[[(x, k) for x, k in m] for m in monos]))
        meta.append((ci, goals))
    answers = model_batch_parallel(reqs, timeout=40)
    bad, compared = [], 0
    for (ci, goals), ans in zip(meta, answers):
        if not ans.get("ok"):
            continue
        v = verdicts[ci]
        F = L.Field(None)
        cfs = {g: L.parse_terms(F, ts) for g, ts in v["res"]["cfs"]}
        pos = 0
        for gid, (kind, order, mono) in goals:
            seqs = ans["values"][pos:pos + order]
            pos += order
            for n in range(v["res"]["n0"], nmax + 1):
                if any(n >= len(s) for s in seqs):
                    break
                raw = {j + 1: Fr(seqs[j][n]) for j in range(order)}
                want = _from_raw(kind, order, raw)
                if want is None:
                    continue
                got = L.eval_terms(F, cfs[gid], n)[0]
                compared += 1
                if got != want:
                    bad.append((ci, gid, n, L.fr_str(got), L.fr_str(want)))
                    break
    return bad, compared


# ------------------------------------------------------------------------------------------------
# replay
# ------------------------------------------------------------------------------------------------

def replay_blob(case, v, what):
    res = v.get("res") or {}
    blob = {"case": {k: case[k] for k in ("id", "kind", "cfs", "text", "goals", "subs") if k in case},
            "closed_forms": res.get("closed_forms"), "goal_ids": res.get("goal_ids"),
            "terms": res.get("cfs"), "D": res.get("D"), "n0": res.get("n0"),
            "bases": res.get("bases"), "lattice": res.get("lattice"),
            "reported_basis": res.get("basis_str"), "reported_basis_polys": res.get("basis"),
            "failure": what,
            "how": "tuple: InvariantIdeal({goal: closed form}).compute_basis(); program: polar.py <text> --goals ... "
                   "--invariants.  `terms` are the exact term lists (coef*n^deg*base^n) of the goal closed forms; "
                   "polar-model op invariant_check decides p(f(n)) = 0 for all n >= n0"}
    return blob


def replay(prop, path, want_c07):
    with open(os.path.join(ROOT, path) if not os.path.isabs(path) else path) as fh:
        blob = json.load(fh)
    case = blob["case"]
    outs = run_cases([case], want_c07, 0, None, timeout=600)
    vs = judge([case], outs, want_c07)
    v = vs[0]
    print("status:", v["status"], "| reported basis:", (v.get("res") or {}).get("basis_str"))
    bad = False
    if prop == "C06":
        for b in v["c06_bad"]:
            print(f"  invariant {b['poly_str']} = 0 fails at n={b['n']} (value {b['value']})")
            bad = True
    else:
        print("  c07:", {k: x for k, x in v["c07"].items() if k not in ("member_ok",)})
        bad = v["c07"].get("status") == "violation"
    if bad:
        print(f"VIOLATION property={prop} replay={path}")
        return 1
    return 0
