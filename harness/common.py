"""Shared infrastructure of the checks: paths, seeds, Lean build + axiom audit, the model driver,
evidence files, violation / known-finding reporting."""
import hashlib
import json
import os
import random
import re
import subprocess
import sys
import time

ROOT = os.path.dirname(os.path.dirname(os.path.abspath(__file__)))
REPO = os.environ.get("POLAR_REPO", "/repo")
PYTHON = os.environ.get("POLAR_PYTHON", "/venv/bin/python")
LEAN_DIR = os.path.join(ROOT, "lean")
MODEL_EXE = os.path.join(LEAN_DIR, ".lake", "build", "bin", "polar-model")
EVIDENCE_DIR = os.path.join(ROOT, "evidence")
REPLAY_DIR = os.path.join(EVIDENCE_DIR, "replays")
KNOWN_FINDINGS = os.path.join(ROOT, "known_findings.json")

ALLOWED_AXIOMS = {"propext", "Classical.choice", "Quot.sound"}
FORBIDDEN_RE = re.compile(
    r"\bsorry\b|\badmit\b|^\s*axiom\s|native_decide|bv_decide|implemented_by|\bunsafe\s|maxHeartbeats\s+0\b", re.M)


def seed():
    try:
        return int(os.environ.get("VERIF_SEED", "0"))
    except ValueError:
        return 0


def rng(tag=""):
    return random.Random(f"{seed()}:{tag}")


# ------------------------------------------------------------------------------------------------
# Lean: build, forbidden-token grep, axiom audit
# ------------------------------------------------------------------------------------------------

def _lean_sources():
    out = []
    for base, _, files in os.walk(LEAN_DIR):
        if ".lake" in base:
            continue
        for f in sorted(files):
            if f.endswith(".lean") or f in ("lakefile.toml",):
                out.append(os.path.join(base, f))
    return sorted(out)


def lean_source_hash():
    h = hashlib.sha256()
    for p in _lean_sources():
        h.update(p.encode())
        with open(p, "rb") as fh:
            h.update(fh.read())
    return h.hexdigest()[:16]


def _strip_comments(text):
    # remove /- ... -/ (nested not handled beyond one level, fine for our sources) and -- comments
    text = re.sub(r"/-.*?-/", "", text, flags=re.S)
    text = re.sub(r"--.*", "", text)
    return text


def lean_forbidden_tokens():
    hits = []
    for p in _lean_sources():
        if not p.endswith(".lean"):
            continue
        with open(p) as fh:
            body = _strip_comments(fh.read())
        for m in FORBIDDEN_RE.finditer(body):
            hits.append(f"{os.path.relpath(p, ROOT)}: {m.group(0).strip()}")
    return hits


def lean_build(targets=("Polar", "PolarProofs", "polar-model")):
    """lake build (0.2 s when up to date).  Returns (ok, log)."""
    lock = os.path.join(LEAN_DIR, ".build.lock")
    import fcntl
    with open(lock, "w") as lk:
        fcntl.flock(lk, fcntl.LOCK_EX)
        p = subprocess.run(["lake", "build", *targets], cwd=LEAN_DIR, capture_output=True, text=True)
    return p.returncode == 0, (p.stdout + p.stderr)[-4000:]


def write_audit_file():
    """(Re)generate lean/Audit.lean from the theorem registry; returns its text."""
    from .theorems import THEOREMS
    names = []
    for prop in sorted(THEOREMS):
        for n in THEOREMS[prop]:
            if n not in names:
                names.append(n)
    text = "import PolarProofs\n\n-- generated from harness/theorems.py: axioms of every property theorem\n"
    text += "".join(f"#print axioms {n}\n" for n in names)
    path = os.path.join(LEAN_DIR, "Audit.lean")
    old = None
    if os.path.exists(path):
        with open(path) as fh:
            old = fh.read()
    if old != text:
        with open(path, "w") as fh:
            fh.write(text)
    return text


def lean_audit():
    """Run Audit.lean (`#print axioms` of every property theorem); cached per source hash.
    Returns {theorem: [axioms]}."""
    cache_dir = os.path.join(LEAN_DIR, ".lake", "audit")
    os.makedirs(cache_dir, exist_ok=True)
    write_audit_file()
    key = lean_source_hash()
    cache = os.path.join(cache_dir, key + ".json")
    if os.path.exists(cache):
        with open(cache) as fh:
            return json.load(fh)
    import fcntl
    with open(os.path.join(LEAN_DIR, ".audit.lock"), "w") as lk:
        fcntl.flock(lk, fcntl.LOCK_EX)
        if os.path.exists(cache):
            with open(cache) as fh:
                return json.load(fh)
        p = subprocess.run(["lake", "env", "lean", "Audit.lean"], cwd=LEAN_DIR, capture_output=True, text=True)
        text = p.stdout + p.stderr
        res = {"__ok__": p.returncode == 0, "__log__": text[-3000:] if p.returncode != 0 else ""}
        # "'Foo.bar' depends on axioms: [propext, Quot.sound]" | "'Foo.bar' does not depend on any axioms"
        for m in re.finditer(r"'([^\n]+?)' depends on axioms: \[([^\]]*)\]", text, flags=re.S):
            res[m.group(1)] = [a.strip() for a in m.group(2).replace("\n", " ").split(",") if a.strip()]
        for m in re.finditer(r"'([^\n]+?)' does not depend on any axioms", text):
            res[m.group(1)] = []
        # cache only complete, successful audits (a build in flux must not poison later runs)
        try:
            from .theorems import THEOREMS
            complete = res["__ok__"] and all(n in res for l in THEOREMS.values() for n in l)
        except Exception:
            complete = False
        if complete:
            with open(cache, "w") as fh:
                json.dump(res, fh)
        return res


def audit_theorems(names):
    """Check that each theorem exists in the audit and depends on allowed axioms only.
    Returns (list of obligation records, list of failure strings)."""
    au = lean_audit()
    obligations, failures = [], []
    if not au.get("__ok__", False):
        failures.append("Audit.lean failed: " + au.get("__log__", "")[-800:])
    for n in names:
        if n not in au:
            failures.append(f"theorem {n} missing from audit")
            obligations.append({"theorem": n, "status": "missing"})
            continue
        bad = [a for a in au[n] if a not in ALLOWED_AXIOMS]
        if bad:
            failures.append(f"theorem {n} depends on forbidden axioms {bad}")
            obligations.append({"theorem": n, "status": "forbidden-axioms", "axioms": au[n]})
        else:
            obligations.append({"theorem": n, "status": "checked", "axioms": au[n]})
    return obligations, failures


# ------------------------------------------------------------------------------------------------
# model driver
# ------------------------------------------------------------------------------------------------

def model_batch(requests, timeout=600):
    """Pipe JSON requests through polar-model; returns the list of JSON answers."""
    if not requests:
        return []
    data = "\n".join(json.dumps(r) for r in requests) + "\n"
    p = None
    for attempt in range(40):
        try:
            p = subprocess.run([MODEL_EXE], input=data, capture_output=True, text=True, timeout=timeout)
            break
        except (FileNotFoundError, PermissionError, OSError):
            time.sleep(1.5)          # the executable is being relinked by a concurrent `lake build`
    if p is None:
        return [{"ok": False, "error": "model executable unavailable"} for _ in requests]
    lines = [l for l in p.stdout.split("\n") if l.strip()]
    out = []
    for l in lines:
        try:
            out.append(json.loads(l))
        except Exception:
            out.append({"ok": False, "error": "unparseable model answer"})
    while len(out) < len(requests):
        out.append({"ok": False, "error": "model produced no answer (crash?) " + p.stderr[-200:]})
    return out


def model_one(request, timeout=30):
    """one request in its own model process with a hard time-out (answer: error 'oracle-timeout')"""
    p = None
    for attempt in range(40):
        try:
            p = subprocess.run([MODEL_EXE], input=json.dumps(request) + "\n", capture_output=True, text=True,
                               timeout=timeout)
            break
        except subprocess.TimeoutExpired:
            return {"ok": False, "error": "oracle-timeout"}
        except (FileNotFoundError, PermissionError, OSError):
            # the executable is being relinked by a concurrent `lake build`
            time.sleep(1.5)
    if p is None:
        return {"ok": False, "error": "model executable unavailable"}
    for l in p.stdout.split("\n"):
        if l.strip():
            try:
                return json.loads(l)
            except Exception:
                break
    return {"ok": False, "error": "model produced no answer " + p.stderr[-200:]}


def _model_group(group, timeout):
    """a few requests through one model process; if the group does not finish in time every request is retried alone
    (so one exploding request cannot take its neighbours down)"""
    if len(group) == 1:
        return [model_one(group[0], timeout)]
    try:
        out = model_batch(group, timeout=timeout)
        if all(isinstance(a, dict) and not str(a.get("error", "")).startswith("model produced no answer") for a in out):
            return out
    except subprocess.TimeoutExpired:
        pass
    return [model_one(r, timeout) for r in group]


def model_batch_parallel(requests, chunks=14, timeout=30, group=6):
    """requests in small groups per model process, 14 processes at a time, with a time-out per group and an
    individual retry on time-out"""
    if not requests:
        return []
    from concurrent.futures import ThreadPoolExecutor
    groups = [requests[i:i + group] for i in range(0, len(requests), group)]
    with ThreadPoolExecutor(max_workers=chunks) as ex:
        res = list(ex.map(lambda g: _model_group(g, timeout), groups))
    return [a for g in res for a in g]


# ------------------------------------------------------------------------------------------------
# known findings, violations, evidence
# ------------------------------------------------------------------------------------------------

def load_known_findings():
    if not os.path.exists(KNOWN_FINDINGS):
        return {"known": [], "fixed": []}
    with open(KNOWN_FINDINGS) as fh:
        return json.load(fh)


class Check:
    """Book-keeping of one check run."""

    def __init__(self, prop, tier):
        self.prop = prop
        self.tier = tier
        self.t0 = time.time()
        self.violations = []       # (what, replay-path)
        self.known_hits = []
        self.obligations = []      # records
        self.failed_obligations = []
        self.samples = []
        self.coverage = {}
        self.assumptions = []
        self.evaluations = 0
        self.nontrivial = set()
        self.counts = {}

    def count(self, key, k=1):
        self.counts[key] = self.counts.get(key, 0) + k

    def sample(self, obj, limit=6):
        if len(self.samples) < limit:
            self.samples.append(obj)

    def obligation(self, name, ok, detail=None):
        rec = {"obligation": name, "status": "discharged" if ok else "FAILED"}
        if detail is not None:
            rec["detail"] = detail
        self.obligations.append(rec)
        if not ok:
            self.failed_obligations.append(name)

    def theorems(self, names):
        obs, fails = audit_theorems(names)
        for o in obs:
            self.obligations.append({"obligation": "lean:" + o["theorem"],
                                     "status": "discharged" if o["status"] == "checked" else "FAILED",
                                     "axioms": o.get("axioms")})
            if o["status"] != "checked":
                self.failed_obligations.append("lean:" + o["theorem"])
        return fails

    def violation(self, what, replay, no_input=False):
        os.makedirs(REPLAY_DIR, exist_ok=True)
        blob = json.dumps(replay, sort_keys=True, default=str)
        h = hashlib.sha256(blob.encode()).hexdigest()[:12]
        path = os.path.join(REPLAY_DIR, f"{self.prop}-{h}.json")
        replay = dict(replay)
        replay.setdefault("property", self.prop)
        replay.setdefault("what", what)
        replay.setdefault("seed", seed())
        replay.setdefault("replay_cmd", f"./check {self.prop} --replay {os.path.relpath(path, ROOT)}")
        with open(path, "w") as fh:
            json.dump(replay, fh, indent=1, default=str)
        rel = os.path.relpath(path, ROOT)
        self.violations.append((what, rel))
        tail = " no-failing-input-found" if no_input else ""
        print(f"VIOLATION property={self.prop} replay={rel}{tail}", flush=True)
        print(f"  -> {what}", flush=True)

    def known(self, finding_id, what):
        key = (finding_id, what)
        if key not in self.known_hits:
            self.known_hits.append(key)
            print(f"KNOWN-FINDING: property={self.prop} [{finding_id}] {what}", flush=True)

    def finish(self, level="proof", rule="", trusted_base=None, checker_cmd=None, explanation=None, extra=None):
        os.makedirs(EVIDENCE_DIR, exist_ok=True)
        n_ob = len(self.obligations)
        n_ok = sum(1 for o in self.obligations if o["status"] == "discharged")
        cov = {
            "obligations": n_ob,
            "discharged": n_ok,
            "checker_cmd": checker_cmd or "cd lean && lake build Polar PolarProofs polar-model && lake env lean Audit.lean",
            "trusted_base": trusted_base or [],
            "evaluations": self.evaluations,
            "distinct_nontrivial": len(self.nontrivial),
            "rule": rule,
            "samples": self.samples if self.samples else [{"note": "no sample recorded"}],
            "obligation_list": self.obligations,
            "counts": self.counts,
            "known_findings_hit": [f"{a}: {b}" for a, b in self.known_hits],
        }
        if explanation:
            cov["explanation"] = explanation
        if extra:
            cov.update(extra)
        cov.update(self.coverage)
        ev = {
            "property_id": self.prop,
            "tier": self.tier,
            "seed": seed(),
            "level": level,
            "coverage": cov,
            "assumptions": self.assumptions,
            "wall_s": round(time.time() - self.t0, 2),
            "violations": len(self.violations),
        }
        with open(os.path.join(EVIDENCE_DIR, f"{self.prop}.json"), "w") as fh:
            json.dump(ev, fh, indent=1, default=str)
        if self.violations:
            return 1
        if self.failed_obligations:
            # a proof obligation broke but no violation line was printed yet
            self.violation("proof obligation(s) no longer check: " + ", ".join(self.failed_obligations),
                           {"failed_obligations": self.failed_obligations}, no_input=True)
            ev["violations"] = len(self.violations)
            with open(os.path.join(EVIDENCE_DIR, f"{self.prop}.json"), "w") as fh:
                json.dump(ev, fh, indent=1, default=str)
            return 1
        return 0


def lean_gate(chk, theorem_names):
    """Build + grep + audit.  Records obligations; returns True if the Lean side is intact."""
    if os.environ.get("VERIF_DEV_NOBUILD") == "1" and os.path.exists(MODEL_EXE):
        # development aid only (never used by the registered commands): reuse the last built executable
        chk.obligation("lean:lake-build", False, "skipped (VERIF_DEV_NOBUILD)")
        return True
    ok, log = lean_build()
    chk.obligation("lean:lake-build", ok, None if ok else log[-1500:])
    hits = lean_forbidden_tokens()
    chk.obligation("lean:no-sorry-axiom-native_decide", not hits, hits or None)
    if ok:
        fails = chk.theorems(theorem_names)
        for f in fails:
            print("  audit:", f, file=sys.stderr)
    return ok and not hits
