"""Worker process: executes harness task functions against the real Polar modules (cwd=/repo)."""
import importlib
import json
import sys
import traceback


def main():
    out = sys.stdout
    # anything Polar prints must not corrupt the protocol
    sys.stdout = sys.stderr
    for line in sys.stdin:
        line = line.strip()
        if not line:
            continue
        try:
            task = json.loads(line)
            mod, fn = task["fn"].split(":")
            f = getattr(importlib.import_module(mod), fn)
            res = f(**task.get("args", {}))
            msg = {"status": "ok", "result": res}
        except BaseException as e:  # noqa
            if isinstance(e, (KeyboardInterrupt, SystemExit)):
                raise
            tb = traceback.extract_tb(e.__traceback__)
            where = tb[-1].name if tb else "?"
            wfile = tb[-1].filename if tb else "?"
            msg = {"status": "error", "etype": type(e).__name__, "where": where, "file": wfile,
                   "message": str(e)[:500], "trace": traceback.format_exc()[-1500:]}
        out.write(json.dumps(msg, default=str) + "\n")
        out.flush()


if __name__ == "__main__":
    main()
