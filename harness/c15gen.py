"""C15: seeded generator of BIF files (own AST -> text + raw JSON for the Lean model), fault injection,
and a reader for the very regular Polar text that `CodeGenerator.generate_code` emits.

Nothing here imports Polar.  The AST of a file:
  {"name": str, "vars": [{"name", "types": [[n, [values]]]}], "cpts": [{"child", "parents": [names],
   "items": [["default", [Fr]], ["table", [Fr]], ["entry", [values], [Fr]]]}], "order": [("v", i) | ("p", i)]}
"""
import re
from fractions import Fraction as Fr
from itertools import product

from . import hast as H

TOL = Fr(1, 1000)

# names that collapse after `re.sub("[^A-Za-z0-9_]+", "", name.lower())`
NAME_FAMILIES = [
    ["Ab", "ab", "A-b", "a-B", "AB", "a-b-"],
    ["X1", "x-1", "x1", "X--1"],
    ["Node_a", "node_a", "node-_a", "NODE_A"],
    ["count", "Count", "co-unt"],
    ["continue", "Continue", "cont-inue"],
    ["Smoke", "smoke", "SMOKE"],
    ["T", "t", "t-"],
    ["ab1", "ab2", "ab3", "ab4", "ab5"],      # may collide with the random digit appended to "ab"
    ["ind_t", "inf_t", "ind_ab", "inf_ab", "ind_x1", "inf_x1"],
    ["Rain", "Wet-Grass", "Sprinkler_2", "Z9", "Q_", "LongerName-With-Dashes"],
    ["b", "c", "d", "f", "g", "h", "k", "u", "v", "w", "y"],
]
# names whose sanitised form is in RESERVED_NAMES of bayesnet/code_generator.py (they get a `_` suffix since repo
# commit 883f624, former finding F31) and a few look-alikes
RESERVED = ["E", "Pi", "Oo", "Zoo", "Nan", "Inf", "I", "N", "True", "False", "If", "Else", "Elif", "End", "While", "Types",
            "e", "pi", "P-i", "en-d", "in-f", "Bernoulli", "Normal", "Uniform", "Exp", "Sin"]

VALUE_POOLS = {
    1: [["only"], ["0"], ["x"]],
    2: [["yes", "no"], ["no", "yes"], ["0", "1"], ["1", "0"], ["true", "false"], ["<5", ">5"], ["a", "b"],
        ["low", "high"], ["-1", "+1"], ["T", "F"]],
    3: [["low", "mid", "high"], ["0", "1", "2"], ["2", "0", "1"], ["1", "2", "3"], ["a", "b", "c"],
        ["x.1", "x.2", "x.3"], ["<1", "1-5", ">5"], ["car", "train", "other"]],
    4: [["0", "1", "2", "3"], ["3", "2", "1", "0"], ["1", "2", "3", "0"], ["a", "b", "c", "d"],
        ["n/a", "lo", "hi", "vhi"], ["p*", "q+", "r-", "s_"], ["00", "01", "10", "11"]],
}


# ------------------------------------------------------------------------------------------------
# random networks
# ------------------------------------------------------------------------------------------------

def _pick_names(rnd, n, reserved=False):
    names, seen = [], set()
    fams = list(NAME_FAMILIES)
    while len(names) < n:
        fam = rnd.choice(fams)
        # prefer several names of one family so that sanitised forms collide
        k = rnd.choice([1, 1, 2, 3])
        for nm in rnd.sample(fam, min(k, len(fam))):
            if nm not in seen and len(names) < n:
                seen.add(nm)
                names.append(nm)
    if reserved:
        r = rnd.choice(RESERVED)
        if r not in seen:
            names[rnd.randrange(n)] = r
    rnd.shuffle(names)
    return names


def _row(rnd, d, style):
    """a probability row of d exact decimals summing to exactly 1"""
    if d == 1:
        return [Fr(1)]
    if d == 4 and rnd.random() < 0.05:
        # decimals that sum to exactly 1 while their left-to-right double sum is 1.0000000000000002 (F34)
        a = rnd.choice([(33, 56, 11), (34, 55, 11), (34, 56, 10), (55, 34, 11), (56, 33, 11), (56, 34, 10)])
        return [Fr(a[0], 100), Fr(a[1], 100), Fr(a[2], 100), Fr(0)]
    if style == "det":
        i = rnd.randrange(d)
        return [Fr(1) if j == i else Fr(0) for j in range(d)]
    digits = {"coarse": rnd.choice([1, 2]), "fine": rnd.choice([3, 4]), "tiny": rnd.choice([5, 6, 7]),
              "zero": 2}[style]
    scale = 10 ** digits
    if style == "tiny":
        # one or two very small entries (printed by Python as 1e-05 etc.)
        parts = [rnd.randint(1, 9) for _ in range(d - 1)]
        big = scale - sum(parts)
        ints = parts + [big]
        rnd.shuffle(ints)
    else:
        cuts = sorted(rnd.randint(0 if style == "zero" else 1, scale - 1) for _ in range(d - 1))
        ints = [b - a for a, b in zip([0] + cuts, cuts + [scale])]
        if style == "zero" and d > 1:
            ints[rnd.randrange(d)] = 0
            s = sum(ints)
            if s == 0:
                ints[0] = scale
            else:
                # put the remainder on a non-zero entry
                j = max(range(d), key=lambda t: ints[t])
                ints[j] += scale - s
        if style != "zero" and any(v <= 0 for v in ints):
            ints = [1] * (d - 1) + [scale - (d - 1)]
    return [Fr(v, scale) for v in ints]


def gen_network(rnd, nmin=1, nmax=6, reserved=False, allow_dom1=True, max_parents=3, inexact=0.0):
    """random DAG with full conditional probability function P[child][comb] (the mathematical object);
    returns the spec dict {names, domains, parents (indices), cpt {comb(tuple of idx) -> row}}"""
    n = rnd.choice([k for k in range(nmin, nmax + 1) for _ in range(1 + (k >= 3))])
    names = _pick_names(rnd, n, reserved)
    doms = []
    for _ in range(n):
        d = rnd.choice([2, 2, 2, 3, 3, 4] + ([1] if allow_dom1 else []))
        doms.append(list(rnd.choice(VALUE_POOLS[d])))
    topo = list(range(n))
    rnd.shuffle(topo)  # topo[k] may only have parents among topo[:k]; declaration order is 0..n-1
    parents = [[] for _ in range(n)]
    for k, v in enumerate(topo):
        cand = topo[:k]
        npar = min(len(cand), rnd.choice([0, 1, 1, 2, 2, 3][:2 + 2 * max_parents // 2]))
        npar = min(npar, max_parents)
        ps = rnd.sample(cand, npar)
        # keep the table small
        while ps and _prod(len(doms[p]) for p in ps) * len(doms[v]) > 96:
            ps.pop()
        parents[v] = ps
    cpts = []
    for v in range(n):
        rows = {}
        base_style = rnd.choice(["coarse"] * 5 + ["fine"] * 4 + ["tiny", "zero", "zero", "det"])
        for comb in product(*[range(len(doms[p])) for p in parents[v]]):
            style = base_style if rnd.random() < 0.8 else rnd.choice(["coarse", "fine", "det", "zero"])
            row = _row(rnd, len(doms[v]), style)
            if inexact and rnd.random() < inexact and len(row) > 1:
                delta = rnd.choice([Fr(1, 10000), Fr(-1, 10000), Fr(5, 10000), Fr(-5, 10000), Fr(999, 1000000),
                                    Fr(-999, 1000000)])
                j = max(range(len(row)), key=lambda t: row[t])
                row = list(row)
                row[j] += delta
            rows[comb] = row
        cpts.append(rows)
    return {"names": names, "domains": doms, "parents": parents, "cpt": cpts}


def _prod(it):
    r = 1
    for x in it:
        r *= x
    return r


# ------------------------------------------------------------------------------------------------
# notations: spec -> file AST
# ------------------------------------------------------------------------------------------------

def table_of(spec, v):
    """BIF `table`: own value slowest, parents in product order"""
    combs = list(product(*[range(len(spec["domains"][p])) for p in spec["parents"][v]]))
    return [spec["cpt"][v][c][i] for i in range(len(spec["domains"][v])) for c in combs]


def cpt_items(rnd, spec, v, notation=None):
    """one of the notation mixes that denote exactly spec['cpt'][v]"""
    doms, ps = spec["domains"], spec["parents"][v]
    combs = list(product(*[range(len(doms[p])) for p in ps]))
    rows = spec["cpt"][v]

    def ent(c, row=None):
        return ["entry", [doms[p][i] for p, i in zip(ps, c)], list(row if row is not None else rows[c])]

    if not ps:
        notation = notation or rnd.choice(["table", "default", "default+table"])
        if notation not in ("table", "default", "default+table"):
            notation = "table"
    notation = notation or rnd.choice(["table", "entries", "default+entries", "table+entries", "default+table",
                                       "default+table+entries", "entries", "default+entries"])
    items = []
    if notation == "table":
        items = [["table", table_of(spec, v)]]
    elif notation == "default":
        items = [["default", list(rows[combs[0]])]]
    elif notation == "entries":
        items = [ent(c) for c in combs]
        rnd.shuffle(items)
    elif notation == "default+entries":
        # most frequent row becomes the default; the others (and a few redundant ones) are entries
        keyf = lambda c: tuple(rows[c])
        cnt = {}
        for c in combs:
            cnt[keyf(c)] = cnt.get(keyf(c), 0) + 1
        dflt = max(cnt, key=lambda k: cnt[k])
        es = [ent(c) for c in combs if keyf(c) != dflt or rnd.random() < 0.15]
        rnd.shuffle(es)
        items = [["default", list(dflt)]] + es
    elif notation == "table+entries":
        # a table with some wrong-but-valid rows that the entries overwrite
        over = [c for c in combs if rnd.random() < 0.4] or [rnd.choice(combs)]
        fake = {c: (_row(rnd, len(doms[v]), "coarse") if c in over else rows[c]) for c in combs}
        tab = [fake[c][i] for i in range(len(doms[v])) for c in combs]
        es = [ent(c) for c in over]
        rnd.shuffle(es)
        items = [["table", tab]] + es
    elif notation == "default+table":
        items = [["default", _row(rnd, len(doms[v]), "coarse")], ["table", table_of(spec, v)]]
    elif notation == "default+table+entries":
        over = [c for c in combs if rnd.random() < 0.3] or [rnd.choice(combs)]
        fake = {c: (_row(rnd, len(doms[v]), "fine") if c in over else rows[c]) for c in combs}
        tab = [fake[c][i] for i in range(len(doms[v])) for c in combs]
        es = [ent(c) for c in over]
        items = [["default", _row(rnd, len(doms[v]), "coarse")], ["table", tab]] + es
    else:
        raise ValueError(notation)
    if rnd.random() < 0.5:
        # the code is insensitive to where default/table stand among the entries
        rnd.shuffle(items)
    return items, notation


def spec_to_ast(rnd, spec, notations=None):
    n = len(spec["names"])
    vars_ = [{"name": spec["names"][v], "types": [[len(spec["domains"][v]), list(spec["domains"][v])]]}
             for v in range(n)]
    cpts, used = [], []
    cpt_order = list(range(n))
    rnd.shuffle(cpt_order)
    for v in cpt_order:
        items, nt = cpt_items(rnd, spec, v, notations[v] if notations else None)
        used.append(nt)
        cpts.append({"child": spec["names"][v], "parents": [spec["names"][p] for p in spec["parents"][v]],
                     "items": items})
    order = [("v", i) for i in range(n)] + [("p", i) for i in range(n)]
    if rnd.random() < 0.4:
        rnd.shuffle(order)  # probability blocks may precede the variable blocks
    return {"name": "net" + str(rnd.randrange(100)), "vars": vars_, "cpts": cpts, "order": order,
            "notations": used}


# ------------------------------------------------------------------------------------------------
# printing
# ------------------------------------------------------------------------------------------------

def float_str(rnd, f, plain=False):
    """a FLOAT token (lark common.FLOAT: INT EXP | DECIMAL EXP?) denoting exactly the decimal f"""
    f = Fr(f)
    digits = 0
    while (f * 10 ** digits).denominator != 1:
        digits += 1
        if digits > 30:
            raise ValueError("not a terminating decimal")
    base = f"{int(f * 10 ** digits):0{digits + 1}d}"
    s = (base[:-digits] + "." + base[-digits:]) if digits else base + ".0"
    if plain or rnd is None:
        return s
    r = rnd.random()
    if r < 0.55:
        return s
    if r < 0.65:
        return s + "0" * rnd.randint(1, 3)
    if r < 0.75 and s.startswith("0."):
        return s[1:]                                   # .25
    if r < 0.80 and s.endswith(".0"):
        return s[:-1]                                  # 1.
    if r < 0.90:
        m = int(f * 10 ** digits)
        return f"{m}e-{digits}" if digits else f"{m}e0"  # 25e-2
    if r < 0.95:
        return float_str(None, f * 10) + "E-1"
    return s


def _sep(rnd):
    return rnd.choice([", ", ", ", " ", " | ", ",", "  "]) if rnd else ", "


def ftuple(rnd, fs):
    out = ""
    for i, f in enumerate(fs):
        if i:
            out += _sep(rnd)
        out += float_str(rnd, f)
    return out


def ast_to_text(rnd, ast):
    """pretty-print with harmless variation: separators, comments, properties, float spellings"""
    cm = lambda: rnd.choice(["", "", "", " // c\n", " /* c */ "]) if rnd else ""
    lines = [f"network {ast['name']} {{" + (" property author x y z;" if rnd and rnd.random() < 0.3 else "") + " }", ""]
    for kind, i in ast["order"]:
        if kind == "v":
            v = ast["vars"][i]
            body = ""
            if rnd and rnd.random() < 0.2:
                body += "  property label = something, else;\n"
            for n, vals in v["types"]:
                sep = _sep(rnd) if rnd else ", "
                body += f"  type discrete [ {n} ] {{ " + sep.join(vals) + " };" + cm() + "\n"
            lines.append(f"variable {v['name']} {{\n{body}}}")
        else:
            c = ast["cpts"][i]
            r = rnd.random() if rnd else 0
            if not c["parents"]:
                head = c["child"]
            elif r < 0.7:
                head = c["child"] + " | " + ", ".join(c["parents"])
            elif r < 0.85:
                head = c["child"] + ", " + " ".join(c["parents"])
            else:
                head = " ".join([c["child"]] + c["parents"])
            body = ""
            for it in c["items"]:
                if it[0] == "property":
                    body += "  property note 1;\n"
                elif it[0] == "default":
                    body += "  default " + ftuple(rnd, it[1]) + ";" + cm() + "\n"
                elif it[0] == "table":
                    body += "  table " + ftuple(rnd, it[1]) + ";" + cm() + "\n"
                else:
                    sep = _sep(rnd) if rnd else ", "
                    body += "  (" + sep.join(it[1]) + ") " + ftuple(rnd, it[2]) + ";" + cm() + "\n"
            lines.append(f"probability ( {head} ) {{\n{body}}}")
    return "\n".join(lines) + "\n"


def ast_to_raw(ast, tol=TOL):
    """the raw JSON consumed by polar-model (bn_assemble / bn_query / bn_joint), in *file order*"""
    vs = [ast["vars"][i] for k, i in ast["order"] if k == "v"]
    cs = [ast["cpts"][i] for k, i in ast["order"] if k == "p"]
    q = H.fr_str

    def item(it):
        if it[0] == "property":
            return ["property"]
        if it[0] in ("default", "table"):
            return [it[0], [q(x) for x in it[1]]]
        return ["entry", list(it[1]), [q(x) for x in it[2]]]

    return {"tol": q(tol),
            "vars": [{"name": v["name"], "types": [[int(n), list(vals)] for n, vals in v["types"]]} for v in vs],
            "cpts": [{"child": c["child"], "parents": list(c["parents"]), "items": [item(it) for it in c["items"]]}
                     for c in cs]}


def spec_all_exact(spec):
    return all(sum(row) == 1 for rows in spec["cpt"] for row in rows.values())


# ------------------------------------------------------------------------------------------------
# fault injection (malformed stream): one structural edit of a valid AST
# ------------------------------------------------------------------------------------------------

FAULTS = ["missing-entry", "sum-out", "sum-in", "table-short", "table-long", "entry-probs-arity", "entry-cond-arity",
          "default-arity", "bad-value", "double-entry", "double-default", "double-table", "two-cpts", "no-cpt",
          "undefined-child", "undefined-parent", "dup-var", "type-count", "dup-domain", "no-type", "two-types",
          "default-sum-out", "swap-domain-value", "property-in-cpt"]


def _bump(rnd, row, inside):
    """row whose sum misses 1 by a margin clearly inside / outside the tolerance 1e-3 (never within 1e-9 of
    the edge, so float summation cannot decide differently from exact arithmetic)"""
    row = list(row)
    if inside:
        delta = rnd.choice([Fr(1, 10000), Fr(-3, 10000), Fr(9, 10000), Fr(-999, 1000000), Fr(99999, 100000000)])
    else:
        delta = rnd.choice([Fr(11, 10000), Fr(-2, 1000), Fr(1, 10), Fr(-1001, 1000000), Fr(100001, 100000000),
                            Fr(-1, 4)])
    js = [j for j in range(len(row)) if row[j] + delta >= 0]
    if not js:
        js = [max(range(len(row)), key=lambda t: row[t])]
        delta = abs(delta)
    j = rnd.choice(js)
    row[j] += delta
    return row


def inject_fault(rnd, ast, fault):
    """returns True if the fault could be applied (ast edited in place)"""
    cpts, vars_ = ast["cpts"], ast["vars"]
    vdom = {v["name"]: v["types"][0][1] for v in vars_ if v["types"]}

    def items_of(kind, need_parents=False):
        out = []
        for c in cpts:
            if need_parents and not c["parents"]:
                continue
            for it in c["items"]:
                if it[0] == kind:
                    out.append((c, it))
        return out

    if fault == "property-in-cpt":
        c = rnd.choice(cpts)
        c["items"].insert(rnd.randrange(len(c["items"]) + 1), ["property"])
        return True
    if fault == "missing-entry":
        cand = [(c, it) for c, it in items_of("entry") if not any(x[0] in ("default", "table") for x in c["items"])]
        if not cand:
            return False
        c, it = rnd.choice(cand)
        c["items"].remove(it)
        return True
    if fault in ("sum-out", "sum-in"):
        cand = items_of("entry") + items_of("table")
        if not cand:
            return False
        c, it = rnd.choice(cand)
        d = len(vdom.get(c["child"], []))
        if d < 2 or (it[0] == "table" and len(it[1]) % d):
            return False
        if it[0] == "entry":
            it[2] = _bump(rnd, it[2], fault == "sum-in")
        else:
            rows = len(it[1]) // d
            r = rnd.randrange(rows)
            row = _bump(rnd, [it[1][r + i * rows] for i in range(d)], fault == "sum-in")
            for i in range(d):
                it[1][r + i * rows] = row[i]
        return True
    if fault == "default-sum-out":
        cand = items_of("default")
        if not cand:
            return False
        c, it = rnd.choice(cand)
        if len(it[1]) < 2:
            return False
        it[1] = _bump(rnd, it[1], False)
        return True
    if fault in ("table-short", "table-long"):
        cand = items_of("table")
        if not cand:
            return False
        c, it = rnd.choice(cand)
        if fault == "table-short":
            if len(it[1]) < 2:
                return False
            it[1].pop(rnd.randrange(len(it[1])))
        else:
            it[1].insert(rnd.randrange(len(it[1]) + 1), Fr(0))
        return True
    if fault == "entry-probs-arity":
        cand = items_of("entry")
        if not cand:
            return False
        c, it = rnd.choice(cand)
        if rnd.random() < 0.5 and len(it[2]) > 1:
            # drop a zero if there is one so that the sum stays valid, else any
            zs = [j for j, x in enumerate(it[2]) if x == 0]
            it[2].pop(rnd.choice(zs) if zs else rnd.randrange(len(it[2])))
        else:
            it[2].insert(rnd.randrange(len(it[2]) + 1), Fr(0))
        return True
    if fault == "entry-cond-arity":
        cand = items_of("entry")
        if not cand:
            return False
        c, it = rnd.choice(cand)
        if rnd.random() < 0.5 and len(it[1]) > 1:
            it[1].pop(rnd.randrange(len(it[1])))
        else:
            it[1].append(it[1][-1])
        return True
    if fault == "default-arity":
        cand = items_of("default")
        if not cand:
            return False
        c, it = rnd.choice(cand)
        it[1].append(Fr(0))
        return True
    if fault == "bad-value":
        cand = items_of("entry")
        if not cand:
            return False
        c, it = rnd.choice(cand)
        j = rnd.randrange(len(it[1]))
        it[1][j] = rnd.choice(["nope", it[1][j] + "x", it[1][j].upper() if it[1][j].upper() != it[1][j] else "zz"])
        if j >= len(c["parents"]) or it[1][j] in vdom.get(c["parents"][j], []):
            return False
        return True
    if fault == "swap-domain-value":
        # a value of the *child's* domain (or another parent's) used for a parent: wrong unless shared
        cand = [(c, it) for c, it in items_of("entry")]
        if not cand:
            return False
        c, it = rnd.choice(cand)
        j = rnd.randrange(len(it[1]))
        if j >= len(c["parents"]) or c["child"] not in vdom or c["parents"][j] not in vdom:
            return False
        other = [x for x in vdom[c["child"]] if x not in vdom[c["parents"][j]]]
        if not other:
            return False
        it[1][j] = rnd.choice(other)
        return True
    if fault == "double-entry":
        cand = items_of("entry")
        if not cand:
            return False
        c, it = rnd.choice(cand)
        c["items"].insert(rnd.randrange(len(c["items"]) + 1), ["entry", list(it[1]), list(it[2])])
        return True
    if fault in ("double-default", "double-table"):
        kind = fault.split("-")[1]
        cand = items_of(kind)
        if not cand:
            return False
        c, it = rnd.choice(cand)
        c["items"].insert(rnd.randrange(len(c["items"]) + 1), [kind, list(it[1])])
        return True
    if fault == "two-cpts":
        c = rnd.choice(cpts)
        cpts.append({"child": c["child"], "parents": list(c["parents"]), "items": [list(x) for x in c["items"]]})
        ast["order"].insert(rnd.randrange(len(ast["order"]) + 1), ("p", len(cpts) - 1))
        return True
    if fault == "no-cpt":
        i = rnd.randrange(len(cpts))
        ast["order"] = [o for o in ast["order"] if o != ("p", i)]
        return True
    if fault == "undefined-child":
        c = rnd.choice(cpts)
        c["child"] = c["child"] + "Q"
        return True
    if fault == "undefined-parent":
        cand = [c for c in cpts if c["parents"]]
        if not cand:
            return False
        c = rnd.choice(cand)
        j = rnd.randrange(len(c["parents"]))
        c["parents"][j] = c["parents"][j] + "Q"
        return True
    if fault == "dup-var":
        v = rnd.choice(vars_)
        vars_.append({"name": v["name"], "types": [[t[0], list(t[1])] for t in v["types"]]})
        ast["order"].insert(rnd.randrange(len(ast["order"]) + 1), ("v", len(vars_) - 1))
        return True
    if fault == "type-count":
        v = rnd.choice(vars_)
        if not v["types"]:
            return False
        v["types"][0][0] += rnd.choice([1, -1]) if v["types"][0][0] > 1 else 1
        return True
    if fault == "dup-domain":
        v = rnd.choice(vars_)
        if not v["types"]:
            return False
        vals = v["types"][0][1]
        if rnd.random() < 0.5:
            vals.append(vals[0])
            v["types"][0][0] += 1
        elif len(vals) > 1:
            vals[-1] = vals[0]
        else:
            return False
        return True
    if fault == "no-type":
        v = rnd.choice(vars_)
        v["types"] = []
        return True
    if fault == "two-types":
        v = rnd.choice(vars_)
        if not v["types"]:
            return False
        v["types"].append([v["types"][0][0], list(v["types"][0][1])])
        return True
    raise ValueError(fault)


SYNTAX_FAULTS = ["int-prob", "negative-prob", "unknown-block", "missing-semicolon", "missing-brace", "empty-entry-cond"]


def inject_syntax_fault(rnd, text, fault):
    """text-level edits that the grammar (bif-syntax.lark) does not derive; returns new text or None"""
    if fault == "int-prob":
        m = list(re.finditer(r"(?<![\w.])(1\.0|0\.0)(?![\w.])", text))
        if not m:
            return None
        k = rnd.choice(m)
        return text[:k.start()] + k.group(0)[0] + text[k.end():]
    if fault == "negative-prob":
        m = list(re.finditer(r"(table|default) ", text))
        if not m:
            return None
        k = rnd.choice(m)
        return text[:k.end()] + "-" + text[k.end():]
    if fault == "unknown-block":
        return text + "\nfunction f { }\n"
    if fault == "missing-semicolon":
        m = list(re.finditer(r";", text))
        k = rnd.choice(m)
        return text[:k.start()] + text[k.end():]
    if fault == "missing-brace":
        i = text.rfind("}")
        return text[:i] + text[i + 1:]
    if fault == "empty-entry-cond":
        m = list(re.finditer(r"\n  \(([^)]*)\)", text))
        if not m:
            return None
        k = rnd.choice(m)
        return text[:k.start(1)] + text[k.end(1):]
    raise ValueError(fault)


# ------------------------------------------------------------------------------------------------
# queries
# ------------------------------------------------------------------------------------------------

def _possible(spec, ev_idx):
    """is there an assignment of positive probability that matches the evidence?  (only used to steer the
    generator towards informative queries, never to judge)"""
    if "cpt" not in spec:
        return True
    n = len(spec["names"])
    if _prod(len(d) for d in spec["domains"]) > 5000:
        return True
    fixed = dict(ev_idx)
    for a in product(*[[fixed[v]] if v in fixed else range(len(spec["domains"][v])) for v in range(n)]):
        if all(spec["cpt"][v][tuple(a[p] for p in spec["parents"][v])][a[v]] > 0 for v in range(n)):
            return True
    return False


def gen_evidence(rnd, spec, avoid=None, max_ev=3):
    n = len(spec["names"])
    vs = [v for v in range(n) if v != avoid and "=" not in "".join(spec["domains"][v])] or list(range(n))
    for attempt in range(8):
        k = min(len(vs), rnd.choice([1, 1, 2, 2, 3][:2 + max_ev]))
        ev = [(v, rnd.randrange(len(spec["domains"][v]))) for v in rnd.sample(vs, k)]
        # mostly evidence of positive probability; impossible evidence stays in as a rare edge case
        if attempt == 7 or rnd.random() < 0.08 or _possible(spec, ev):
            break
    return [(spec["names"][v], spec["domains"][v][i]) for v, i in ev]


def ev_str(rnd, ev):
    parts = []
    for x, val in ev:
        parts.append(rnd.choice([f"{x} = {val}", f"{x}={val}", f"{x} ={val}", f" {x}  =  {val} "]))
    return rnd.choice([", ", ","]).join(parts)


# ------------------------------------------------------------------------------------------------
# reader for the generated Polar text (only the shapes CodeGenerator and the two queries emit)
# ------------------------------------------------------------------------------------------------

_ASSIGN = re.compile(r"^([A-Za-z_][A-Za-z0-9_]*)\s*=\s*(.+)$")


def _number(tok):
    return Fr(tok)  # accepts 0.25, 1e-05, 3


def _parse_rhs(s):
    s = s.strip()
    toks = re.findall(r"\{[^}]*\}|[^\s{}]+(?:\s*[*+]\s*[^\s{}]+)*", s)
    if any(t.startswith("{") for t in toks):
        alts, probs, i = [], [], 0
        while i < len(toks):
            val = toks[i]
            if i + 1 < len(toks) and toks[i + 1].startswith("{"):
                p = _number(toks[i + 1][1:-1].strip())
                i += 2
            else:
                p = None
                i += 1
            alts.append(_atom(val))
            probs.append(p)
        rest = 1 - sum(p for p in probs if p is not None)
        if probs.count(None) > 1 or (probs.count(None) == 1 and probs[-1] is not None):
            raise ValueError("choice with several open probabilities: " + s)
        probs = [rest if p is None else p for p in probs]
        return ("choice", [(a, H.num(p)) for a, p in zip(alts, probs)])
    return ("expr", _expr(s))


def _atom(t):
    t = t.strip()
    if re.fullmatch(r"[+-]?(?:\d+\.?\d*|\.\d+)(?:[eE][+-]?\d+)?", t):
        return H.num(_number(t))
    if re.fullmatch(r"[A-Za-z_][A-Za-z0-9_]*", t):
        return H.var(t)
    raise ValueError("atom: " + t)


def _expr(s):
    s = s.strip()
    if "+" in s:
        a, b = s.split("+", 1)
        return H.add(_expr(a), _expr(b))
    if "*" in s:
        a, b = s.split("*", 1)
        return H.mul(_expr(a), _expr(b))
    return _atom(s)


def _cond(s):
    parts = [p.strip() for p in s.split("&&")]
    cs = []
    for p in parts:
        l, r = p.split("==")
        cs.append(H.cmp_("==", _atom(l), _atom(r)))
    c = cs[0]
    for d in cs[1:]:
        c = ("and", c, d)
    return c


def parse_generated(code):
    """-> {"init": [...], "guard": TT, "body": [...]} in the harness AST; raises ValueError on anything
    outside the shapes the generator emits"""
    lines = [l.split("#")[0].rstrip() for l in code.split("\n")]
    lines = [l.strip() for l in lines if l.strip()]
    if "while true:" not in lines or lines[-1] != "end":
        raise ValueError("no loop")
    k = lines.index("while true:")
    init = []
    for l in lines[:k]:
        m = _ASSIGN.match(l)
        if not m:
            raise ValueError("init: " + l)
        init.append(H.assign(m.group(1), _parse_rhs(m.group(2))))
    pos = k + 1

    def stmt_list(stops):
        """statements up to (not including) a line that is in `stops` / starts with "elif " when allowed"""
        nonlocal pos
        out = []
        while True:
            if pos >= len(lines):
                raise ValueError("unterminated block")
            l = lines[pos]
            if l in stops or ("elif" in stops and l.startswith("elif ")):
                return out
            if l.startswith("if "):
                out.append(ifchain())
                continue
            m = _ASSIGN.match(l)
            if not m:
                raise ValueError("stmt: " + l)
            out.append(H.assign(m.group(1), _parse_rhs(m.group(2))))
            pos += 1

    def ifchain():
        nonlocal pos
        l = lines[pos]
        cond = _cond(l[l.index(" "):].rstrip().rstrip(":").strip())
        pos += 1
        then = stmt_list(["elif", "else:", "end"])
        l2 = lines[pos]
        if l2.startswith("elif "):
            return ("ite", cond, then, [ifchain()])   # the nested chain consumes the closing `end`
        if l2 == "else:":
            pos += 1
            els = stmt_list(["end"])
            pos += 1
            return ("ite", cond, then, els)
        pos += 1  # end
        return ("ite", cond, then, [])

    body = stmt_list(["end"])
    if pos != len(lines) - 1:
        raise ValueError("text after the loop")
    return {"init": init, "guard": H.TT, "body": body}


# ------------------------------------------------------------------------------------------------
# reader for existing .bif files (repo data): text -> file AST (None when the text is outside the
# regular shape this reader understands; such files are only compared for accept/reject with themselves)
# ------------------------------------------------------------------------------------------------

_FLOAT_TOK = re.compile(r"^(?:\d+\.\d*|\.\d+|\d+)(?:[eE][+-]?\d+)?$")


def _strip_comments(text):
    text = re.sub(r"/\*.*?\*/", " ", text, flags=re.S)
    return re.sub(r"//[^\n]*", " ", text)


def _split_vals(s):
    return [t for t in re.split(r"[,|\s]+", s.strip()) if t]


def read_bif(text):
    text = _strip_comments(text)
    m = re.match(r"\s*network\s+([A-Za-z][A-Za-z0-9_-]*)\s*\{[^}]*\}", text)
    if not m:
        return None
    pos = m.end()
    ast = {"name": m.group(1), "vars": [], "cpts": [], "order": []}
    block = re.compile(r"\s*(variable|probability)\s*([^{]*)\{", re.S)
    while True:
        if not text[pos:].strip():
            break
        b = block.match(text, pos)
        if not b:
            return None
        # body up to the matching brace (type lines contain one nested pair)
        depth, i = 1, b.end()
        while i < len(text) and depth:
            depth += {"{": 1, "}": -1}.get(text[i], 0)
            i += 1
        if depth:
            return None
        body = text[b.end():i - 1]
        pos = i
        if b.group(1) == "variable":
            name = b.group(2).strip()
            types = []
            for st in body.split(";"):
                st = st.strip()
                if not st or st.startswith("property"):
                    continue
                t = re.fullmatch(r"type\s+discrete\s*\[\s*(\d+)\s*\]\s*\{([^}]*)\}", st, flags=re.S)
                if not t:
                    return None
                types.append([int(t.group(1)), _split_vals(t.group(2))])
            ast["vars"].append({"name": name, "types": types})
            ast["order"].append(("v", len(ast["vars"]) - 1))
        else:
            h = re.fullmatch(r"\(([^)]*)\)", b.group(2).strip(), flags=re.S)
            if not h:
                return None
            ids = _split_vals(h.group(1))
            if not ids:
                return None
            items = []
            for st in body.split(";"):
                st = st.strip()
                if not st:
                    continue
                if st.startswith("property"):
                    items.append(["property"])
                    continue
                t = re.fullmatch(r"(table|default)\s+(.*)", st, flags=re.S)
                if t:
                    toks = _split_vals(t.group(2))
                    if not toks or not all(_FLOAT_TOK.match(x) and ("." in x or "e" in x.lower()) for x in toks):
                        return None
                    items.append([t.group(1), [Fr(x) for x in toks]])
                    continue
                t = re.fullmatch(r"\(([^)]*)\)\s*(.*)", st, flags=re.S)
                if not t:
                    return None
                toks = _split_vals(t.group(2))
                if not toks or not all(_FLOAT_TOK.match(x) and ("." in x or "e" in x.lower()) for x in toks):
                    return None
                items.append(["entry", _split_vals(t.group(1)), [Fr(x) for x in toks]])
            ast["cpts"].append({"child": ids[0], "parents": ids[1:], "items": items})
            ast["order"].append(("p", len(ast["cpts"]) - 1))
    return ast
