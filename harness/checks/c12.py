"""C12 — the simulator follows the same semantics and laws as the exact analysis.

Decision:
* Lean: `SimProofs.sim_eq_sem` (the simulator model's strict path enumeration equals `Polar.run`,
  weight by weight and store by store, for every program — assignment / choice / discrete draws /
  guarded assignment / if-else / simultaneous assignment via temporaries / guard with stuttering),
  sampler theorems (`sampler_params_agree`, `sampler_support_agree` for every family, `truncnormal_support`).
* Correspondence (model <-> code): the REAL `Simulator(n).simulate` is run with `random.choices`,
  `random.choice` and every `scipy.stats.*.rvs` scripted; every path of generated discrete programs is
  enumerated with its probability; tapes, weights and final states must equal `sim_paths` of the model.
* Oracle (code <-> definition): the weighted states after every iteration 0..n must equal the exact
  joint law of the reference semantics (polar-model op `dist`), compared as exact rationals.
* Samplers: the arguments actually passed to scipy (captured by a scripted `rvs`) against
  `samplerCall` (model) and `samplerSpecCall` (documented parameterisation); deterministic support
  membership of a few thousand real samples with a fixed numpy seed.

Exactness rule: all generated constants are dyadic rationals, so the simulator's double arithmetic is
exact and `Fraction(float)` is the value itself; a state that differs from the exact one by less than
1e-9 (relative) although no exact match exists is attributed to float rounding (values needing more
than 53 bits), counted in the evidence and matched to the nearest exact state.
"""
import json
import os
from fractions import Fraction as Fr

from .. import c12cases, hast as H, pipeline
from ..common import Check, lean_gate, ROOT, model_batch_parallel, model_batch, rng
from ..findings import attribute
from ..pool import run_tasks
from ..theorems import THEOREMS as _T

PROP = "C12"
THEOREMS = _T[PROP]

TRUSTED = [
    "Lean 4.33 kernel; axioms propext, Classical.choice, Quot.sound only",
    "compiled polar-model agrees with the kernel semantics of the same definitions",
    "harness: generator, pretty-printer, dyadic rewriting of constants, scripted random sources "
    "(an answer is the i-th option; its probability is w_i / sum(w) for random.choices — the documented "
    "behaviour of the stdlib —, 1/len for random.choice, p and 1-p for bernoulli.rvs(p))",
    "scipy.stats documentation of loc/scale/shape parameters (samplerSpecCall, ScipyCall.support)",
    "IEEE double arithmetic on dyadic rationals is exact while 53 bits suffice",
]

SAMPLER_SETS = {
    "Bernoulli": [["1/4"], ["7/8"], ["p"]],
    "Normal": [["0", "1"], ["1", "4"], ["-3/2", "9/4"], ["m", "1/4"], ["2", "v"]],
    "Uniform": [["0", "1"], ["-1", "3"], ["1/2", "m"], ["m", "8"]],
    "Laplace": [["0", "1"], ["1", "2"], ["m", "1/2"]],
    "DistExp": [["1"], ["4"], ["1/2"], ["p"]],
    "Gamma": [["2", "1/2"], ["1/2", "2"], ["3", "m"]],
    "Beta": [["2", "3"], ["1/2", "3/2"], ["2", "3", "4"], ["1", "1", "m"]],
    "TruncNormal": [["0", "1", "-1", "1"], ["0", "1", "0", "2"], ["0", "4", "-1", "1"], ["1", "1", "0", "3"],
                    ["2", "1/4", "1", "4"], ["m", "9/4", "0", "6"]],
    "Categorical": [["1/4", "1/4", "1/2"], ["1"], ["1/8", "7/8"], ["p", "1-p"]],
    "DiscreteUniform": [["0", "3"], ["-2", "2"], ["5", "5"]],
}
SAMPLER_STATE = {"p": "1/4", "m": "3/2", "v": "9"}


def _subst_param(s):
    """numeric value of a parameter text of SAMPLER_SETS under SAMPLER_STATE"""
    env = {k: Fr(v) for k, v in SAMPLER_STATE.items()}
    if s in env:
        return env[s]
    if s == "1-p":
        return 1 - env["p"]
    return Fr(s)


# ------------------------------------------------------------------------------------------------
# model requests
# ------------------------------------------------------------------------------------------------

def _prog_json(case):
    return H.program_json(case["program"])


def choose_n(cases, nmax, cap):
    """largest n <= nmax (or the template's own n) whose number of paths stays below cap (decided by the model)"""
    reqs, owner = [], []
    for ci, c in enumerate(cases):
        top = c["nmax"] if c.get("nmax") else nmax
        for n in range(top, 0, -1):
            reqs.append({"op": "sim_dist", "program": _prog_json(c), "n": n, "vars": c["vars"], "cap": cap})
            owner.append((ci, n))
    ans = model_batch_parallel(reqs)
    for c in cases:
        c["n"] = None
        c["model_dists"] = None
        c["model_error"] = None
    for (ci, n), a in zip(owner, ans):
        c = cases[ci]
        if c["n"] is not None:
            continue
        if a.get("ok") and a.get("npaths", 0) <= cap:
            c["n"] = n
            c["model_dists"] = a["dists"]
            c["model_npaths"] = a["npaths"]
        elif not a.get("ok") and a.get("error") != "too-many-paths":
            # the model refuses the program itself (same answer for every n)
            c["n"] = n
            c["model_error"] = a.get("error")
    for c in cases:
        if c["n"] is None:
            c["n"] = 1
            c["model_error"] = "too-many-paths"


def oracle_requests(cases):
    reqs, owner = [], []
    for ci, c in enumerate(cases):
        reqs.append({"op": "sim_paths", "program": _prog_json(c), "n": c["n"], "vars": c["vars"], "cap": 100000})
        owner.append((ci, "paths", None))
        for k in range(c["n"] + 1):
            reqs.append({"op": "dist", "program": _prog_json(c), "n": k, "vars": c["vars"], "sigma0": {}})
            owner.append((ci, "dist", k))
    ans = model_batch_parallel(reqs)
    for c in cases:
        c["spec_dists"] = [None] * (c["n"] + 1)
        c["spec_error"] = None
        c["model_paths"] = None
    for (ci, kind, k), a in zip(owner, ans):
        c = cases[ci]
        if kind == "paths":
            if a.get("ok"):
                c["model_paths"] = a["paths"]
            else:
                c["model_error"] = c["model_error"] or a.get("error")
        else:
            if a.get("ok"):
                c["spec_dists"][k] = a["dist"]
            else:
                c["spec_error"] = a.get("error")


# ------------------------------------------------------------------------------------------------
# comparison
# ------------------------------------------------------------------------------------------------

def _dist_map(rows):
    """[[w, [v..]]] -> {tuple(Fraction|None): Fraction}"""
    out = {}
    for w, vals in rows:
        key = tuple(None if v is None else ("nan" if v == "nan" else Fr(v)) for v in vals)
        out[key] = out.get(key, Fr(0)) + Fr(w)
    return {k: w for k, w in out.items() if w != 0}


def _close(a, b):
    if a is None or b is None or a == "nan" or b == "nan":
        return a == b
    return abs(float(a) - float(b)) <= 1e-9 * max(1.0, abs(float(b)))


def compare_dists(code_rows, exact_rows):
    """returns (equal?, n_rounded, detail).  Code states without an exact partner are matched to the unique
    exact state within 1e-9 (float rounding); weights are compared exactly."""
    code, exact = _dist_map(code_rows), _dist_map(exact_rows)
    if code == exact:
        return True, 0, None
    merged, rounded = {}, 0
    for key, w in code.items():
        if key in exact:
            merged[key] = merged.get(key, Fr(0)) + w
            continue
        cands = [e for e in exact if len(e) == len(key) and all(_close(a, b) for a, b in zip(key, e))]
        if len(cands) == 1:
            rounded += 1
            merged[cands[0]] = merged.get(cands[0], Fr(0)) + w
        else:
            merged[key] = merged.get(key, Fr(0)) + w
    if merged == exact:
        return True, rounded, None
    only_code = sorted(((H.fr_str(w), [None if v is None else str(v) for v in k]) for k, w in merged.items()
                        if exact.get(k) != w), key=str)[:4]
    only_exact = sorted(((H.fr_str(w), [None if v is None else str(v) for v in k]) for k, w in exact.items()
                         if merged.get(k) != w), key=str)[:4]
    return False, rounded, {"code": only_code, "exact": only_exact}


def _canon_paths(paths):
    return sorted((p[0], json.dumps(p[1]), json.dumps(p[2])) for p in paths)


def judge_case(c, res):
    """returns record with status in: agree, both-refuse, mismatch-spec, mismatch-model, timeout, harness-error,
    oracle-refused, truncated"""
    rec = {"case": c, "status": None, "detail": None, "rounded": 0}
    if res["status"] == "timeout":
        rec["status"] = "timeout"
        return rec
    if res["status"] != "ok":
        rec["status"] = "harness-error"
        rec["detail"] = res
        return rec
    r = res["result"]
    rec["code"] = {k: r[k] for k in ("npaths", "error", "goal_mismatch", "truncated")}
    if r["error"]:
        et = r["error"]["etype"]
        if c["model_error"] and c["spec_error"]:
            rec["status"] = "both-refuse"
        elif c["model_error"] and not c["spec_error"]:
            rec["status"] = "mismatch-spec"
            rec["detail"] = {"what": f"simulator raises {et}: {r['error']['message']}", "model_error": c["model_error"]}
        else:
            rec["status"] = "mismatch-spec" if not c["spec_error"] else "mismatch-model"
            rec["detail"] = {"what": f"simulator raises {et}: {r['error']['message']} (model runs)"}
        return rec
    if r["truncated"]:
        rec["status"] = "truncated"
        return rec
    if c["spec_error"] or any(d is None for d in c["spec_dists"]):
        rec["status"] = "oracle-refused"
        rec["detail"] = c["spec_error"]
        return rec
    # code vs definition, every iteration
    for k in range(c["n"] + 1):
        ok, nr, det = compare_dists(r["dists"][k], c["spec_dists"][k])
        rec["rounded"] += nr
        if not ok:
            rec["status"] = "mismatch-spec"
            rec["detail"] = {"what": f"law of {c['vars']} after {k} iteration(s) differs", "iteration": k, **det}
            return rec
    if r["goal_mismatch"]:
        rec["status"] = "mismatch-spec"
        rec["detail"] = {"what": "SimulationResult goal value is not the monomial of the final state",
                         "goals": r["goal_mismatch"]}
        return rec
    # code vs model: tapes, weights, final states; per-iteration laws
    if c["model_error"] or c["model_paths"] is None:
        rec["status"] = "mismatch-model"
        rec["detail"] = {"what": "model refuses, code runs", "model_error": c["model_error"]}
        return rec
    if rec["rounded"] == 0 and _canon_paths(r["paths"]) != _canon_paths(c["model_paths"]):
        a, b = _canon_paths(r["paths"]), _canon_paths(c["model_paths"])
        diff = [x for x in a if x not in b][:2], [x for x in b if x not in a][:2]
        rec["status"] = "mismatch-model"
        rec["detail"] = {"what": "path lists differ (weight, tape, final state)", "code_only": diff[0],
                         "model_only": diff[1], "n_code": len(a), "n_model": len(b)}
        return rec
    for k in range(c["n"] + 1):
        ok, _, det = compare_dists(c["model_dists"][k], c["spec_dists"][k])
        if not ok:
            rec["status"] = "mismatch-model"
            rec["detail"] = {"what": f"model law differs from the reference semantics at iteration {k}", **det}
            return rec
    rec["status"] = "agree"
    return rec


def replay_blob(rec):
    c = rec["case"]
    return {"kind": "program", "text": c["text"], "n": c["n"], "vars": c["vars"], "goals": c["goals"],
            "patches": c["patches"], "program": _prog_json(c), "family": c["family"], "detail": rec["detail"],
            "how": "parse `text` (Parser().parse_string), apply `patches`, run Simulator(n).simulate with the random "
                   "sources scripted (harness.tasks.c12:enumerate_paths) over every path; compare the weighted states "
                   "after each iteration with polar-model op=dist on `program`"}


def run_programs(chk, cases, timeout, cap):
    tasks = [{"fn": "harness.tasks.c12:enumerate_paths",
              "args": {"text": c["text"], "n": c["n"], "vars": c["vars"],
                       "goals": [[[x, k] for x, k in g] for g in c["goals"]],
                       "max_paths": cap * 4, "patches": c["patches"],
                       "use_execute": (i % 5 == 4)}} for i, c in enumerate(cases)]
    results = run_tasks(tasks, timeout=timeout, progress=40)
    return [judge_case(c, r) for c, r in zip(cases, results)]


# ------------------------------------------------------------------------------------------------
# samplers
# ------------------------------------------------------------------------------------------------

def _sarg_value(a):
    return None if a is None or a.get("v") is None else Fr(a["v"])


def _call_tuple(call):
    if call is None:
        return None
    return (call["fn"], tuple(_sarg_value(a) for a in call["shape"]), _sarg_value(call["loc"]),
            _sarg_value(call["scale"]), Fr(call["post"]))


def judge_sampler(fam, params, probe, model):
    """returns list of (kind, ok, detail) with kind in model|spec|support|modelsupport"""
    out = []
    nums = [_subst_param(p) for p in params]
    calls = probe["calls"]
    if calls[0] != calls[1] or len(calls[0]) != 1:
        return [("model", False, {"what": "sample() made a different number of source calls", "calls": calls})]
    cap = calls[0][0]
    if fam == "Categorical":
        ok = cap["fn"] == "random.choices" and [Fr(x) for x in cap["population"]] == list(range(len(nums))) and \
            [Fr(w) for w in cap["weights"]] == nums and cap["k"] == 1
        out.append(("spec", ok, {"captured": cap, "expected": "choices(range(k), weights=params, k=1)"}))
    elif fam == "DiscreteUniform":
        lo, hi = int(nums[0]), int(nums[1])
        ok = cap["fn"] == "random.choice" and [Fr(x) for x in cap["population"]] == list(range(lo, hi + 1))
        out.append(("spec", ok, {"captured": cap, "expected": "choice(range(lo, hi+1))"}))
    else:
        # Polar's own post-processing: result = post * returned value (checked at two values)
        r1, r2 = Fr(probe["post"]["at_1/4"]), Fr(probe["post"]["at_3/4"])
        post = r1 * 4
        linear = (r2 == post * Fr(3, 4))
        captured = (cap["fn"], tuple(Fr(x) for x in cap["shape"]), Fr(cap["loc"]), Fr(cap["scale"]), post)
        code, spec = _call_tuple(model.get("code")), _call_tuple(model.get("spec"))
        det = {"captured": [cap["fn"], [str(x) for x in captured[1]], str(captured[2]), str(captured[3]), str(post)],
               "model_code": None if code is None else [code[0], [str(x) for x in code[1]], str(code[2]), str(code[3]), str(code[4])],
               "spec": None if spec is None else [spec[0], [str(x) for x in spec[1]], str(spec[2]), str(spec[3]), str(spec[4])],
               "extra_kwargs": cap["extra_kwargs"]}
        out.append(("model", linear and not cap["extra_kwargs"] and captured == code, det))
        out.append(("spec", linear and not cap["extra_kwargs"] and captured == spec, det))
        # the real samples must stay inside the support the model predicts for the coded call
        cs = model.get("code_support")
        if cs is not None:
            lo, hi = cs
            s = probe["support"]
            inside = (lo is None or s["min_seen"] >= float(Fr(lo)) - 1e-12) and \
                     (hi is None or s["max_seen"] <= float(Fr(hi)) + 1e-12)
            out.append(("modelsupport", inside, {"predicted": cs, "min_seen": s["min_seen"], "max_seen": s["max_seen"]}))
    out.append(("support", probe["n_outside"] == 0,
                {"declared": probe["support"]["intervals"] or probe["support"]["points"],
                 "n_outside": probe["n_outside"], "first_outside": probe["support"]["first_outside"],
                 "nsamples": probe["support"]["nsamples"], "seed": probe["support"]["seed"]}))
    return out


def run_samplers(chk, nsamples, timeout):
    items = [(fam, ps) for fam, sets in SAMPLER_SETS.items() for ps in sets]
    tasks = [{"fn": "harness.tasks.c12:sampler_probe",
              "args": {"family": fam, "params": ps, "state": SAMPLER_STATE, "nsamples": nsamples}} for fam, ps in items]
    probes = run_tasks(tasks, timeout=timeout)
    reqs = [{"op": "sampler_call", "family": fam, "params": [H.fr_str(_subst_param(p)) for p in ps]} for fam, ps in items]
    models = model_batch(reqs)
    n_model_ok = n_model_bad = 0
    for (fam, ps), pr, mo in zip(items, probes, models):
        chk.evaluations += 1
        chk.count("sampler:" + fam)
        if pr["status"] != "ok":
            chk.count("sampler-harness-error")
            chk.obligation(f"sampler-probe:{fam}{ps}", False, pr)
            continue
        for kind, ok, det in judge_sampler(fam, ps, pr["result"], mo if mo.get("ok") else {}):
            chk.count(f"sampler-{kind}:" + ("ok" if ok else "FAIL"))
            if kind in ("model", "modelsupport"):
                n_model_ok += ok
                n_model_bad += (not ok)
                if not ok:
                    chk.sample({"sampler_model_mismatch": [fam, ps, det]}, limit=8)
            elif not ok:
                rec = {"kind": "sampler", "check": kind, "family": fam, "params": ps, "state": SAMPLER_STATE,
                       "numeric_params": [H.fr_str(_subst_param(p)) for p in ps], "detail": det,
                       "how": "harness.tasks.c12:sampler_probe(family, params, state): scripted rvs captures the "
                              "scipy arguments; real scipy with numpy seed for the support test"}
                what = (f"{fam}({', '.join(ps)}).sample passes {det.get('captured')} but the documented "
                        f"parameterisation is {det.get('spec')}") if kind == "spec" else \
                       (f"{fam}({', '.join(ps)}).sample: {det['n_outside']} of {det['nsamples']} samples outside the "
                        f"declared support {det['declared']}, e.g. {det['first_outside'][:1]}")
                chk.violation(what, rec)
            else:
                chk.nontrivial.add(f"sampler:{fam}:{','.join(ps)}:{kind}")
    chk.obligation("correspondence:sampler-calls(model=code)", n_model_bad == 0 and n_model_ok > 0,
                   {"agree": n_model_ok, "differ": n_model_bad})


# ------------------------------------------------------------------------------------------------
# the command-line action (parse_file, GoalParser, Simulator(simulation_iter), number_samples, printed means)
# ------------------------------------------------------------------------------------------------

def cli_goals(c):
    """goal texts and their expected printed value on the run in which every source answers with option 0"""
    w, tape, final = c["model_paths"][0]
    if any(e not in (["i", 0], ["v", "1"]) for e in tape):
        return None
    st = {x: Fr(v) for x, v in zip(c["vars"], final) if v is not None}
    goals = []
    seen = set()
    for mono in c["goals"]:
        if not mono or any(x not in st for x, _ in mono):
            continue
        txt = "*".join(f"{x}**{k}" for x, k in mono)
        if txt in seen:
            continue
        seen.add(txt)
        val = Fr(1)
        for x, k in mono:
            val *= st[x] ** int(k)
        goals.append({"text": f"E({txt})", "kind": "moment", "expected": float(val), "boundary": False})
    v = c["vars"][0]
    if v in st:
        c0 = st[v]
        goals.append({"text": f"P({v} >= {H.fr_str(c0)}) <= ?", "kind": "tail-upper", "expected": 1.0, "boundary": True})
        goals.append({"text": f"P({v} >= {H.fr_str(c0 + 1)}) <= ?", "kind": "tail-upper", "expected": 0.0, "boundary": False})
        goals.append({"text": f"P({v} >= {H.fr_str(c0 - 1)}) <= ?", "kind": "tail-upper", "expected": 1.0, "boundary": False})
        goals.append({"text": f"P({v} > {H.fr_str(c0)}) >= ?", "kind": "tail-lower", "expected": 0.0, "boundary": True})
        goals.append({"text": f"P({v} > {H.fr_str(c0 - 2)}) >= ?", "kind": "tail-lower", "expected": 1.0, "boundary": False})
    return goals


def run_cli(chk, recs, limit, timeout):
    sel = [r["case"] for r in recs if r["status"] == "agree" and not r["case"]["patches"]][:limit]
    jobs = []
    for c in sel:
        g = cli_goals(c)
        if g:
            jobs.append((c, g))
    tasks = [{"fn": "harness.tasks.c12:cli_simulation",
              "args": {"text": c["text"], "goal_texts": [x["text"] for x in g], "n": c["n"], "samples": 2}} for c, g in jobs]
    results = run_tasks(tasks, timeout=timeout) if tasks else []
    n_ok = n_bad = 0
    for (c, g), res in zip(jobs, results):
        chk.evaluations += 1
        if res["status"] != "ok":
            chk.count("cli:" + res["status"])
            if res["status"] != "timeout":
                chk.obligation(f"cli-run:{c['id']}", False, res)
            continue
        lines = res["result"]["lines"]
        if len(lines) != len(g):
            chk.violation(f"simulation action printed {len(lines)} results for {len(g)} goals [{c['id']}]",
                          {"kind": "cli", "text": c["text"], "goals": [x["text"] for x in g], "lines": lines, "n": c["n"]})
            continue
        for goal, (label, printed) in zip(g, lines):
            try:
                ok = float(printed) == goal["expected"]
            except ValueError:
                ok = False
            chk.count(f"cli-{goal['kind']}:" + ("ok" if ok else "FAIL"))
            if ok:
                n_ok += 1
                chk.nontrivial.add(f"cli:{c['id']}:{goal['text']}")
                continue
            n_bad += 1
            rec = {"kind": "cli-goal", "text": c["text"], "n": c["n"], "samples": 2, "goal": goal["text"],
                   "goal_kind": goal["kind"], "boundary": goal["boundary"], "label": label, "printed": printed,
                   "expected": goal["expected"], "all_goals": [x["text"] for x in g],
                   "all_expected": [x["expected"] for x in g],
                   "how": "harness.tasks.c12:cli_simulation(text, goals, n, samples): SimulationAction with every random "
                          "source answering its first option; `expected` is the goal on that run's final state"}
            chk.violation(f"simulation action prints {label} = {printed}, the run's value is {goal['expected']} "
                          f"[{c['id']}, goal {goal['text']}]", rec)
    chk.coverage["cli_goals_checked"] = n_ok + n_bad


# ------------------------------------------------------------------------------------------------
# several runs in one simulate call: the runs are independent draws from the exact law
# ------------------------------------------------------------------------------------------------

def product_law(rows, samples):
    """law of `samples` independent copies: [[w, [vals of run 1] + ... + [vals of run k]]]"""
    out = [(Fr(1), [])]
    for _ in range(samples):
        out = [(w * Fr(w2), vals + [list(v2)]) for w, vals in out for w2, v2 in rows]
    return out


def _flatten_joint(rows_first_final):
    return [[w, [v for run in firsts for v in run] + [v for run in finals for v in run]]
            for w, firsts, finals in rows_first_final]


def multi_jobs(recs, quick):
    """(case, n, samples): templates with a random initial section, corpus programs, and agreeing cases with few paths"""
    jobs = []
    for r in recs:
        c = r["case"]
        if r["status"] != "agree" or c["patches"]:
            continue
        k = c.get("model_npaths") or 10 ** 9
        forced = c["family"] in ("initrandom", "corpus", "statedep")
        if forced or k <= 14:
            if k <= 40:
                jobs.append((c, c["n"], 2))
        if (forced or len(jobs) % 3 == 0) and k <= 6:
            jobs.append((c, c["n"], 3))
    return jobs[: (60 if quick else 600)]


def run_multi(chk, recs, quick, timeout):
    jobs = multi_jobs(recs, quick)
    tasks = [{"fn": "harness.tasks.c12:enumerate_multi",
              "args": {"text": c["text"], "n": n, "vars": c["vars"], "samples": k, "max_paths": 60000}}
             for c, n, k in jobs]
    results = run_tasks(tasks, timeout=timeout) if tasks else []
    n_ok = 0
    for (c, n, k), res in zip(jobs, results):
        chk.evaluations += 1
        if res["status"] != "ok" or res["result"]["error"] or res["result"]["truncated"]:
            chk.count("multi:" + (res["status"] if res["status"] != "ok" else "error-or-truncated"))
            if res["status"] == "ok" and res["result"]["error"]:
                chk.violation(f"simulate(program, goals, {k}) raises {res['result']['error']} although one run works [{c['id']}]",
                              {"kind": "multi", "text": c["text"], "n": n, "samples": k, "vars": c["vars"],
                               "program": _prog_json(c), "detail": res["result"]["error"]})
            continue
        # expected: independent runs; the state after the initial section and the final state of every run
        first, final = c["spec_dists"][0], c["spec_dists"][n]
        # joint law of (initial state, final state) of ONE run is not available from `dist`; compare the two marginal
        # product laws (all initial states, all final states) separately
        got = res["result"]["joint"]
        ok_all = True
        for label, rows, pick in (("initial", first, 1), ("final", final, 2)):
            marg = {}
            for row in got:
                key = json.dumps(row[pick])
                marg[key] = marg.get(key, Fr(0)) + Fr(row[0])
            got_rows = [[H.fr_str(w), [v for run in json.loads(key) for v in run]] for key, w in marg.items()]
            exp_rows = [[H.fr_str(w), [v for run in vals for v in run]] for w, vals in product_law(rows, k)]
            ok, nr, det = compare_dists(got_rows, exp_rows)
            if not ok:
                ok_all = False
                chk.violation(f"{k} runs of one simulate call are not independent draws from the exact law: joint law of "
                              f"the {label} states of the runs is not the product law [{c['id']}]",
                              {"kind": "multi", "text": c["text"], "n": n, "samples": k, "vars": c["vars"],
                               "program": _prog_json(c), "which": label, "detail": det,
                               "how": "harness.tasks.c12:enumerate_multi(text, n, vars, samples): every resolution of the "
                                      "scripted sources over ONE Simulator(n).simulate(program, [], samples); expected: "
                                      "product of `samples` copies of polar-model op=dist"})
                break
        chk.count(f"multi-{k}-runs:" + ("ok" if ok_all else "FAIL"))
        chk.count("multi-paths", res["result"]["npaths"])
        if ok_all:
            n_ok += 1
            if res["result"]["npaths"] > 1:
                chk.nontrivial.add(f"multi:{k}:{c['text']}")
    chk.coverage["multi_run_cases"] = len(jobs)
    return n_ok


# ------------------------------------------------------------------------------------------------
# arguments of every sampler call along the runs (parameters that change with the state)
# ------------------------------------------------------------------------------------------------

TRACE_VALUES = ["1/2", "-1/4", "3/4", "1", "-1/2"]


def run_traces(chk, cases, samples, timeout):
    tasks = [{"fn": "harness.tasks.c12:trace_draws",
              "args": {"text": c["text"], "n": c["n"], "samples": samples, "values": TRACE_VALUES, "vars": c["vars"]}}
             for c in cases]
    results = run_tasks(tasks, timeout=timeout) if tasks else []
    # model: states after k iterations of every run (same tape), then the documented call on those states
    reqs, owner = [], []
    for ci, (c, res) in enumerate(zip(cases, results)):
        if res["status"] != "ok" or res["result"]["error"]:
            continue
        for ri, run in enumerate(res["result"]["runs"]):
            for k in range(c["n"] + 1):
                reqs.append({"op": "sim_run", "program": _prog_json(c), "n": k, "tape": run["tape"]})
                owner.append((ci, ri, k))
    ans = model_batch_parallel(reqs)
    states = {}
    for key, a in zip(owner, ans):
        states[key] = a
    n_model_ok = n_model_bad = 0
    for ci, (c, res) in enumerate(zip(cases, results)):
        chk.evaluations += 1
        if res["status"] != "ok":
            chk.count("trace:" + res["status"])
            if res["status"] != "timeout":
                chk.obligation(f"trace-run:{c['id']}", False, res)
            continue
        if res["result"]["error"]:
            chk.count("trace:unsegmented")
            chk.sample({"trace_unsegmented": [c["id"], res["result"]["error"]]}, limit=8)
            continue
        sreqs, sowner = [], []
        bad_model = False
        for ri, run in enumerate(res["result"]["runs"]):
            per_iter = len(c["draws"])
            if len(run["calls"]) != per_iter * c["n"]:
                chk.violation(f"run {ri + 1} made {len(run['calls'])} sampler calls, the program draws {per_iter} per "
                              f"iteration for {c['n']} iterations [{c['id']}]",
                              {"kind": "trace", "text": c["text"], "n": c["n"], "samples": samples, "vars": c["vars"],
                               "program": _prog_json(c), "draws": [[d[1], d[2]] for d in c["draws"]]})
                bad_model = True
                break
            for k in range(c["n"] + 1):
                a = states.get((ci, ri, k), {})
                if not a.get("ok"):
                    bad_model = True
                    chk.sample({"trace_model_error": [c["id"], a.get("error")]}, limit=8)
                    continue
                model_vals = [a["state"].get(x) for x in c["vars"]]
                if model_vals != run["states"][k]:
                    bad_model = True
                    chk.sample({"trace_state_mismatch": [c["id"], ri, k, run["states"][k], model_vals]}, limit=8)
                if k < c["n"]:
                    env = {x: Fr(v) for x, v in a["state"].items()}
                    for j, (_, x, fam, pes) in enumerate(c["draws"]):
                        ps = [H.fr_str(c12cases.eval_expr(pe, env)) for pe in pes]
                        sreqs.append({"op": "sampler_call", "family": fam, "params": ps})
                        sowner.append((ri, k, j, x, fam, ps))
        if bad_model:
            n_model_bad += 1
        sans = model_batch(sreqs) if sreqs else []
        stale = 0
        for (ri, k, j, x, fam, ps), mo in zip(sowner, sans):
            cap = res["result"]["runs"][ri]["calls"][k * len(c["draws"]) + j]
            captured = (cap["fn"], tuple(Fr(v) for v in cap["shape"]), Fr(cap["loc"]), Fr(cap["scale"]))
            spec, code = _call_tuple(mo.get("spec")), _call_tuple(mo.get("code"))
            chk.count("trace-calls")
            if code is not None and captured == code[:4] and not cap["extra_kwargs"]:
                n_model_ok += 1
            else:
                n_model_bad += 1
            if spec is None or captured != spec[:4] or cap["extra_kwargs"]:
                stale += 1
                if stale == 1:
                    chk.violation(
                        f"{x} = {fam}({', '.join(ps)}) in run {ri + 1}, iteration {k + 1}: sample passes "
                        f"{[cap['fn'], cap['shape'], cap['loc'], cap['scale']]} to scipy, the documented call for the "
                        f"current parameter values is {None if spec is None else [spec[0], [str(v) for v in spec[1]], str(spec[2]), str(spec[3])]} [{c['id']}]",
                        {"kind": "trace", "text": c["text"], "n": c["n"], "samples": samples, "vars": c["vars"],
                         "program": _prog_json(c), "draws": [[d[1], d[2]] for d in c["draws"]],
                         "run": ri + 1, "iteration": k + 1, "variable": x, "family": fam, "params_now": ps,
                         "captured": cap,
                         "how": "harness.tasks.c12:trace_draws(text, n, samples, values, vars): one simulate call, every "
                                "rvs call recorded; expected = polar-model op=sampler_call (spec) on the parameters "
                                "evaluated in the state at the start of the iteration (op=sim_run on the same tape)"})
        chk.count("trace:" + ("ok" if stale == 0 and not bad_model else "FAIL"))
        if stale == 0 and not bad_model:
            chk.nontrivial.add("trace:" + c["text"])
            chk.sample({"trace": c["text"], "calls_run1": [[x["fn"], x["shape"], x["loc"], x["scale"]]
                                                            for x in res["result"]["runs"][0]["calls"]][:6]}, limit=5)
    chk.obligation("correspondence:sampler-calls-along-runs(model=code)", n_model_bad == 0 and n_model_ok > 0,
                   {"calls_agree": n_model_ok, "differ": n_model_bad})


# ------------------------------------------------------------------------------------------------
# entry points
# ------------------------------------------------------------------------------------------------

def run(tier):
    chk = Check(PROP, tier)
    lean_ok = lean_gate(chk, THEOREMS)
    quick = tier == "quick"
    n_gen = 150 if quick else 1800
    nmax = 3 if quick else 4
    cap = 1200 if quick else 5000
    timeout = 90 if quick else 400
    r = rng(f"{PROP}-{tier}")
    corpus_discrete, corpus_traces = c12cases.corpus_cases(pipeline.load_corpus(PROP))
    cases = corpus_discrete + c12cases.special_cases(r, f"{PROP}-{tier}-tpl", reps=1 if quick else 6) + \
        c12cases.init_random_cases(r, f"{PROP}-{tier}-tpl") + \
        c12cases.generated_cases(r, n_gen, f"{PROP}-{tier}")
    traces = corpus_traces + c12cases.trace_cases(r, f"{PROP}-{tier}-trace")
    recs = []
    if lean_ok:
        choose_n(cases, nmax, cap)
        oracle_requests(cases)
        recs = run_programs(chk, cases, timeout, cap)
    fam = {}
    for rec in recs:
        c = rec["case"]
        chk.evaluations += 1
        chk.count("status:" + rec["status"])
        chk.count("paths", (rec.get("code") or {}).get("npaths") or 0)
        chk.count("float-rounded-states", rec["rounded"])
        chk.count(f"n={c['n']}")
        fam.setdefault(c["family"], {}).setdefault(rec["status"], 0)
        fam[c["family"]][rec["status"]] += 1
        for f in c["features"]:
            chk.count("feature:" + f)
        if rec["status"] == "agree":
            # non-trivial: more than one path, or the law changes with the iteration
            if (rec["code"]["npaths"] > 1) or len({json.dumps(d, sort_keys=True) for d in c["spec_dists"]}) > 1:
                chk.nontrivial.add(c["text"])
            chk.sample({"text": c["text"], "n": c["n"], "paths": rec["code"]["npaths"],
                        "law_after_n": c["spec_dists"][-1][:6]}, limit=3)
        elif rec["status"] == "mismatch-spec":
            fid = attribute(PROP, {"kind": "program", **replay_blob(rec)})
            if fid:
                chk.known(fid[0], fid[1])
            else:
                chk.violation(f"{rec['detail'].get('what')} [{c['id']}]", replay_blob(rec))
    n_agree = sum(1 for x in recs if x["status"] == "agree")
    n_model = [x for x in recs if x["status"] == "mismatch-model"]
    n_herr = [x for x in recs if x["status"] == "harness-error"]
    chk.obligation("correspondence:simulator-paths(model=code)", lean_ok and n_agree > 0 and not n_model and not n_herr,
                   {"agree": n_agree, "model_mismatch": [{"id": x["case"]["id"], "text": x["case"]["text"],
                                                          "detail": x["detail"]} for x in n_model[:3]],
                    "harness_errors": [x["detail"] for x in n_herr[:2]], "by_family": fam})
    if lean_ok:
        run_multi(chk, recs, quick, timeout * 2)
        run_traces(chk, traces, 2 if quick else 3, timeout)
        run_cli(chk, recs, 24 if quick else 200, timeout)
        run_samplers(chk, 2000 if quick else 20000, timeout)
    chk.assumptions = [
        "programs: discrete (no continuous draw), all constants dyadic; n <= %d (templates up to n = 7), at most %d paths" % (nmax, cap),
        "NOT exhibited by the model: float rounding in arithmetic and in evaluate_cop on float states; the internals of "
        "scipy's / random's generators (only the arguments they receive and the support of their output are checked)",
        "sim_eq_sem is stated for the strict enumeration (random.choices weights sum to 1, as the analysis assumes)",
    ]
    return chk.finish(
        level="proof",
        rule="a program case is non-trivial iff it has more than one path or its law changes with the iteration; "
             "distinct by source text; a sampler case counts per (family, parameter set, check) that passed",
        trusted_base=TRUSTED,
        explanation="partial: Lean theorems about a hand-written model of simulator.py tied to the code by exhaustive "
                    "path enumeration of the real simulator under scripted random sources; float rounding and "
                    "generator internals are outside the model")


def replay(path):
    with open(os.path.join(ROOT, path) if not os.path.isabs(path) else path) as fh:
        blob = json.load(fh)
    if blob.get("kind") == "multi":
        res = run_tasks([{"fn": "harness.tasks.c12:enumerate_multi",
                          "args": {"text": blob["text"], "n": blob["n"], "vars": blob["vars"],
                                   "samples": blob["samples"], "max_paths": 200000}}], timeout=600)[0]
        spec = model_batch([{"op": "dist", "program": blob["program"], "n": k, "vars": blob["vars"], "sigma0": {}}
                            for k in (0, blob["n"])])
        bad = res["status"] != "ok" or bool(res["result"]["error"])
        if not bad:
            for label, a, pick in (("initial", spec[0], 1), ("final", spec[1], 2)):
                marg = {}
                for row in res["result"]["joint"]:
                    key = json.dumps(row[pick])
                    marg[key] = marg.get(key, Fr(0)) + Fr(row[0])
                got = [[H.fr_str(w), [v for run in json.loads(key) for v in run]] for key, w in marg.items()]
                exp = [[H.fr_str(w), [v for run in vals for v in run]]
                       for w, vals in product_law(a.get("dist", []), blob["samples"])]
                ok, _, det = compare_dists(got, exp)
                print(f"{label} states of the {blob['samples']} runs:", "product law" if ok else f"NOT the product law {det}")
                bad = bad or not ok
        else:
            print(res)
        if bad:
            print(f"VIOLATION property={PROP} replay={path}")
            return 1
        return 0
    if blob.get("kind") == "trace":
        case = {"id": "replay", "text": blob["text"], "n": blob["n"], "vars": blob["vars"],
                "program": None, "draws": None}
        chk = Check(PROP, "quick")
        # rebuild the case from the stored program JSON
        pj = blob["program"]
        cj = pipeline.case_from_json({"program": pj, "goals": [], "params": {}, "sigma0": {}})
        case["program"] = cj["program"]
        case["draws"] = c12cases.draws_of(cj["program"])
        run_traces(chk, [case], blob["samples"], 300)
        return 1 if chk.violations else 0
    if blob.get("kind") == "cli-goal":
        res = run_tasks([{"fn": "harness.tasks.c12:cli_simulation",
                          "args": {"text": blob["text"], "goal_texts": blob["all_goals"], "n": blob["n"],
                                   "samples": blob["samples"]}}], timeout=300)[0]
        print(res)
        lines = (res.get("result") or {}).get("lines") or []
        bad = len(lines) != len(blob["all_expected"]) or any(
            float(v) != e for (_, v), e in zip(lines, blob["all_expected"]))
        if bad:
            print(f"VIOLATION property={PROP} replay={path}")
            return 1
        return 0
    if blob.get("kind") == "sampler":
        pr = run_tasks([{"fn": "harness.tasks.c12:sampler_probe",
                         "args": {"family": blob["family"], "params": blob["params"], "state": blob["state"],
                                  "nsamples": 2000}}], timeout=120)[0]
        mo = model_batch([{"op": "sampler_call", "family": blob["family"], "params": blob["numeric_params"]}])[0]
        bad = False
        for kind, ok, det in judge_sampler(blob["family"], blob["params"], pr["result"], mo):
            print(kind, "ok" if ok else "FAIL", det)
            if kind in ("spec", "support") and not ok:
                bad = True
        if bad:
            print(f"VIOLATION property={PROP} replay={path}")
            return 1
        return 0
    res = run_tasks([{"fn": "harness.tasks.c12:enumerate_paths",
                      "args": {"text": blob["text"], "n": blob["n"], "vars": blob["vars"], "goals": blob["goals"],
                               "max_paths": 100000, "patches": blob.get("patches")}}], timeout=600)[0]
    reqs = [{"op": "dist", "program": blob["program"], "n": k, "vars": blob["vars"], "sigma0": {}}
            for k in range(blob["n"] + 1)]
    spec = model_batch(reqs)
    print("simulator:", res["status"], (res.get("result") or {}).get("error"))
    bad = res["status"] != "ok" or bool(res["result"]["error"])
    if not bad:
        for k, a in enumerate(spec):
            ok, nr, det = compare_dists(res["result"]["dists"][k], a.get("dist", []))
            print(f"iteration {k}:", "equal" if ok else f"DIFFER {det}")
            bad = bad or not ok
        if res["result"]["goal_mismatch"]:
            print("goal values:", res["result"]["goal_mismatch"])
            bad = True
    if bad:
        print(f"VIOLATION property={PROP} replay={path}")
        return 1
    return 0
