"""C06 — every reported polynomial invariant holds on the goal sequences.

Inputs: (a) seeded tuples of exponential-polynomial closed forms over base sets with multiplicative
relations handed to the real `InvariantIdeal(closed_forms).compute_basis()`; (b) programs run through
`GoalsAction` with `--invariants` in-process (README examples, benchmark files, generated programs).
Decision: every basis polynomial p goes through polar-model `invariant_check` — the exponential
polynomial p(f_1(n),..,f_k(n)) is built from the exact term lists of the closed forms and tested on
the window of its formal shape starting after the special cases Polar lists; by
`Polar.Inv.checkInvariant_sound` a pass means p(f(n)) = 0 for **every** n >= n0.  The closed forms
themselves are tied to the loop by `cfinite_check` against Polar's linear system (all n) and, for
generated programs, by the Lean reference semantics (n <= 5)."""
from .. import c0607_check as C
from ..common import Check, lean_gate
from ..theorems import THEOREMS as _T

PROP = "C06"
THEOREMS = _T.get(PROP, [])

TRUSTED = [
    "Lean 4.33 kernel; axioms propext, Classical.choice, Quot.sound only",
    "compiled polar-model agrees with the kernel semantics of Polar.Inv.checkInvariant",
    "harness: extraction of the term lists (coef, deg, base) from sympy closed forms, guarded by exact "
    "re-evaluation against sympy at three points per goal and by cfinite_check / the reference semantics",
    "Groebner / elimination step of InvariantIdeal: modelled (c06_ideal_sound reduces it to the generators), "
    "not verified; every *output* polynomial is validated per instance",
]


def run(tier):
    chk = Check(PROP, tier)
    lean_ok = lean_gate(chk, THEOREMS)
    quick = tier == "quick"
    n_tuples = 60 if quick else 1500
    n_prog = 8 if quick else 150
    timeout = 60 if quick else 240
    cases = C.tuple_cases(tier, f"{PROP}-{tier}", n_tuples) + C.program_cases(tier, f"{PROP}-{tier}-prog", n_prog)
    if not lean_ok:
        cases = []
    outs = C.run_cases(cases, False, 0, None, timeout, progress=200)
    verdicts = C.judge(cases, outs, False)
    bad_oracle, n_oracle = C.oracle_crosscheck(cases, verdicts)
    oracle_bad_cases = {ci for ci, *_ in bad_oracle}

    validated = 0
    odd = []
    for ci, (case, v) in enumerate(zip(cases, verdicts)):
        chk.evaluations += 1
        st = v["status"] or "?"
        chk.count("status:" + st)
        chk.count("kind:" + case["kind"])
        if st == "harness-error":
            chk.obligation("harness:task", False, str(v.get("detail"))[:600])
            continue
        if st != "ok":
            if st == "refused":
                r = (v.get("res") or {}).get("refused") or {}
                chk.count("refused:" + str(r.get("etype")))
            if st in ("basis-has-foreign-symbols", "unsupported-basis", "shape-mismatch"):
                odd.append({"id": case["id"], "status": st, "detail": (v.get("res") or {}).get("detail"),
                            "input": case.get("cfs") or {"text": case.get("text"), "goals": case.get("goals")},
                            "closed_forms": (v.get("res") or {}).get("closed_forms")})
            continue
        res = v["res"]
        if v.get("model_errors"):
            chk.obligation("harness:model-request", False, v["model_errors"][:2])
        chk.count("basis-size:" + str(min(len(res["basis"]), 6)))
        if res.get("irrational_basis"):
            chk.count("irrational-coefficient-basis")
        if case["kind"] == "program":
            chk.count("printed-ok" if res.get("printed_ok") else "printed-mismatch")
            if res.get("ambiguous_ids"):
                chk.count("printed-with-ambiguous-goal-identifiers")
            if not res.get("printed_ok"):
                chk.violation(f"{case['id']}: the printed 'Invariants' section is not the computed basis",
                              dict(C.replay_blob(case, v, "printed basis differs"), printed=res.get("printed_detail")))
        if v["sys_bad"]:
            chk.count("closed-form-vs-system-mismatch")
            chk.violation(f"{case['id']}: closed form of {v['sys_bad'][0]['goal']} disagrees with Polar's own linear system "
                          f"at n={v['sys_bad'][0]['first_bad']['n']}", C.replay_blob(case, v, v["sys_bad"][0]))
        chk.count("closed-forms-tied-to-system", v["sys_ok"])
        if ci in oracle_bad_cases:
            b = [x for x in bad_oracle if x[0] == ci][0]
            chk.violation(f"{case['id']}: goal {b[1]} at n={b[2]}: closed form {b[3]}, reference semantics {b[4]}",
                          C.replay_blob(case, v, {"goal": b[1], "n": b[2], "closed_form": b[3], "oracle": b[4]}))
        validated += v["c06_ok"]
        if v["c06_ok"]:
            chk.nontrivial.add(case["id"] + "|" + ";".join(res["basis_str"]))
            chk.sample({"id": case["id"], "closed_forms": res.get("closed_forms"), "basis": res["basis_str"],
                        "n0": res["n0"], "windows": v["windows"]}, limit=5)
        for b in v["c06_bad"]:
            chk.violation(f"{case['id']}: reported invariant {b['poly_str']} = 0 is false at n={b['n']} "
                          f"(value {b['value']}); closed forms {res.get('closed_forms')}", C.replay_blob(case, v, b))
    chk.count("oracle-compared-values", n_oracle)
    if odd:
        chk.coverage["undecided_cases"] = odd[:20]
    chk.obligation("correspondence:basis-polynomials-validated-for-all-n", lean_ok and validated > 0 and
                   chk.counts.get("status:harness-error", 0) == 0, {"validated": validated})
    chk.assumptions = [
        "closed forms with symbolic parameters are checked at one rational parameter point; bases outside Q(sqrt D) "
        "(one radicand) are counted as unsupported-shape and not validated",
        "special cases: n0 = 1 + the largest k of any `n <= k` condition in the goals' Piecewise closed forms"]
    return chk.finish(
        level="proof",
        rule="fixed tuples + seeded tuples over 17 base sets + inline/benchmark/generated programs; distinct = (case id, "
             "reported basis); non-trivial = at least one basis polynomial validated for all n >= n0 by invariant_check",
        trusted_base=TRUSTED)


def replay(path):
    return C.replay(PROP, path, False)
