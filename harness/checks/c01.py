"""C01 — closed-form moments equal the exact expected values at every iteration.

Decision: Lean theorems (C-finite extension principle, semantics lemmas) + end-to-end correspondence:
the real pipeline's closed forms evaluated at n = 0..N against `moment P M n σ₀` of the Lean
reference semantics (polar-model op=moments), on the corpus and on seeded generated programs.
"""
import json
import os

from .. import pipeline
from ..common import Check, lean_gate, ROOT
from ..findings import attribute
from ..theorems import THEOREMS as _T

PROP = "C01"
THEOREMS = _T[PROP]

TRUSTED = [
    "Lean 4.33 kernel; axioms propext, Classical.choice, Quot.sound only",
    "Mathlib definitions: Polynomial, Matrix.charpoly, Module.End",
    "compiled polar-model agrees with the kernel semantics of the same definitions",
    "harness: generator, pretty-printer, sympy exact evaluation of Polar's closed form at integer n",
    "continuous draws enter the oracle through textbook moment recurrences (Polar/Dist.lean)",
]


def run(tier):
    chk = Check(PROP, tier)
    lean_ok = lean_gate(chk, THEOREMS)
    quick = tier == "quick"
    n_gen = 60 if quick else 1200
    nmax = 8 if quick else 10
    timeout = 40 if quick else 150
    cases = pipeline.load_corpus(PROP) + pipeline.generate_cases(n_gen, f"{PROP}-{tier}")
    recs = pipeline.analyze_cases(cases, nmax=nmax, timeout=timeout, progress=50) if lean_ok else []
    fam = {}
    for r in recs:
        chk.evaluations += 1
        chk.count("status:" + r["status"])
        f = r["case"].get("family", "corpus")
        fam.setdefault(f, {}).setdefault(r["status"], 0)
        fam[f][r["status"]] += 1
        for feat in r["case"].get("features", []):
            chk.count("feature:" + feat)
        k = pipeline.nontrivial_key(r)
        if k and r["status"] == "agree":
            chk.nontrivial.add(k)
        if r["status"] == "agree":
            chk.sample({"text": r["case"]["text_used"], "goals": r["case"]["goals"],
                        "oracle_values": r["oracle"]["values"]}, limit=3)
        if r["status"] == "mismatch":
            fid = attribute(PROP, r)
            if fid:
                chk.known(fid[0], fid[1])
            else:
                m = r["mismatches"][0]
                chk.violation(f"E({m['goal']}) at n={m['n']}: polar={m['polar']} exact={m['oracle']} ({m['kind']})",
                              pipeline.replay_blob(r))
        if r["status"] == "harness-error":
            chk.count("harness-error")
    n_agree = sum(1 for r in recs if r["status"] == "agree")
    n_mis = sum(1 for r in recs if r["status"] == "mismatch")
    chk.obligation("correspondence:end-to-end-moments", lean_ok and n_agree > 0 and
                   not any(r["status"] == "harness-error" for r in recs),
                   {"agree": n_agree, "mismatch": n_mis, "by_family": fam})
    chk.assumptions = ["values compared at n = 0..%d and one random rational parameter / initial-value point per case" % nmax,
                       "programs whose branch conditions depend on a continuous draw are outside the oracle"]
    return chk.finish(
        level="proof",
        rule="corpus + seeded generator (8 families); a case is non-trivial iff some goal's exact sequence is "
             "non-constant in n; distinct by source text",
        trusted_base=TRUSTED)


def replay(path):
    with open(os.path.join(ROOT, path) if not os.path.isabs(path) else path) as fh:
        blob = json.load(fh)
    case = pipeline.case_from_json(blob["case"])
    case["text"] = blob.get("text")
    recs = pipeline.analyze_cases([case], nmax=6, timeout=300)
    r = recs[0]
    print("status:", r["status"])
    for m in r["mismatches"][:10]:
        print("  ", {k: v for k, v in m.items() if k != "closed_form"})
    if r["status"] == "mismatch":
        print(f"VIOLATION property={PROP} replay={path}")
        return 1
    return 0
