"""C01 — closed-form moments equal the exact expected values at every iteration.

Decision: Lean theorems (C-finite extension principle, semantics lemmas) + end-to-end correspondence:
the real pipeline's closed forms evaluated at n = 0..N against `moment P M n σ₀` of the Lean
reference semantics (polar-model op=moments), on the corpus and on seeded generated programs.
"""
import json
import os

from .. import pipeline, hast as H
from ..common import Check, lean_gate, ROOT
from ..findings import attribute
from ..theorems import THEOREMS as _T

PROP = "C01"
THEOREMS = _T[PROP]

TRUSTED = [
    "Lean 4.33 kernel; axioms propext, Classical.choice, Quot.sound only",
    "Mathlib definitions: Polynomial, Matrix.charpoly, Module.End",
    "compiled polar-model agrees with the kernel semantics of the same definitions",
    "harness: generator, pretty-printer, sympy exact evaluation of Polar's closed form at integer n",
    "continuous draws enter the oracle through textbook moment recurrences (Polar/Dist.lean)",
]


def run(tier):
    chk = Check(PROP, tier)
    lean_ok = lean_gate(chk, THEOREMS)
    quick = tier == "quick"
    n_gen = 60 if quick else 1200
    nmax = 8 if quick else 10
    timeout = 40 if quick else 150
    cases = pipeline.load_corpus(PROP) + pipeline.generate_cases(n_gen, f"{PROP}-{tier}")
    recs = pipeline.analyze_cases(cases, nmax=nmax, timeout=timeout, progress=50) if lean_ok else []
    fam = {}
    for r in recs:
        chk.evaluations += 1
        chk.count("status:" + r["status"])
        f = r["case"].get("family", "corpus")
        fam.setdefault(f, {}).setdefault(r["status"], 0)
        fam[f][r["status"]] += 1
        for feat in r["case"].get("features", []):
            chk.count("feature:" + feat)
        k = pipeline.nontrivial_key(r)
        if k and r["status"] == "agree":
            chk.nontrivial.add(k)
        if r["status"] == "agree":
            chk.sample({"text": r["case"]["text_used"], "goals": r["case"]["goals"],
                        "oracle_values": r["oracle"]["values"]}, limit=3)
        if r["status"] == "mismatch":
            fid = attribute(PROP, r)
            if fid:
                chk.known(fid[0], fid[1])
            else:
                m = r["mismatches"][0]
                chk.violation(f"E({m['goal']}) at n={m['n']}: polar={m['polar']} exact={m['oracle']} ({m['kind']})",
                              pipeline.replay_blob(r))
        if r["status"] == "harness-error":
            chk.count("harness-error")
    # ---- the executable merges equal paths with a hash map; the theorems speak about the un-merged run: compare both
    um_cases = [r for r in recs if r["status"] == "agree"][:25]
    from ..oracle import moments_request
    from ..common import model_batch_parallel as _mbp
    um = _mbp([dict(moments_request(r["case"], 3), merge=False, budget=20000) for r in um_cases], timeout=40) if um_cases else []
    n_um = 0
    for r, a in zip(um_cases, um):
        if not a.get("ok"):
            chk.count("unmerged:refused")
            continue
        k = min(len(a["values"][0]), len(r["oracle"]["values"][0])) if a["values"] else 0
        same = all(x[:k] == y[:k] for x, y in zip(a["values"], r["oracle"]["values"]))
        if not same:
            chk.obligation("model:merged-run-equals-unmerged-run", False, {"text": r["case"]["text_used"]})
        else:
            n_um += 1
    chk.obligation("model:merged-run-equals-unmerged-run(sampled)", lean_ok and (n_um > 0 or not um_cases), {"cases": n_um})
    # ---- the CLI lines: 'E(M) = v0; v1; ...; formula' and 'E(M | n=k) = value' (prettify_piecewise, eval_re)
    cli_cases = [r for i, r in enumerate(recs) if r["status"] in ("agree", "mismatch") and i % 2 == 0]
    from ..pool import run_tasks
    from ..oracle import polar_subs
    from fractions import Fraction as Fr
    rr = rng_cli = __import__("harness.common", fromlist=["rng"]).rng(f"{PROP}-cli-{tier}")
    cli_tasks = []
    for r in cli_cases:
        c = r["case"]
        gs = ["E(" + "*".join(f"{v}**{k}" for v, k in g) + ")" for g in c["goals"]]
        r["_at_n"] = rr.randint(0, 6)
        cli_tasks.append({"fn": "harness.tasks.analyze:cli_goals_eval",
                          "args": {"text": c["text_used"], "goal_strs": gs, "at_n": r["_at_n"], "subs": polar_subs(c),
                                   "nmax": nmax}})
    cli_out = run_tasks(cli_tasks, timeout=timeout, progress=None) if cli_tasks else []
    n_cli_ok = 0
    for r, out in zip(cli_cases, cli_out):
        if out["status"] != "ok" or out["result"].get("error"):
            chk.count("cli:" + (out["status"] if out["status"] != "ok" else "error-" + out["result"]["error"]["etype"]))
            continue
        o = r["oracle"]["values"]
        forms = [p for p in out["result"]["parsed"] if p["kind"] == "closed_form"]
        atn = [p for p in out["result"]["parsed"] if p["kind"] == "at_n"]
        if any(p["kind"] == "unparsed" for p in out["result"]["parsed"]) or len(forms) != len(r["case"]["goals"]):
            chk.count("cli:unparsed-output")
            continue
        bad = None
        for gi, f in enumerate(forms):
            want = [Fr(x) for x in o[gi]]
            seq = f["specials"] + f["general"]
            for n, (pv, w) in enumerate(zip(seq, want)):
                if pv[0] == "q" and Fr(pv[1]) == w:
                    continue
                if pv[0] in ("irrational", "float"):
                    try:
                        if abs(complex(pv[1].replace("*I", "j").replace(" ", "")).real - float(w)) <= 1e-9 * max(1, abs(float(w))):
                            continue
                    except Exception:
                        pass
                bad = (f["raw"], n, pv[1], str(w), "printed special cases / general formula")
                break
            if bad:
                break
            if gi < len(atn):
                k = atn[gi]["n"]
                pv = atn[gi]["value"]
                if k < len(want) and not (pv[0] == "q" and Fr(pv[1]) == want[k]):
                    ok_num = False
                    if pv[0] in ("irrational", "float"):
                        try:
                            ok_num = abs(complex(pv[1].replace("*I", "j").replace(" ", "")).real - float(want[k])) <= 1e-9 * max(1, abs(float(want[k])))
                        except Exception:
                            ok_num = False
                    if not ok_num:
                        bad = (atn[gi]["raw"], k, pv[1], str(want[k]), "--at_n value")
                        break
        chk.count("cli:cases-compared")
        if bad and r["status"] == "agree":
            raw, n, got, want, what = bad
            chk.violation(f"CLI line {raw[:120]!r}: {what} at n={n} gives {got}, exact {want}",
                          dict(pipeline.replay_blob(r), cli_line=raw, n=n, printed_value=got, exact=want, what=what,
                               at_n=r["_at_n"]))
        elif not bad:
            n_cli_ok += 1
    chk.obligation("correspondence:cli-printed-lines", lean_ok and (n_cli_ok > 0 or not cli_cases), {"cases_ok": n_cli_ok})
    # ---- the per-instance chain that makes the closed form right for ALL n (C05-V1, C03-V2, C04 window check):
    #   types inductive  ∧  every equation a one-step identity on all typed states  ∧  initial vector exact
    #   ∧  closed form = (A^n v)_i for all n   ⇒   closed form(n) = E(M)(n) of the normalised program for all n
    chain_cases = [r for i, r in enumerate(recs) if r["status"] == "agree" and i % 2 == 1]
    chain_tasks = [{"fn": "harness.tasks.normalize:full_chain",
                    "args": {"text": r["case"]["text_used"], "goals": [[[x, k] for x, k in g] for g in r["case"]["goals"][:2]],
                             "subs": polar_subs(r["case"])}} for r in chain_cases]
    chain_out = run_tasks(chain_tasks, timeout=timeout, progress=None) if chain_tasks else []
    from ..oracle import lean_sigma0
    from ..common import model_batch_parallel
    import json as _json
    creqs, cmeta = [], []
    for r, out in zip(chain_cases, chain_out):
        if out["status"] != "ok" or not out["result"].get("accepted") or out["result"].get("program") is None \
                or out["result"].get("abstracted"):
            chk.count("chain:skipped-upstream")
            continue
        res = out["result"]
        c = r["case"]
        vtypes, okt = {}, True
        for v, vals in res["typedefs"].items():
            try:
                vtypes[v] = [H.fr_str(Fr(x)) for x in vals]
            except Exception:
                okt = False
        if not okt:
            chk.count("chain:symbolic-types")
            continue
        prog = _json.loads(_json.dumps(res["program"]))
        base = lean_sigma0(c)
        s0 = dict(base)
        for pz in [z for z in res.get("symbols", []) if z in base]:
            prog["init"].insert(0, ["assign", pz, ["expr", ["num", base[pz]]], ["tt"], pz])
            vtypes[pz] = [base[pz]]
        for sysm in res["systems"]:
            if not sysm.get("ok") or not sysm.get("numeric") or "closed" not in sysm or "error" in sysm["closed"]:
                chk.count("chain:system-unavailable")
                continue
            cl = sysm["closed"]
            if not cl.get("exact"):
                chk.count("chain:rounded")
                continue
            group = []
            group.append({"op": "types_inductive", "program": prog, "types": vtypes, "cap": 4096})
            for row in sysm["rows"]:
                group.append({"op": "onestep_check", "program": prog, "types": vtypes, "mono": row["mono"],
                              "terms": [[t[0], t[1]] for t in row["terms"]], "cap": 4096})
            # initial vector and the first step (the recurrence theorem covers n >= 1 for variables without initial assignment)
            names = set()
            from .c02 import _walk_vars
            _walk_vars(res["program"], names)
            ss = dict(s0)
            for v in names:
                if v not in ss:
                    ss[v] = "97/13"
            group.append({"op": "moments", "program": res["program"], "sigma0": ss, "monos": [row["mono"] for row in sysm["rows"]],
                          "nmax": 1, "budget": 3000})
            A, v0 = sysm["matrix"], sysm["init_vector"]
            n0 = max(cl["max_case"] + 1, 0)
            if any(x is None for rw in A for x in rw) or any(x is None for x in v0):
                chk.count("chain:non-numeric-matrix")
                continue
            basereq = {"op": "cfinite_check", "A": A, "v": v0, "i": cl["index"], "n0": n0}
            if cl.get("terms") is not None:
                group.append(dict(basereq, terms=cl["terms"]))
            elif cl.get("terms_qd") is not None:
                group.append(dict(basereq, terms=cl["terms_qd"], D=cl["D"]))
            elif cl.get("degs") and all(t == "q" for t, _ in cl["values"]) and n0 + len(A) + sum(cl["degs"]) <= len(cl["values"]):
                W = len(A) + sum(cl["degs"])
                group.append(dict(basereq, values=[x for _, x in cl["values"][n0:n0 + W]], degs=cl["degs"]))
            else:
                chk.count("chain:closed-form-shape-unavailable")
                continue
            group.append({"op": "matpow_seq", "A": A, "v": v0, "nmax": max(n0, 1)})
            cmeta.append((r, sysm, len(group)))
            creqs += group
    cans = model_batch_parallel(creqs, timeout=60) if creqs else []
    pos = 0
    n_chain = 0
    for r, sysm, k in cmeta:
        grp = cans[pos:pos + k]
        pos += k
        cl = sysm["closed"]
        rows = sysm["rows"]
        a_types, a_rows, a_mom, a_cf, a_seq = grp[0], grp[1:1 + len(rows)], grp[1 + len(rows)], grp[2 + len(rows)], grp[3 + len(rows)]
        if not all(a.get("ok") for a in grp):
            chk.count("chain:model-refused")
            continue
        if a_types.get("inductive") is not True or any(a.get("holds") is not True for a in a_rows):
            if a_types.get("inductive") is False or any(a.get("holds") is False for a in a_rows):
                chk.count("chain:LINK-FAILED(types/equations)")      # reported by C05 / C03 with a witness
            else:
                chk.count("chain:outside-validator-fragment")
            continue
        # initial vector exact, first step exact
        init_ok = all(row["init"] is not None and Fr(row["init"]) == Fr(vals[0]) for row, vals in zip(rows, a_mom["values"]))
        key = {_json.dumps(row["mono"]): vals for row, vals in zip(rows, a_mom["values"])}
        step_ok = True
        for row in rows:
            vals = key[_json.dumps(row["mono"])]
            if len(vals) < 2:
                step_ok = False
                break
            rhs = sum((Fr(cv) * (Fr(key[_json.dumps(mj)][0]) if mj else 1) for mj, cv, _ in row["terms"]), Fr(0))
            if rhs != Fr(vals[1]):
                step_ok = False
        special_ok = True
        n0 = max(cl["max_case"] + 1, 0)
        for n in range(min(n0, len(a_seq["seq"]), len(cl["values"]))):
            tag, sv = cl["values"][n]
            if tag != "q" or Fr(sv) != Fr(a_seq["seq"][n][cl["index"]]):
                special_ok = False
        if init_ok and step_ok and special_ok and a_cf.get("agree"):
            n_chain += 1
            chk.count("chain:closed-form-proved-for-all-n")
        else:
            chk.count("chain:LINK-FAILED(" + ",".join(nm for nm, okk in (("init", init_ok), ("first-step", step_ok),
                                                                         ("special-cases", special_ok), ("cfinite", a_cf.get("agree"))) if not okk) + ")")
            if r["status"] == "agree":
                chk.violation(f"for-all-n chain broken for E({sysm['goal']}): init={init_ok} first-step={step_ok} special-cases={special_ok} "
                              f"general-solution={a_cf.get('agree')} ({a_cf.get('first_bad')})",
                              dict(pipeline.replay_blob(r), goal=sysm["goal"], closed_form=cl.get("str"), cfinite=a_cf,
                                   matrix=sysm["matrix"], init_vector=sysm["init_vector"]))
    chk.obligation("validator-chain:closed-forms-proved-for-all-n", lean_ok and (n_chain > 0 or not cmeta),
                   {"instances": n_chain, "of": len(cmeta)})
    n_agree = sum(1 for r in recs if r["status"] == "agree")
    n_mis = sum(1 for r in recs if r["status"] == "mismatch")
    chk.obligation("correspondence:end-to-end-moments", lean_ok and n_agree > 0 and
                   not any(r["status"] == "harness-error" for r in recs),
                   {"agree": n_agree, "mismatch": n_mis, "by_family": fam})
    chk.assumptions = ["values compared at n = 0..%d and one random rational parameter / initial-value point per case" % nmax,
                       "programs whose branch conditions depend on a continuous draw are outside the oracle"]
    return chk.finish(
        level="proof",
        rule="corpus + seeded generator (8 families); a case is non-trivial iff some goal's exact sequence is "
             "non-constant in n; distinct by source text",
        trusted_base=TRUSTED)


def replay(path):
    with open(os.path.join(ROOT, path) if not os.path.isabs(path) else path) as fh:
        blob = json.load(fh)
    case = pipeline.case_from_json(blob["case"])
    case["text"] = blob.get("text")
    recs = pipeline.analyze_cases([case], nmax=6, timeout=300)
    r = recs[0]
    print("status:", r["status"])
    for m in r["mismatches"][:10]:
        print("  ", {k: v for k, v in m.items() if k != "closed_form"})
    if r["status"] == "mismatch":
        print(f"VIOLATION property={PROP} replay={path}")
        return 1
    return 0
