"""C18 — loops within the documented restrictions are accepted and analysable.

Documented-class stream (README 'Loop Restrictions' only: finite condition/guard variables incl.
counters that wrap, flags set once, nested branches reassigning their own condition variables,
non-integer finite values, loop constants in conditions and goals; constant probabilities;
acyclic non-linear dependencies; everything initialised).  Liveness half: a refusal of such a program
is a violation unless attributed to a recorded finding.  Safety half: whatever is accepted must be
right — every goal over effective variables gets a closed form that equals the exact expectation
of the Lean reference semantics; refusals must be exceptions, never partial results."""
import json
import os
from fractions import Fraction as Fr

from .. import pipeline, hast as H, gen
from ..common import Check, lean_gate, ROOT, model_batch_parallel, rng
from ..oracle import case_text, polar_subs, moments_request
from ..pool import run_tasks
from ..findings import attribute
from ..theorems import THEOREMS as _T
from .c17 import with_declared_types

PROP = "C18"
THEOREMS = _T.get(PROP, [])


def run(tier):
    chk = Check(PROP, tier)
    lean_ok = lean_gate(chk, THEOREMS)
    quick = tier == "quick"
    n_gen = 110 if quick else 900
    nmax = 5
    r = rng(f"{PROP}-{tier}")
    cases = pipeline.load_corpus(PROP)
    fams = ["branchy", "guarded", "finite", "poly", "choice", "cont", "simult", "finite", "guarded"]
    for i in range(n_gen):
        c = gen.generate(r, fams[i % len(fams)], documented=True)
        c["id"] = f"doc-{i}"
        # 'variables initialised' is part of the documented class
        if c["uninit"]:
            continue
        cases.append(c)
    recs = pipeline.analyze_cases(cases, nmax=nmax, timeout=45 if quick else 150, progress=50) if lean_ok else []
    refused = []
    n_ok = 0
    for rec in recs:
        chk.evaluations += 1
        chk.count("status:" + rec["status"])
        for f in rec["case"].get("features", []):
            chk.count("feature:" + f)
        c = rec["case"]
        if rec["status"] == "agree":
            n_ok += 1
            res = rec["polar"]["result"]
            # every goal over effective variables must have produced a closed form
            eff = set(res.get("effective", []))
            for g in res["goals"]:
                if not g.get("ok") and all(v in eff for v, _ in g["mono"]):
                    refused.append((rec, g["error"], "solve"))
            # the generator keeps non-linear dependencies acyclic, so every variable has to be classified effective
            if res.get("defective"):
                chk.violation(f"documented-class loop has variables classified defective: {res['defective']}",
                              {"case": pipeline.case_to_json(c), "text": c["text_used"], "defective": res["defective"],
                               "effective": res.get("effective"),
                               "how": "normalize_program(parse(text)).defective_variables (unsolvable_analysis/solvability_checker.py)"})
            if pipeline.nontrivial_key(rec):
                chk.nontrivial.add(c["text_used"])
            chk.sample({"text": c["text_used"], "features": c.get("features")}, limit=3)
        elif rec["status"] == "mismatch":
            fid = attribute(PROP, rec)
            if fid:
                chk.known(fid[0], fid[1])
            else:
                m = rec["mismatches"][0]
                chk.violation(f"accepted but wrong: E({m['goal']}) at n={m['n']}: polar={m['polar']} exact={m['oracle']}",
                              pipeline.replay_blob(rec))
        elif rec["status"] in ("refused-parse", "refused-normalize"):
            refused.append((rec, rec["polar"]["result"]["error"], rec["status"]))
        elif rec["status"] == "refused-solve":
            res = rec["polar"]["result"]
            e = next((g["error"] for g in res["goals"] if not g.get("ok")), None)
            refused.append((rec, e, "refused-solve"))
        elif rec["status"] == "harness-error":
            chk.obligation("harness:task", False, rec.get("detail"))
    # in-memory repair for attribution: the same program with its finite types declared
    rep_cases = []
    for rec, e, stage in refused:
        cc = with_declared_types(rec["case"])
        cc = dict(cc)
        cc.pop("text", None)
        rep_cases.append(cc)
    rep = pipeline.analyze_cases(rep_cases, nmax=nmax, timeout=45 if quick else 150) if rep_cases else []
    # a repair run that times out (sympy on products of irrational and complex roots) is no verdict: retry it with the
    # first moments of the goal variables only
    retry = [i for i, rr in enumerate(rep) if rr["status"] == "refused-timeout"]
    if retry:
        simple = []
        for i in retry:
            cc = dict(rep_cases[i])
            vs = sorted({v for g in cc["goals"] for v, _ in g})
            cc["goals"] = [[(v, 1)] for v in vs]
            simple.append(cc)
        rep2 = pipeline.analyze_cases(simple, nmax=nmax, timeout=45 if quick else 150)
        for i, rr in zip(retry, rep2):
            chk.count("repair-retried-with-first-moments")
            rep[i] = rr
    # still timed out (large programs): the attribution then rests on the normalisation alone being accepted once the types are
    # declared (the analysis of declared-type programs is judged by the other cases of this stream and by C17)
    still = [i for i, rr in enumerate(rep) if rr["status"] == "refused-timeout"]
    norm_ok = {}
    if still:
        nouts = run_tasks([{"fn": "harness.tasks.analyze:analyze",
                            "args": {"text": case_text(rep_cases[i]), "goals": [], "subs": polar_subs(rep_cases[i]), "nmax": 0}}
                           for i in still], timeout=60 if quick else 150)
        for i, o in zip(still, nouts):
            norm_ok[i] = o["status"] == "ok" and bool(o["result"].get("accepted"))
            chk.count("repair-judged-by-normalisation-only")
    for ri, ((rec, e, stage), rr) in enumerate(zip(refused, rep)):
        c = rec["case"]
        arec = {"case": c, "error": e, "stage": stage, "repair_ok": rr["status"] == "agree" or norm_ok.get(ri, False)}
        fid = attribute(PROP, arec)
        if fid:
            chk.known(fid[0], fid[1])
            chk.count("attributed:" + fid[0])
        else:
            chk.violation(f"documented-class loop refused ({stage}): {e['etype']} in {e['func']}: {e['message'][:120]}",
                          {"case": pipeline.case_to_json(c), "text": c["text_used"], "stage": stage, "error": e,
                           "features": c.get("features"),
                           "with_declared_types": rr["status"],
                           "how": "Parser().parse_string(text) -> normalize_program -> RecBuilder/RecurrenceSolver for the goals"})
    chk.obligation("correspondence:accepted-results-are-exact", lean_ok and n_ok > 0 and
                   chk.counts.get("status:harness-error", 0) == 0, {"agree": n_ok})
    chk.assumptions = ["in-class membership is by construction of the generator (README restrictions), not decided by a model",
                       "time-outs are a third outcome, never a verdict"]
    return chk.finish(level="proof",
                      rule="documented-class generator stream; non-trivial = accepted program with a non-constant exact moment sequence",
                      trusted_base=["Lean kernel/compiler (reference semantics)", "generator implements the README restrictions"])


def replay(path):
    with open(os.path.join(ROOT, path) if not os.path.isabs(path) else path) as fh:
        blob = json.load(fh)
    case = pipeline.case_from_json(blob["case"])
    case["text"] = blob.get("text")
    recs = pipeline.analyze_cases([case], nmax=6, timeout=300)
    print("status:", recs[0]["status"])
    if recs[0]["polar"]["status"] == "ok":
        print(json.dumps(recs[0]["polar"]["result"].get("error"), indent=1))
    if recs[0]["status"] not in ("agree",):
        print(f"VIOLATION property={PROP} replay={path}")
        return 1
    return 0
