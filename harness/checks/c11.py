"""C11 — central moments, cumulants, tail bounds and expansions match the exact law.

Decision:
  * Lean theorems (PolarProofs/Stats.lean) about the hand-written model of utils/statistics.py and of
    the two tail-bound formulas of cli/actions/goals_action.py, for *every* finitely supported law;
  * (a) function level: `raw_moments_to_centrals` / `raw_moments_to_cumulants` on random rational and
    symbolic raw-moment vectors (order ≤ 10) versus the Lean model (op stats_convert), and on the raw
    moments of random finite laws versus the Lean *specification* (op stats_spec);
  * (b) end to end: generated discrete programs through the real goal handlers (CLI Namespace built by
    the real argparse, goals `ck(.)`, `kk(.)`, `P(. >= a) <= ?`, `P(. > a) >= ?`), closed forms
    evaluated at n = 0..N and compared with central moments / cumulants / tail probabilities of the exact
    law of the Lean reference semantics (op dist → ops stats_spec, tail_spec);
  * (c) expansions (a finite table test, not a proof): Gram–Charlier density integrates to 1 and
    reproduces the first k raw moments (exact integration against the Gaussian), Cornish–Fisher equals
    the published formula for ≤ 6 indeterminate cumulants; both also against the Lean model.
"""
import json
import os
import subprocess
from concurrent.futures import ThreadPoolExecutor
from fractions import Fraction as Fr

from .. import hast as H
from .. import pipeline
from ..common import Check, lean_gate, ROOT, model_batch, model_batch_parallel, rng
from ..findings import attribute
from ..oracle import case_text, polar_subs, lean_sigma0
from ..pool import run_tasks
from ..theorems import THEOREMS as _T

PROP = "C11"
THEOREMS = _T[PROP]
T = "harness.tasks.c11:"

TRUSTED = [
    "Lean 4.33 kernel; axioms propext, Classical.choice, Quot.sound only",
    "Mathlib: Finset sums, binomial theorem (add_pow), Cauchy-Schwarz (sum_sq_le_sum_mul_sum_of_sq_le_mul), PowerSeries.derivative",
    "compiled polar-model agrees with the kernel semantics of the same definitions",
    "harness: program generator + printer, sympy exact evaluation of Polar's closed forms at integer n, "
    "parsing of the printed `--at_n` lines",
    "expansions (part c): sympy polynomial arithmetic, Gaussian raw-moment recursion, the published "
    "Cornish-Fisher table as typed into harness/tasks/c11.py",
]

FAMILIES = ["finite", "choice", "branchy", "guarded", "poly"]


def fs(f):
    return H.fr_str(Fr(f))


def q_of(tagged):
    """('q', 'p/q') -> Fraction, otherwise None"""
    if isinstance(tagged, (list, tuple)) and len(tagged) == 2 and tagged[0] == "q":
        return Fr(tagged[1])
    return None


# ------------------------------------------------------------------------------------------------
# (a) function level
# ------------------------------------------------------------------------------------------------

def rand_rat(r, wide=False):
    den = r.choice([1, 1, 1, 2, 3, 4, 5, 7])
    return Fr(r.randint(-12 if wide else -6, 12 if wide else 6), den)


def rand_law(r, signed=False, zero_mean=False):
    k = r.randint(1, 6)
    vals = set()
    while len(vals) < k:
        vals.add(rand_rat(r))
    vals = sorted(vals)
    if zero_mean:
        vals = sorted(set(vals) | {-v for v in vals})
        half = {abs(v): r.randint(1, 5) for v in vals}
        ws = [Fr(half[abs(v)]) for v in vals]
    else:
        ws = [Fr(r.randint(1, 6)) for _ in vals]
        if signed and len(vals) >= 2:
            ws[r.randrange(len(ws))] *= -1
            if sum(ws) == 0:
                ws[0] += 1
    tot = sum(ws)
    return [(w / tot, v) for w, v in zip(ws, vals)]


SYM_TERMS = ["a", "b", "c", "a*b", "a**2", "b*c", "c**2", "a**2*b", "n", "n**2", "2**(-n)", "n*(1/3)**n", "(-1/2)**n",
             "a*n", "b*2**(-n)", "1"]


def rand_sym_vector(r):
    N = r.randint(1, 7)
    out = []
    for _ in range(N):
        terms = r.sample(SYM_TERMS, r.randint(1, 3))
        e = " + ".join(f"({fs(rand_rat(r))})*{t}" for t in terms)
        out.append(e)
    return out


SMALL_LAWS = [
    [(Fr(1), Fr(1))], [(Fr(1), Fr(2))],
    [(Fr(1, 2), Fr(0)), (Fr(1, 2), Fr(1))], [(Fr(1, 2), Fr(0)), (Fr(1, 2), Fr(2))],
    [(Fr(1, 2), Fr(-1)), (Fr(1, 2), Fr(1))], [(Fr(1, 3), Fr(0)), (Fr(2, 3), Fr(1))],
    [(Fr(1, 4), Fr(0)), (Fr(3, 4), Fr(1))], [(Fr(1, 3), Fr(-1)), (Fr(1, 3), Fr(0)), (Fr(1, 3), Fr(2))],
    [(Fr(1, 2), Fr(0)), (Fr(1, 4), Fr(1)), (Fr(1, 4), Fr(3))], [(Fr(1, 4), Fr(-2)), (Fr(1, 4), Fr(0)), (Fr(1, 2), Fr(3))],
]


def law_vs_spec(chk, res, s, lawj):
    """entries of the code's result that differ from the specification and are not a known finding"""
    out = []
    mean = Fr(s["moments"][0])
    for name, kind in (("centrals", "central"), ("cumulants", "cumulant")):
        for k, (cv, sv) in enumerate(zip(res[name], s[name]), start=1):
            c = q_of(cv)
            if c is not None and c == Fr(sv):
                continue
            rec = {"part": "a", "kind": kind, "order": k, "code": cv[1] if c is not None else str(cv),
                   "spec": sv, "mean": fs(mean), "law": lawj, "moments": s["moments"][:max(k, 1)],
                   "how": f"raw_moments_to_{name}({{i: m_i}}) with m_i = E X^i of `law` (list of [prob, value]); "
                          f"entry {k} must equal the {kind} moment/cumulant of the law (polar-model op=stats_spec)"}
            fid = attribute(PROP, rec)
            if fid:
                chk.known(fid[0], fid[1])
                chk.count("known:" + fid[0])
            else:
                out.append(rec)
    return out


def report_law_failures(chk, failures):
    """minimise over a table of small laws, then report (at most) the minimal and the first original failure"""
    chk.count("a:law-entries-differing-from-spec", len(failures))
    spec = model_batch([{"op": "stats_spec", "law": [[fs(p), fs(v)] for p, v in d], "kmax": 10} for d in SMALL_LAWS])
    outs = run_tasks([{"fn": T + "convert", "args": {"moments": s["moments"]}} for s in spec], timeout=60)
    small = []
    for d, s, o in zip(SMALL_LAWS, spec, outs):
        if o["status"] == "ok" and s.get("ok"):
            small += law_vs_spec(chk, o["result"], s, [[fs(p), fs(v)] for p, v in d])
    small.sort(key=lambda f: (f["order"], len(f["law"])))
    nonneg = [f for f in failures if all(Fr(p) >= 0 for p, _ in f["law"])]
    first = (nonneg or failures)[0]
    for rec in ([dict(small[0], minimised=True)] if small else []) + [first]:
        chk.violation(f"{rec['kind']} of order {rec['order']} of the finite law {rec['law']}: code={rec['code']} "
                      f"exact={rec['spec']}", rec)


def part_a(chk, quick, r):
    n_vec = 120 if quick else 1200
    n_law = 120 if quick else 1200
    n_sym = 40 if quick else 300
    vectors = []
    for i in range(n_vec):
        N = r.randint(1, 10)
        ms = [rand_rat(r, wide=True) for _ in range(N)]
        if i % 17 == 0:
            ms[0] = Fr(0)
        vectors.append(ms)
    laws = [rand_law(r, signed=(i % 5 == 4), zero_mean=(i % 7 == 3)) for i in range(n_law)]
    orders = [r.randint(1, 10) for _ in laws]
    spec = model_batch_parallel([{"op": "stats_spec", "law": [[fs(p), fs(v)] for p, v in d], "kmax": N}
                                 for d, N in zip(laws, orders)])
    law_ok = all(s.get("ok") for s in spec)
    chk.obligation("model:stats_spec-answers", law_ok, None if law_ok else [s for s in spec if not s.get("ok")][:2])
    if not law_ok:
        return
    syms = [rand_sym_vector(r) for _ in range(n_sym)]
    points = [[{"a": fs(rand_rat(r)), "b": fs(rand_rat(r)), "c": fs(rand_rat(r)), "n": str(r.randint(0, 5))}
               for _ in range(3)] for _ in syms]
    flav = ["sympy", "symengine", "reversed"]
    tasks = ([{"fn": T + "convert", "args": {"moments": [fs(m) for m in ms], "flavour": flav[i % 3]}}
              for i, ms in enumerate(vectors)]
             + [{"fn": T + "convert", "args": {"moments": s["moments"], "flavour": flav[i % 3]}}
                for i, s in enumerate(spec)]
             + [{"fn": T + "convert_symbolic", "args": {"exprs": e, "points": p}} for e, p in zip(syms, points)])
    out = run_tasks(tasks, timeout=60)
    o_vec, o_law, o_sym = out[:n_vec], out[n_vec:n_vec + n_law], out[n_vec + n_law:]

    # --- the Lean model on every numeric vector
    vec_inputs = [[fs(m) for m in ms] for ms in vectors] + [s["moments"] for s in spec]
    sym_inputs = []
    for o in o_sym:
        if o["status"] == "ok":
            for pt in o["result"]["points"]:
                vals = [q_of(m) for m in pt["moments"]]
                sym_inputs.append([fs(v) for v in vals] if all(v is not None for v in vals) else None)
    reqs = [{"op": "stats_convert", "moments": v} for v in vec_inputs + [s for s in sym_inputs if s is not None]]
    model = model_batch_parallel(reqs)
    m_vec, m_law = model[:n_vec], model[n_vec:n_vec + n_law]
    m_sym = iter(model[n_vec + n_law:])

    model_diffs = []          # code vs model (correspondence)
    n_cmp = 0

    def cmp_model(code, mod, where, inp):
        nonlocal n_cmp
        if not mod.get("ok"):
            model_diffs.append({"where": where, "input": inp, "error": mod.get("error")})
            return
        for name in ("centrals", "cumulants"):
            for k, (cv, mv) in enumerate(zip(code[name], mod[name]), start=1):
                n_cmp += 1
                c = q_of(cv)
                if c is None or c != Fr(mv):
                    model_diffs.append({"where": where, "input": inp, "fn": name, "order": k,
                                        "code": cv, "model": mv})

    harness_errors = 0
    for i, (o, m) in enumerate(zip(o_vec, m_vec)):
        chk.evaluations += 1
        if o["status"] != "ok":
            harness_errors += o["status"] != "timeout"
            chk.count("a:vector:" + o["status"])
            continue
        chk.count("a:vector:ok")
        res = o["result"]
        N = len(vectors[i])
        if res["central_keys"] != list(range(1, N + 1)) or res["cumulant_keys"] != list(range(1, N + 1)):
            model_diffs.append({"where": "vector", "input": vec_inputs[i], "keys": [res["central_keys"], res["cumulant_keys"]]})
        cmp_model(res, m, "vector", vec_inputs[i])
        if N >= 3:
            chk.nontrivial.add("vec:" + ",".join(vec_inputs[i]))
    # --- finite laws: code versus the specification
    law_failures = []
    for i, (o, m, s, d) in enumerate(zip(o_law, m_law, spec, laws)):
        chk.evaluations += 1
        if o["status"] != "ok":
            harness_errors += o["status"] != "timeout"
            chk.count("a:law:" + o["status"])
            continue
        chk.count("a:law:ok")
        res = o["result"]
        cmp_model(res, m, "law", s["moments"])
        lawj = [[fs(p), fs(v)] for p, v in d]
        mean = Fr(s["moments"][0])
        law_failures += law_vs_spec(chk, res, s, lawj)
        if orders[i] >= 3 and len(d) >= 2:
            chk.nontrivial.add("law:" + json.dumps(lawj))
        if i < 2:
            chk.sample({"part": "a", "law": lawj, "spec_centrals": s["centrals"][:4], "spec_cumulants": s["cumulants"][:4],
                        "code_centrals": [c[1] for c in res["centrals"][:4]]}, limit=6)
    if law_failures:
        report_law_failures(chk, law_failures)
    # --- symbolic vectors
    for e, p, o in zip(syms, points, o_sym):
        chk.evaluations += 1
        if o["status"] != "ok":
            harness_errors += o["status"] != "timeout"
            chk.count("a:symbolic:" + o["status"])
            if o["status"] == "error":
                chk.count("a:symbolic:error:" + o.get("etype", "?"))
            continue
        chk.count("a:symbolic:ok")
        for pt, ptin in zip(o["result"]["points"], p):
            vals = [q_of(m) for m in pt["moments"]]
            if any(v is None for v in vals):
                chk.count("a:symbolic:point-not-rational")
                continue
            cmp_model(pt, next(m_sym), "symbolic", {"exprs": e, "point": ptin})
        chk.nontrivial.add("sym:" + "|".join(e))
    chk.obligation("correspondence:raw_moments_to_centrals/cumulants==model", not model_diffs and n_cmp > 0,
                   {"compared_entries": n_cmp, "diffs": model_diffs[:3]})
    chk.obligation("harness:part-a-no-errors", harness_errors == 0, {"errors": harness_errors})
    if model_diffs and not chk.violations:
        chk.violation("raw_moments_to_centrals/cumulants differs from the Lean model on " + str(model_diffs[0])[:300],
                      {"part": "a-model", "diff": model_diffs[0]}, no_input=True)

    # --- special polynomials
    sp_in = []
    for n in range(0, 11):
        xs = [fs(rand_rat(r)) for _ in range(n)]
        sp_in.append((n, xs))
    sp_code = run_tasks([{"fn": T + "special_polys", "args": {"n": n, "xs": xs}} for n, xs in sp_in], timeout=60)
    sp_model = model_batch([{"op": "special_polys", "n": n, "xs": xs} for n, xs in sp_in])
    bad = []
    for (n, xs), c, m in zip(sp_in, sp_code, sp_model):
        chk.evaluations += 1
        if c["status"] != "ok" or not m.get("ok"):
            bad.append({"n": n, "status": c["status"], "model": m.get("error")})
            continue
        ch = [q_of(v) for v in c["result"]["hermite"]]
        while ch and ch[-1] == 0:
            ch.pop()
        if ch != [Fr(v) for v in m["hermite"]] or m["hermite"] != m["hermite_spec"]:
            bad.append({"n": n, "hermite_code": c["result"]["hermite"], "model": m["hermite"], "spec": m["hermite_spec"]})
        if q_of(c["result"]["bell"]) != Fr(m["bell"]):
            bad.append({"n": n, "xs": xs, "bell_code": c["result"]["bell"], "model": m["bell"]})
    chk.obligation("correspondence:prob_hermite_poly/ce_bell_poly==model (n<=10)", not bad, bad[:3] or None)


# ------------------------------------------------------------------------------------------------
# (b) end to end
# ------------------------------------------------------------------------------------------------

def mono_str(gm):
    return "*".join(x if k == 1 else f"{x}**{k}" for x, k in gm)


def _dist_requests(case, vars_, nmax):
    return [{"op": "dist", "program": H.program_json(case["program"]), "sigma0": lean_sigma0(case),
             "vars": vars_, "n": n} for n in range(nmax + 1)]


def _model_safe(reqs, timeout):
    try:
        return model_batch(reqs, timeout=timeout)
    except subprocess.TimeoutExpired:
        return [{"ok": False, "error": "model-timeout"} for _ in reqs]


def mono_law(dist, vars_, gm, power=1):
    """law of the monomial gm**power from a joint dist [[w, [v...]], ...]"""
    out = []
    for w, vs in dist:
        val = Fr(1)
        for x, k in gm:
            val *= Fr(vs[vars_.index(x)]) ** k
        out.append((Fr(w), val ** power))
    return out


def choose_goal_mono(case, r):
    assigned = sorted(H.stmts_assigned(case["program"]["body"]))
    nums = [x for x in ("x", "y", "z") if x in assigned]
    fins = [f for f in ("f", "g", "h") if f in assigned]
    if not nums and not fins:
        return None
    k = r.random()
    if len(nums) + len(fins) >= 2 and k < 0.2:
        a, b = r.sample(nums + fins, 2)
        return sorted([(a, 1), (b, 1)])
    if nums and k < 0.3:
        return [(r.choice(nums), 2)]
    if nums and (k < 0.9 or not fins):
        return [(r.choice(nums), 1)]
    return [(r.choice(fins), 1)]


def e2e_prepare(cases, nmax, r, chk=None):
    """exact laws from the Lean reference semantics, then goal strings with thresholds chosen so that the
    stated assumptions hold (where possible)"""
    items = []
    prelim = []
    for c in cases:
        gm = choose_goal_mono(c, r)
        seed_r = r.random()
        prelim.append((c, gm, seed_r))
    with ThreadPoolExecutor(max_workers=12) as ex:
        dists = list(ex.map(lambda t: _model_safe(_dist_requests(t[0], [x for x, _ in t[1]], nmax), 90)
                            if t[1] else None, prelim))
    for (c, gm, sr), ds in zip(prelim, dists):
        if gm is None:
            if chk:
                chk.count("b:skipped:no-assigned-variable")
            continue
        if not all(d.get("ok") for d in ds):
            if chk:
                err = next(d.get("error", "?") for d in ds if not d.get("ok"))
                chk.count("b:skipped:oracle:" + str(err).split(":")[0][:30])
            continue
        import random
        rr = random.Random(sr)
        vars_ = [x for x, _ in gm]
        deg = sum(k for _, k in gm)
        laws_g = [mono_law(d["dist"], vars_, gm) for d in ds]
        allv = [v for law in laws_g for _, v in law]
        item = {"case": c, "gm": gm, "vars": vars_, "text": case_text(c), "subs": polar_subs(c), "nmax": nmax,
                "laws_g": laws_g}
        orders_c = [1, 2, 3] + ([4] if deg == 1 and rr.random() < 0.35 else [])
        orders_k = [1, 2, 3] + ([4] if deg == 1 else []) + ([5] if deg == 1 and rr.random() < 0.15 else [])
        ms = mono_str(gm)
        goals = [f"c{k}({ms})" for k in orders_c] + [f"k{k}({ms})" for k in orders_k]
        # tail monomial: gm itself if non-negative at every n, else its square (single variables only)
        tp = 1 if min(allv) >= 0 else (2 if deg == 1 else None)
        item["tail_power"] = tp
        if tp:
            laws_t = [mono_law(d["dist"], vars_, gm, tp) for d in ds]
            tv = sorted({v for law in laws_t for _, v in law})
            pos = [v for v in tv if v > 0]
            k = rr.random()
            if not pos:
                a_up = Fr(1)
            elif k < 0.55:
                a_up = rr.choice(pos)
            elif k < 0.8:
                a_up = rr.choice(pos) * rr.choice([Fr(1, 2), Fr(3, 4), Fr(2, 3)])
            else:
                a_up = rr.choice([Fr(1, 2), Fr(1, 3), Fr(1, 4), Fr(3, 2)])
            a_lo = tv[0] - (rr.choice([Fr(0), Fr(0), Fr(1), Fr(1, 2), Fr(2)]))
            tms = ms if tp == 1 else f"{ms}**2" if len(gm) == 1 and gm[0][1] == 1 else None
            if tms is None:
                tms = f"({ms})**2"
            item.update({"laws_t": laws_t, "a_up": a_up, "a_lo": a_lo, "tail_mono": tms,
                         "tbm": rr.choice([1, 2, 2, 3]) if tp * deg == 1 else rr.choice([1, 2])})
            goals += [f"P({tms} >= {fs(a_up)}) <= ?", f"P({tms} > {fs(a_lo)}) >= ?"]
        else:
            item["tbm"] = 2
        item["goals"] = goals
        item["at_n"] = rr.randint(0, nmax)
        items.append(item)
    return items


def e2e_truth(items):
    """Lean specification values for every item and n"""
    reqs, index = [], []
    for it in items:
        for n, law in enumerate(it["laws_g"]):
            index.append((it, "g", n))
            reqs.append({"op": "stats_spec", "law": [[fs(p), fs(v)] for p, v in law], "kmax": 5})
        if it.get("tail_power"):
            for n, law in enumerate(it["laws_t"]):
                lawj = [[fs(p), fs(v)] for p, v in law]
                index.append((it, "tm", n))
                reqs.append({"op": "stats_spec", "law": lawj, "kmax": max(2, it["tbm"])})
                index.append((it, "up", n))
                reqs.append({"op": "tail_spec", "law": lawj, "a": fs(it["a_up"])})
                index.append((it, "lo", n))
                reqs.append({"op": "tail_spec", "law": lawj, "a": fs(it["a_lo"])})
    ans = model_batch_parallel(reqs)
    for (it, key, n), a in zip(index, ans):
        it.setdefault("truth", {}).setdefault(key, {})[n] = a
    # model bounds from the specification moments
    reqs, index = [], []
    for it in items:
        if not it.get("tail_power"):
            continue
        for n in range(len(it["laws_t"])):
            sm = it["truth"]["tm"][n]
            if not sm.get("ok"):
                continue
            index.append((it, n))
            reqs.append({"op": "tail_model", "moments": sm["moments"][:it["tbm"]], "a": fs(it["a_up"])})
            index.append((it, -n - 1))
            reqs.append({"op": "tail_model", "moments": sm["moments"][:2], "a": fs(it["a_lo"])})
    ans = model_batch_parallel(reqs)
    for (it, n), a in zip(index, ans):
        if n >= 0:
            it["truth"].setdefault("model_up", {})[n] = a
        else:
            it["truth"].setdefault("model_lo", {})[-n - 1] = a


def e2e_run(items, timeout):
    tasks = [{"fn": T + "goals", "args": {"text": it["text"], "goals": it["goals"], "subs": it["subs"],
                                          "nmax": it["nmax"], "at_n": it["at_n"], "tail_bound_moments": it["tbm"]}}
             for it in items]
    return run_tasks(tasks, timeout=timeout, progress=20)


def e2e_judge(it, out):
    """returns (status, findings, model_diffs); a finding is a disagreement of the code with the exact law"""
    if out["status"] == "timeout":
        return "refused-timeout", [], []
    if out["status"] != "ok":
        return "harness-error", [], []
    res = out["result"]
    if not res["accepted"]:
        return "refused-" + res["error"]["stage"], [], []
    tr = it["truth"]
    findings, mdiffs = [], []
    base = {"part": "b", "text": it["text"], "goals": it["goals"], "subs": it["subs"], "at_n": it["at_n"],
            "tbm": it["tbm"], "program": H.program_json(it["case"]["program"]), "sigma0": lean_sigma0(it["case"]),
            "vars": it["vars"], "gm": [[x, k] for x, k in it["gm"]], "tail_power": it.get("tail_power"),
            "a_up": fs(it["a_up"]) if it.get("tail_power") else None,
            "a_lo": fs(it["a_lo"]) if it.get("tail_power") else None,
            "how": "feed `text` to Polar (Parser -> normalize_program -> GoalsAction handlers with the goal strings), "
                   "evaluate the returned closed form at n (symbols per `subs`); `spec` is computed from the exact law "
                   "of the monomial after n iterations (polar-model op=dist, then op=stats_spec / tail_spec)"}
    n_ok = 0
    printed = {p["head"]: p for p in res.get("printed", [])}
    ms = mono_str(it["gm"])
    for g in res["goals"]:
        if not g.get("ok"):
            continue
        kind = g["kind"]
        if kind in ("CENTRAL", "CUMULANT"):
            key = "centrals" if kind == "CENTRAL" else "cumulants"
            k = g["order"]
            for n, v in enumerate(g["values"]):
                sp = tr["g"][n]
                spec = Fr(sp[key][k - 1])
                c = q_of(v)
                n_ok += 1
                if c is None or c != spec:
                    findings.append(dict(base, kind=key[:-1], order=k, n=n, goal=g["goal"], code=v[1] if c is not None else str(v),
                                         spec=fs(spec), mean=sp["moments"][0]))
            # the printed --at_n line
            head = f"{g['goal'][:-1]} | n={it['at_n']})"
            pl = printed.get(head)
            if pl is not None:
                it["printed_matched"] = it.get("printed_matched", 0) + 1
                spec = Fr(tr["g"][it["at_n"]][key][k - 1])
                c = q_of(pl["value"])
                if c is None or c != spec:
                    findings.append(dict(base, kind=key[:-1], order=k, n=it["at_n"], goal=g["goal"] + " [printed --at_n]",
                                         code=pl["value"][1], spec=fs(spec), mean=tr["g"][it["at_n"]]["moments"][0]))
        elif kind == "TAIL_BOUND_UPPER":
            bounds = g["bounds"]
            if len(bounds) != it["tbm"]:
                mdiffs.append({"what": "number of listed bounds", "code": len(bounds), "model": it["tbm"]})
            for n in range(it["nmax"] + 1):
                law = it["laws_t"][n]
                nonneg = all(v >= 0 for p, v in law if p != 0)
                p_ge = Fr(tr["up"][n]["ge"])
                mod = tr.get("model_up", {}).get(n, {})
                for k, b in enumerate(bounds, start=1):
                    c = q_of(b[n])
                    n_ok += 1
                    if mod.get("ok") and k <= len(mod["upper"]) and (c is None or c != Fr(mod["upper"][k - 1])):
                        mdiffs.append({"what": f"upper bound ({k}) at n={n}", "code": b[n], "model": mod["upper"][k - 1],
                                       "text": it["text"], "goal": g["goal"]})
                    if nonneg and (c is None or c < p_ge):
                        findings.append(dict(base, kind="upper", order=k, n=n, goal=g["goal"],
                                             code=b[n][1], spec=fs(p_ge)))
            pl = _find_printed(printed, "<=")
            if pl is not None:
                it["printed_matched"] = it.get("printed_matched", 0) + 1
                n = it["at_n"]
                c = q_of(pl["value"])
                mod = tr.get("model_up", {}).get(n, {})
                if mod.get("ok") and (c is None or c != Fr(mod["upper_min"])):
                    mdiffs.append({"what": f"printed minimum at n={n}", "code": pl["value"], "model": mod["upper_min"],
                                   "text": it["text"], "goal": g["goal"]})
                law = it["laws_t"][n]
                if all(v >= 0 for p, v in law if p != 0) and (c is None or c < Fr(tr["up"][n]["ge"])):
                    findings.append(dict(base, kind="upper-printed-min", order=0, n=n, goal=g["goal"],
                                         code=pl["value"][1], spec=tr["up"][n]["ge"]))
        elif kind == "TAIL_BOUND_LOWER":
            if len(g["bounds"]) != 1:
                mdiffs.append({"what": "number of lower bounds", "code": len(g["bounds"])})
                continue
            b = g["bounds"][0]
            for n in range(it["nmax"] + 1):
                law = it["laws_t"][n]
                holds = all(v >= it["a_lo"] for p, v in law if p != 0)
                p_gt = Fr(tr["lo"][n]["gt"])
                mod = tr.get("model_lo", {}).get(n, {})
                c = q_of(b[n])
                n_ok += 1
                if mod.get("ok") and Fr(mod["lower_den"]) == 0:
                    # M = a almost surely: 0/0; the code prints nan (no bound claimed)
                    it.setdefault("notes", []).append("lower-degenerate-0/0:" + str(b[n][0]))
                    if c is not None and c > p_gt:
                        findings.append(dict(base, kind="lower-degenerate", order=0, n=n, goal=g["goal"], code=b[n][1],
                                             spec=fs(p_gt), lower_den="0",
                                             law_at_n=[[fs(p), fs(v)] for p, v in law if p != 0]))
                    continue
                if mod.get("ok") and (c is None or c != Fr(mod["lower"])):
                    mdiffs.append({"what": f"lower bound at n={n}", "code": b[n], "model": mod["lower"],
                                   "text": it["text"], "goal": g["goal"]})
                if holds and (c is None or c > p_gt):
                    findings.append(dict(base, kind="lower", order=0, n=n, goal=g["goal"], code=b[n][1], spec=fs(p_gt)))
            pl = _find_printed(printed, ">=")
            if pl is not None:
                it["printed_matched"] = it.get("printed_matched", 0) + 1
                n = it["at_n"]
                mod = tr.get("model_lo", {}).get(n, {})
                c = q_of(pl["value"])
                if mod.get("ok") and Fr(mod["lower_den"]) != 0 and (c is None or c != Fr(mod["lower"])):
                    mdiffs.append({"what": f"printed lower bound at n={n}", "code": pl["value"], "model": mod["lower"],
                                   "text": it["text"], "goal": g["goal"]})
    if n_ok == 0:
        return "refused-solve", findings, mdiffs
    return ("mismatch" if findings else "agree"), findings, mdiffs


def _find_printed(printed, rel):
    for p in printed.values():
        if p["rel"] == rel and p["head"].startswith("P("):
            return p
    return None


def part_b(chk, quick, tag):
    n_gen = 45 if quick else 500
    nmax = 4
    timeout = 50 if quick else 120
    r = rng(tag + "-b")
    cases = pipeline.generate_cases(n_gen, tag + "-gen", families=FAMILIES)
    items = e2e_prepare(cases, nmax, r, chk)
    e2e_truth(items)
    outs = e2e_run(items, timeout)
    fam = {}
    all_mdiffs = []
    n_agree = n_harness_err = n_viol = 0
    for it, out in zip(items, outs):
        chk.evaluations += 1
        status, findings, mdiffs = e2e_judge(it, out)
        unattributed = []
        for fd in findings:
            fid = attribute(PROP, fd)
            if fid:
                chk.known(fid[0], fid[1])
                chk.count("known:" + fid[0])
            else:
                unattributed.append(fd)
        if status == "mismatch" and not unattributed:
            status = "agree-except-known-finding"
        f = it["case"].get("family", "?")
        fam.setdefault(f, {}).setdefault(status, 0)
        fam[f][status] += 1
        chk.count("b:status:" + status)
        for note in it.get("notes", []):
            chk.count("b:" + note)
        chk.count("b:printed-at_n-lines-compared", it.get("printed_matched", 0))
        if status == "harness-error":
            n_harness_err += 1
            chk.count("b:harness-error:" + out.get("etype", out["status"]))
            continue
        if out["status"] == "ok" and out["result"].get("accepted"):
            for g in out["result"]["goals"]:
                chk.count(("b:goal-ok:" if g.get("ok") else "b:goal-failed:") + g["kind"])
            if not out["result"].get("printed_ok", True):
                chk.count("b:handle_all_goals-raised")
        all_mdiffs += mdiffs
        if unattributed:
            fd = unattributed[0]
            chk.count("b:cases-violating")
            n_viol += 1
            if n_viol <= 4:
                chk.violation(f"{fd['goal']} at n={fd['n']}: polar={fd['code']} exact={fd['spec']} ({fd['kind']})",
                              dict(fd, other_findings=len(unattributed) - 1))
        elif status in ("agree", "agree-except-known-finding"):
            n_agree += 1
            seqs = [tuple(sorted((fs(p), fs(v)) for p, v in law if p != 0)) for law in it["laws_g"]]
            if len(set(seqs)) > 1:
                chk.nontrivial.add(it["text"] + "|" + mono_str(it["gm"]))
            chk.sample({"part": "b", "text": it["text"], "goals": it["goals"],
                        "exact_law_at_n2": [[fs(p), fs(v)] for p, v in it["laws_g"][2]],
                        "spec_centrals_at_n2": it["truth"]["g"][2]["centrals"][:3]}, limit=5)
    chk.obligation("correspondence:end-to-end-goal-handlers", n_agree > 0 and n_harness_err == 0,
                   {"agree_or_known_only": n_agree, "by_family": fam, "harness_errors": n_harness_err})
    chk.obligation("correspondence:tail-bounds==model(markovBounds, markovMin, secondMomentLower)", not all_mdiffs,
                   all_mdiffs[:3] or None)
    if all_mdiffs and not chk.violations:
        chk.violation("tail bounds differ from the Lean model: " + str(all_mdiffs[0])[:300],
                      {"part": "b-model", "diff": all_mdiffs[0]}, no_input=True)


# ------------------------------------------------------------------------------------------------
# (c) expansions — finite table test
# ------------------------------------------------------------------------------------------------

def cumulants_to_moments(ks, kmax):
    """m_n = Σ_{j=1}^{n} C(n-1, j-1) κ_j m_{n-j} (κ_j = 0 beyond the given ones)"""
    from math import comb
    m = [Fr(1)]
    for n in range(1, kmax + 1):
        m.append(sum(comb(n - 1, j - 1) * (ks[j - 1] if j <= len(ks) else 0) * m[n - j] for j in range(1, n + 1)))
    return m


def rand_cumulants(r, N, square_k2=False):
    ks = [rand_rat(r) for _ in range(N)]
    if N >= 2:
        if square_k2:
            s = Fr(r.randint(1, 4), r.choice([1, 1, 2, 3]))
            ks[1] = s * s
        else:
            ks[1] = Fr(r.randint(1, 9), r.choice([1, 2, 3, 4]))
    return ks


def part_c(chk, quick, r):
    n_gc = 30 if quick else 200
    gc_in = []
    for i in range(n_gc):
        N = 1 + i % 6
        gc_in.append(rand_cumulants(r, N, square_k2=(i % 2 == 0)))
    tasks = [{"fn": T + "gram_charlier", "args": {"cumulants": [fs(k) for k in ks], "kmax": len(ks),
                                                  "integrate": (i < (6 if quick else 30))}, "timeout": 90}
             for i, ks in enumerate(gc_in)]
    cf_sym = [{"fn": T + "cornish_fisher_symbolic", "args": {"N": N}, "timeout": 120} for N in range(2, 7)]
    n_cf = 20 if quick else 120
    cf_in = []
    for i in range(n_cf):
        N = 2 + i % 6               # 2..7 cumulants (7: beyond the published table, model only)
        ks = rand_cumulants(r, N, square_k2=True)
        sig = Fr(int(round(float(ks[1]) ** 0.5 * 1000)), 1000)
        # exact rational square root of ks[1]
        from math import isqrt
        sig = Fr(isqrt(ks[1].numerator), isqrt(ks[1].denominator))
        cf_in.append((sig, ks))
    cf_num = [{"fn": T + "cornish_fisher_numeric", "args": {"sigma": fs(s), "cumulants": [fs(k) for k in ks]},
               "timeout": 120} for s, ks in cf_in]
    outs = run_tasks(tasks + cf_sym + cf_num, timeout=120)
    o_gc, o_sym, o_num = outs[:n_gc], outs[n_gc:n_gc + 5], outs[n_gc + 5:]
    gc_model = model_batch_parallel([{"op": "gram_charlier", "cumulants": [fs(k) for k in ks], "kmax": len(ks)}
                                     for ks in gc_in])
    rt = model_batch_parallel([{"op": "stats_convert", "moments": [fs(m) for m in cumulants_to_moments(ks, len(ks))[1:]]}
                               for ks in gc_in])
    bad, n_ok, n_to, n_gcv = [], 0, 0, 0
    for ks, o, gm, rtm in zip(gc_in, o_gc, gc_model, rt):
        chk.evaluations += 1
        ksj = [fs(k) for k in ks]
        if o["status"] == "timeout":
            n_to += 1
            continue
        if o["status"] != "ok":
            bad.append({"cumulants": ksj, "status": o["status"], "etype": o.get("etype"), "msg": o.get("message")})
            continue
        res = o["result"]
        exp = cumulants_to_moments(ks, len(ks))
        # expected moments: cross-checked through the proven model (rawToCumulant ∘ moments = cumulants)
        if not rtm.get("ok") or [Fr(c) for c in rtm["cumulants"]] != ks:
            bad.append({"cumulants": ksj, "harness": "cumulants_to_moments does not invert the Lean model"})
            continue
        if not res.get("shape_ok"):
            bad.append({"cumulants": ksj, "shape": res})
            continue
        ints = [q_of(v) for v in res["integrals"]]
        if ints != exp:
            rec = {"part": "c-gc", "cumulants": ksj, "integrals": res["integrals"], "expected": [fs(e) for e in exp],
                   "how": "∫ x^k · GramCharlierExpansion(cumulants)() dx for k = 0..len(cumulants) must be 1, m_1, …, m_k "
                          "(raw moments belonging to the cumulants)"}
            n_gcv += 1
            if n_gcv <= 2:
                chk.violation(f"Gram-Charlier density for cumulants {ksj}: integrals {[v[1] for v in res['integrals']]} "
                              f"expected {rec['expected']}", rec)
            continue
        if "direct" in res and [q_of(v) for v in res["direct"]] != exp[:len(res["direct"])]:
            bad.append({"cumulants": ksj, "direct-integration": res["direct"], "expected": [fs(e) for e in exp]})
            continue
        if gm.get("ok"):
            py = [q_of(v) for v in res["poly_y"]]
            while py and py[-1] == 0:
                py.pop()
            if py != [Fr(v) for v in gm["poly"]] or [Fr(v) for v in gm["raw"]] != exp:
                bad.append({"cumulants": ksj, "poly_code": res["poly_y"], "poly_model": gm["poly"], "raw_model": gm["raw"]})
                continue
        else:
            bad.append({"cumulants": ksj, "model": gm.get("error")})
            continue
        n_ok += 1
        if len(ks) >= 3:
            chk.nontrivial.add("gc:" + ",".join(ksj))
    chk.count("c:gram-charlier:ok", n_ok)
    chk.count("c:gram-charlier:timeout", n_to)
    chk.obligation("table:gram-charlier integrates to 1, reproduces m_1..m_k, == model (k<=6, rational cumulants)",
                   not bad and n_ok > 0, {"ok": n_ok, "timeouts": n_to, "bad": bad[:3]})
    if bad and not chk.violations:
        chk.violation("Gram-Charlier table test broke: " + str(bad[0])[:300], {"part": "c-gc", "detail": bad[0]},
                      no_input=True)
    # Cornish–Fisher
    bad = []
    n_ok = n_cfv = 0
    for N, o in zip(range(2, 7), o_sym):
        chk.evaluations += 1
        if o["status"] == "timeout":
            chk.count("c:cornish-fisher-symbolic:timeout")
            continue
        if o["status"] != "ok" or not o["result"].get("shape_ok"):
            bad.append({"N": N, "status": o["status"], "detail": o.get("message") or o.get("result")})
            continue
        if not o["result"]["equal"]:
            rec = {"part": "c-cf", "N": N, "diff": o["result"]["diff"],
                   "how": "CornishFisherExpansion({1:k1,…,N:kN})() with z = sqrt(2)*erfinv(2p-1) undone, minus the "
                          "published expansion (harness/tasks/c11.py:cornish_fisher_textbook), must simplify to 0"}
            chk.violation(f"Cornish-Fisher with {N} symbolic cumulants differs from the published formula: {o['result']['diff'][:200]}", rec)
            continue
        n_ok += 1
        chk.nontrivial.add(f"cf-symbolic:{N}")
    cf_model = model_batch_parallel([{"op": "cornish_fisher", "sigma": fs(s), "cumulants": [fs(k) for k in ks]}
                                     for s, ks in cf_in])
    for (s, ks), o, m in zip(cf_in, o_num, cf_model):
        chk.evaluations += 1
        ksj = [fs(k) for k in ks]
        if o["status"] == "timeout":
            chk.count("c:cornish-fisher-numeric:timeout")
            continue
        if o["status"] != "ok" or not o["result"].get("shape_ok") or not m.get("ok"):
            bad.append({"cumulants": ksj, "status": o["status"], "detail": o.get("message") or o.get("result"), "model": m.get("error")})
            continue
        code = [q_of(v) for v in o["result"]["coeffs"]]
        while code and code[-1] == 0:
            code.pop()
        if "textbook" in o["result"]:
            tb = [q_of(v) for v in o["result"]["textbook"]]
            while tb and tb[-1] == 0:
                tb.pop()
            if code != tb:
                n_cfv += 1
                if n_cfv > 2:
                    continue
                chk.violation(f"Cornish-Fisher for cumulants {ksj}: coefficients {o['result']['coeffs']} published {o['result']['textbook']}",
                              {"part": "c-cf-numeric", "cumulants": ksj, "sigma": fs(s), "code": o["result"]["coeffs"],
                               "textbook": o["result"]["textbook"]})
                continue
        if code != [Fr(v) for v in m["coeffs"]]:
            bad.append({"cumulants": ksj, "code": o["result"]["coeffs"], "model": m["coeffs"]})
            continue
        n_ok += 1
        if len(ks) >= 4:
            chk.nontrivial.add("cf:" + ",".join(ksj))
    chk.count("c:cornish-fisher:ok", n_ok)
    chk.obligation("table:cornish-fisher == published formula (<=6 symbolic cumulants) and == model (<=7 rational)",
                   not bad and n_ok > 0, {"ok": n_ok, "bad": bad[:3]})
    if bad and not chk.violations:
        chk.violation("Cornish-Fisher table test broke: " + str(bad[0])[:300], {"part": "c-cf", "detail": bad[0]},
                      no_input=True)


# ------------------------------------------------------------------------------------------------

def run(tier):
    chk = Check(PROP, tier)
    lean_ok = lean_gate(chk, THEOREMS)
    quick = tier == "quick"
    tag = f"{PROP}-{tier}"
    if lean_ok:
        part_a(chk, quick, rng(tag + "-a"))
        part_b(chk, quick, tag)
        part_c(chk, quick, rng(tag + "-c"))
    chk.assumptions = [
        "laws are finitely supported (discrete programs; cases with continuous draws are skipped in part b)",
        "end-to-end values compared at n = 0..4 and at the case's initial-value point",
        "tail bounds judged only at the n where the stated non-negativity assumption holds for the exact law; "
        "where M = a almost surely the lower bound is 0/0 (code prints nan) and nothing is claimed",
        "part (c) is a finite table test: Gram-Charlier for sampled rational cumulant vectors of length <= 6, "
        "Cornish-Fisher for <= 6 indeterminate cumulants against the published table — not the unbounded claim",
        "utils.statistics.comb divides factorials as floats: exact for orders <= 56 only (orders <= 10 exercised)",
    ]
    return chk.finish(
        level="proof",
        rule="(a) seeded rational/symbolic raw-moment vectors and finite laws; non-trivial = order >= 3 (vectors), "
             ">= 2 atoms and order >= 3 (laws); (b) seeded programs of families finite/choice/branchy/guarded/poly; "
             "non-trivial = the exact law of the goal monomial changes with n; distinct by source text + monomial; "
             "(c) [finite table test] cumulant vectors of length >= 3",
        trusted_base=TRUSTED,
        explanation="Theorems (all finite laws, all orders): central_correct (every k >= 1), cumulant_correct, "
                    "cumulant_recursion_correct, cumulant_is_log_mgf, markov, markov_min, second_moment_lower; "
                    "gc_integrates_to_one and probHermite_eq_heSpec about the model of the expansions. "
                    "Known finding F8b (0/0 lower bound simplified to 1). Expansions otherwise: tests only.")

def replay(path):
    with open(os.path.join(ROOT, path) if not os.path.isabs(path) else path) as fh:
        blob = json.load(fh)
    part = blob.get("part")
    if part == "a":
        law = blob["law"]
        N = max(int(blob["order"]), 1)
        spec = model_batch([{"op": "stats_spec", "law": law, "kmax": N}])[0]
        out = run_tasks([{"fn": T + "convert", "args": {"moments": spec["moments"]}}], timeout=60)[0]
        key = "centrals" if blob["kind"] == "central" else "cumulants"
        code = out["result"][key][N - 1]
        print(f"{blob['kind']} order {N}: code={code} exact={spec[key][N - 1]}")
        if q_of(code) != Fr(spec[key][N - 1]):
            print(f"VIOLATION property={PROP} replay={path}")
            return 1
        return 0
    if part == "b":
        nmax = 4
        vars_ = blob["vars"]
        gm = [(x, int(k)) for x, k in blob["gm"]]
        ds = model_batch([{"op": "dist", "program": blob["program"], "sigma0": blob["sigma0"], "vars": vars_, "n": n}
                          for n in range(nmax + 1)])
        it = {"case": {"program": None}, "gm": gm, "vars": vars_, "text": blob["text"], "subs": blob["subs"],
              "nmax": nmax, "goals": blob["goals"], "at_n": blob["at_n"], "tbm": blob["tbm"],
              "laws_g": [mono_law(d["dist"], vars_, gm) for d in ds], "tail_power": blob.get("tail_power")}
        if it["tail_power"]:
            it["laws_t"] = [mono_law(d["dist"], vars_, gm, it["tail_power"]) for d in ds]
            it["a_up"], it["a_lo"] = Fr(blob["a_up"]), Fr(blob["a_lo"])
        e2e_truth([it])
        out = e2e_run([it], 300)[0]
        # judge needs the program json only for the replay blob: provide it directly
        it["case"] = {"program": {"init": [], "guard": ("tt",), "body": []}, "params": {}, "sigma0": {}}
        status, findings, mdiffs = e2e_judge(it, out)
        print("status:", status)
        bad = [f for f in findings if not attribute(PROP, f)]
        for f in findings[:10]:
            print("  ", {k: f[k] for k in ("goal", "kind", "order", "n", "code", "spec")},
                  "(known)" if attribute(PROP, f) else "")
        if bad:
            print(f"VIOLATION property={PROP} replay={path}")
            return 1
        return 0
    if part == "c-gc" and "cumulants" in blob:
        o = run_tasks([{"fn": T + "gram_charlier", "args": {"cumulants": blob["cumulants"], "kmax": len(blob["cumulants"])}}],
                      timeout=300)[0]
        ks = [Fr(k) for k in blob["cumulants"]]
        exp = cumulants_to_moments(ks, len(ks))
        print("integrals:", o.get("result", {}).get("integrals"), "expected:", [fs(e) for e in exp])
        if o["status"] == "ok" and [q_of(v) for v in o["result"].get("integrals", [])] != exp:
            print(f"VIOLATION property={PROP} replay={path}")
            return 1
        return 0
    if part == "c-cf" and "N" in blob:
        o = run_tasks([{"fn": T + "cornish_fisher_symbolic", "args": {"N": blob["N"]}}], timeout=300)[0]
        print(o)
        if o["status"] == "ok" and not o["result"].get("equal"):
            print(f"VIOLATION property={PROP} replay={path}")
            return 1
        return 0
    if part == "c-cf-numeric":
        o = run_tasks([{"fn": T + "cornish_fisher_numeric", "args": {"sigma": blob["sigma"], "cumulants": blob["cumulants"]}}],
                      timeout=300)[0]
        print(o)
        if o["status"] == "ok" and o["result"].get("coeffs") != o["result"].get("textbook"):
            print(f"VIOLATION property={PROP} replay={path}")
            return 1
        return 0
    print("replay: this file records a broken obligation without a concrete input:", blob.get("what"))
    return 1
