"""C02 — normalisation preserves the program's distribution over its variables.

Per generated program the real `normalize_program` is run with every `Transformer.execute` wrapped;
the program after each pass is converted to the model AST and executed by the Lean reference
semantics.  Obligation per snapshot: same joint law (discrete programs) / same mixed moments up to
degree 3 (programs with continuous draws) over the source variables at n = 0..N as the source AST,
and independence from the (arbitrary) initial values of auxiliary variables."""
import json
import os

from .. import pipeline, hast as H
from ..common import Check, lean_gate, ROOT, model_batch_parallel
from ..oracle import case_text, lean_sigma0
from ..pool import run_tasks
from ..findings import attribute
from ..theorems import THEOREMS as _T

PROP = "C02"
THEOREMS = _T.get(PROP, [])

ARB = ["97/13", "-41/7"]

OPTION_SETS = [
    {},
    {"cond2arithm": True},
    {"transform_categoricals": True},
    {"cond2arithm": True, "transform_categoricals": True},
]


def _walk_vars(j, acc):
    if isinstance(j, list):
        if len(j) == 2 and j[0] == "var" and isinstance(j[1], str):
            acc.add(j[1])
        elif len(j) >= 2 and j[0] == "assign":
            acc.add(j[1])
            acc.add(j[4])
            for x in j[2:4]:
                _walk_vars(x, acc)
        else:
            for x in j:
                _walk_vars(x, acc)
    elif isinstance(j, dict):
        for v in j.values():
            _walk_vars(v, acc)


def source_monos(case):
    body_vars = sorted(H.stmts_assigned(case["program"]["body"]))
    monos = [[(v, 1)] for v in body_vars]
    monos += [[(v, 2)] for v in body_vars[:4]]
    for i in range(len(body_vars)):
        for k in range(i + 1, len(body_vars)):
            if len(monos) < 12:
                monos.append([(body_vars[i], 1), (body_vars[k], 1)])
    if body_vars:
        monos.append([(body_vars[0], 3)])
    if len(body_vars) >= 2:
        monos.append([(body_vars[0], 2), (body_vars[1], 1)])
    return body_vars, monos


def requests_for(case, prog_json, nmax, arb, body_vars, monos):
    s0 = dict(lean_sigma0(case))
    names = set()
    _walk_vars(prog_json, names)
    for v in names | set(body_vars):
        if v not in s0:
            s0[v] = arb
    rm = {"op": "moments", "program": prog_json, "sigma0": s0,
          "monos": [[[x, k] for x, k in m] for m in monos], "nmax": nmax, "budget": 3000}
    rd = {"op": "dist", "program": prog_json, "sigma0": s0, "vars": body_vars, "n": min(nmax, 3)}
    return rm, rd


def canon_dist(ans):
    if not ans.get("ok"):
        return None
    return sorted((tuple(v), w) for w, v in ans["dist"])


def run(tier):
    chk = Check(PROP, tier)
    lean_ok = lean_gate(chk, THEOREMS)
    quick = tier == "quick"
    n_gen = 140 if quick else 900
    nmax = 3
    cases = pipeline.load_corpus(PROP) + pipeline.generate_cases(n_gen, f"{PROP}-{tier}")
    jobs = []
    for ci, c in enumerate(cases):
        c["text_used"] = c.get("text") or case_text(c)
        opts = OPTION_SETS if not quick else [OPTION_SETS[ci % len(OPTION_SETS)], {}][: (2 if ci % 3 == 0 else 1)]
        seen = []
        for o in opts:
            if o not in seen:
                seen.append(o)
                jobs.append((c, o))
    tasks = [{"fn": "harness.tasks.normalize:snapshots", "args": {"text": c["text_used"], "settings": o}}
             for c, o in jobs]
    outs = run_tasks(tasks, timeout=60 if quick else 180, progress=50) if lean_ok else []
    reqs, index = [], []
    for ji, ((c, o), out) in enumerate(zip(jobs, outs)):
        chk.evaluations += 1
        if out["status"] == "timeout":
            chk.count("normalize:timeout")
            continue
        if out["status"] != "ok":
            chk.count("harness-error")
            chk.obligation(f"harness:snapshots[{ji}]", False, out)
            continue
        res = out["result"]
        if not res["accepted"]:
            chk.count("refused:" + res["error"]["stage"] + ":" + res["error"]["etype"])
            continue
        if res.get("abstracted"):
            chk.count("skipped:bernoulli-abstraction")
            continue
        body_vars, monos = source_monos(c)
        src_json = H.program_json(c["program"])
        rm, rd = requests_for(c, src_json, nmax, ARB[0], body_vars, monos)
        index.append((ji, "source", ARB[0], len(reqs)))
        reqs += [rm, rd]
        for si, s in enumerate(res["snaps"]):
            if s["program"] is None:
                chk.count("snapshot-unconvertible:" + s["pass"])
                continue
            for arb in ARB:
                rm, rd = requests_for(c, s["program"], nmax, arb, body_vars, monos)
                index.append((ji, f"{si}:{s['pass']}", arb, len(reqs)))
                reqs += [rm, rd]
    # ---- V3: one-step bisimulation of consecutive snapshots, sound for ALL n (theorem Polar.VP.checkSameStep_sound)
    import copy
    from fractions import Fraction as Fr
    vreqs, vmeta = [], []
    for ji, ((c, o), out) in enumerate(zip(jobs, outs)):
        if out["status"] != "ok" or not out["result"].get("accepted") or out["result"].get("abstracted"):
            continue
        res = out["result"]
        snaps = [sn for sn in res["snaps"] if sn["program"] is not None]
        if len(snaps) < 2:
            continue
        body_vars, _ = source_monos(c)
        types = {}
        for v, vals in res["typedefs"].items():
            try:
                types[v] = [H.fr_str(Fr(x)) for x in vals]
            except Exception:
                pass
        s0 = dict(lean_sigma0(c))
        params = [z for z in res.get("symbols", []) if z in s0]
        for q in params:
            types[q] = [s0[q]]

        def prep(pj):
            pj = copy.deepcopy(pj)
            for q in params:
                pj["init"].insert(0, ["assign", q, ["expr", ["num", s0[q]]], ["tt"], q])
            return pj
        src_names = set()
        _walk_vars(snaps[0]["program"], src_names)

        def body_assigned(stmts, acc):
            for st in stmts:
                if st[0] == "assign":
                    acc.add(st[1])
                elif st[0] == "ite":
                    body_assigned(st[2], acc)
                    body_assigned(st[3], acc)
            return acc

        def read_only(pj):
            """source variables the program mentions but never assigns in its body (loop constants)"""
            names = set()
            _walk_vars(pj, names)
            return (names & src_names) - body_assigned(pj["body"], set()) - set(params)

        def add_pair(a, b, label):
            ra, rb = read_only(a["program"]), read_only(b["program"])
            if ra != rb:
                # a loop constant was folded away between the two snapshots: its symbol would be foreign to one side
                chk.count("V3:skipped-constant-folding:" + label.split("->")[1])
                return
            na, nb = set(), set()
            _walk_vars(a["program"], na)
            _walk_vars(b["program"], nb)
            # observe every source variable that both snapshots still contain
            obs = sorted(((src_names & na & nb) | set(body_vars)) - set(params))
            vreqs.append({"op": "same_step", "p": prep(a["program"]), "q": prep(b["program"]),
                          "vars": obs, "types": types, "cap": 4096})
            vmeta.append((ji, label))
        for a, b in zip(snaps, snaps[1:]):
            if a["program"] == b["program"]:
                continue
            add_pair(a, b, a["pass"] + "->" + b["pass"])
        # long-range pairs: parsed -> final, or around the constant folding when that changes the variable set
        if read_only(snaps[0]["program"]) == read_only(snaps[-1]["program"]):
            add_pair(snaps[0], snaps[-1], "parsed->final")
        else:
            ci = next((i for i, sn in enumerate(snaps) if sn["pass"] == "ConstantsTransformer"), None)
            if ci is not None and ci >= 1:
                add_pair(snaps[0], snaps[ci - 1], "parsed->before-constants")
                add_pair(snaps[ci], snaps[-1], "after-constants->final")
    vans = model_batch_parallel(vreqs, timeout=60) if vreqs else []
    n_bisim = 0
    inconclusive = []
    for vi, ((ji, label), a) in enumerate(zip(vmeta, vans)):
        c, o = jobs[ji]
        lab = label.split("->")[1]
        if not a.get("ok"):
            chk.count("V3:error:" + str(a.get("error"))[:30])
        elif a.get("same") is None:
            chk.count("V3:refused:" + str(a.get("refused"))[:36])
        elif a["same"]:
            n_bisim += 1
            chk.count(str(a.get("validator", "V3")) + ":same-law-for-all-n:" + lab)
        elif a.get("validator") == "V3C" or (a.get("why") or {}).get("kind") == "type-violated":
            # V3C is sound but not complete: it compares the atom tables of a step index by index, so a pass that rewrites a draw
            # (Normal(m, 1/4) -> m + (1/2)*Normal(0, 1)) is answered "not same" although the law is preserved.  The verdict is
            # therefore decided by exact moments of the two snapshots (all monomials up to degree 3 plus 4th powers, n <= 2).
            # (the same holds for V3's verdict `type-violated`: the validator starts from every combination of typed values, also
            # unreachable ones, e.g. two variables on different points of a finite orbit; the types need only hold on reachable states)
            chk.count(str(a.get("validator", "V3")) + ":not-same:decided-by-exact-moments:" + lab)
            inconclusive.append((ji, label, a, vreqs[vi]))
        else:
            rec = {"case": c, "options": o, "pass": label, "kind": "one-step-bisimulation-fails", "detail": a.get("why")}
            fid = attribute(PROP, rec)
            if fid:
                chk.known(fid[0], fid[1])
            else:
                chk.violation(f"pass {label} (options {o}) is not law-preserving: {a.get('why')}",
                              {"case": pipeline.case_to_json({k: v for k, v in c.items()}), "text": c["text_used"], "options": o,
                               "pass": label, "why": a.get("why"),
                               "how": "harness.tasks.normalize:snapshots on `text`; polar-model op same_step on the two snapshots with "
                                      "program.typedefs: a typed state and an observed projection whose probabilities differ after one iteration"})
    if inconclusive:
        import itertools
        mreqs = []
        for ji, label, a, vr in inconclusive:
            c, o = jobs[ji]
            vs = list(vr["vars"])[:4]
            monos = []
            for deg in (1, 2, 3):
                for combo in itertools.combinations_with_replacement(vs, deg):
                    monos.append([[v, combo.count(v)] for v in sorted(set(combo))])
            monos += [[[v, 4]] for v in vs]
            s0 = dict(lean_sigma0(c))
            names = set()
            _walk_vars(vr["p"], names)
            _walk_vars(vr["q"], names)
            for v in sorted(names):
                s0.setdefault(v, "97/13")
            for prog in (vr["p"], vr["q"]):
                mreqs.append({"op": "moments", "program": prog, "sigma0": s0, "monos": monos, "nmax": 2, "budget": 3000})
        mans = model_batch_parallel(mreqs, timeout=60)
        for k, (ji, label, a, vr) in enumerate(inconclusive):
            c, o = jobs[ji]
            ap, aq = mans[2 * k], mans[2 * k + 1]
            if not (ap.get("ok") and aq.get("ok")):
                chk.count("V3C:not-same:moments-unavailable")
                continue
            diff = None
            for mono, vp_, vq_ in zip(mreqs[2 * k]["monos"], ap["values"], aq["values"]):
                for n_, (x_, y_) in enumerate(zip(vp_, vq_)):
                    if x_ != y_:
                        diff = (mono, n_, x_, y_)
                        break
                if diff:
                    break
            if diff is None:
                chk.count("V3C:not-same:moments-equal(incomplete-validator)")
                continue
            rec = {"case": c, "options": o, "pass": label, "kind": "one-step-bisimulation-fails", "detail": a.get("why")}
            fid = attribute(PROP, rec)
            if fid:
                chk.known(fid[0], fid[1])
            else:
                chk.violation(f"pass {label} (options {o}) is not law-preserving: E({diff[0]}) at n={diff[1]} is {diff[2]} before and {diff[3]} after "
                              f"the pass (validator V3C: {str(a.get('why'))[:300]})",
                              {"case": pipeline.case_to_json({k_: v_ for k_, v_ in c.items()}), "text": c["text_used"], "options": o,
                               "pass": label, "why": a.get("why"), "moment": diff[0], "n": diff[1], "before": diff[2], "after": diff[3],
                               "how": "harness.tasks.normalize:snapshots on `text`; polar-model op same_step (V3C) answered not-same; "
                                      "op moments on both snapshots gives different exact values"})
    chk.obligation("validator:V3-snapshots-bisimilar-for-all-n", lean_ok and (n_bisim > 0 or not vreqs), {"pairs": n_bisim})
    answers = model_batch_parallel(reqs) if reqs else []
    by_job = {}
    for ji, label, arb, pos in index:
        by_job.setdefault(ji, []).append((label, arb, answers[pos], answers[pos + 1]))
    n_ok_jobs = 0
    for ji, entries in by_job.items():
        c, o = jobs[ji]
        src = entries[0]
        if not src[2].get("ok"):
            chk.count("oracle-refused:" + str(src[2].get("error"))[:30])
            continue
        src_vals = src[2]["values"]
        src_dist = canon_dist(src[3])
        bad = None
        passes_checked = 0
        for label, arb, am, ad in entries[1:]:
            if not am.get("ok"):
                # the snapshot cannot be executed by the model (e.g. an auxiliary read before it is set)
                if str(am.get("error", "")).startswith("unset"):
                    bad = (label, arb, "reads-unset-variable", am.get("error"))
                    break
                chk.count("snapshot-oracle-refused:" + str(am.get("error"))[:40])
                continue
            passes_checked += 1
            k = min(len(v) for v in src_vals + am["values"]) if am["values"] else 0
            for mi, (sv, tv) in enumerate(zip(src_vals, am["values"])):
                if sv[:k] != tv[:k]:
                    n_bad = next(i for i in range(k) if sv[i] != tv[i])
                    bad = (label, arb, "moment-differs",
                           {"mono": source_monos(c)[1][mi], "n": n_bad, "source": sv[n_bad], "transformed": tv[n_bad]})
                    break
            if bad:
                break
            d = canon_dist(ad)
            if src_dist is not None and d is not None and d != src_dist:
                bad = (label, arb, "joint-law-differs", {"source": src_dist[:6], "transformed": d[:6]})
                break
        chk.count("passes-checked", passes_checked)
        if bad:
            rec = {"case": c, "options": o, "pass": bad[0], "aux_init": bad[1], "kind": bad[2], "detail": bad[3]}
            fid = attribute(PROP, rec)
            if fid:
                chk.known(fid[0], fid[1])
            else:
                chk.violation(f"after pass {bad[0]} (options {o}) the law over source variables changed: {bad[2]} {bad[3]}",
                              {"case": pipeline.case_to_json({k: v for k, v in c.items()}), "text": c["text_used"],
                               "options": o, "pass": bad[0], "aux_init": bad[1], "kind": bad[2], "detail": bad[3],
                               "how": "run harness.tasks.normalize:snapshots on `text`; execute the snapshot after `pass` "
                                      "and the source AST with polar-model (ops moments/dist) and compare"})
        else:
            n_ok_jobs += 1
            chk.count("jobs-preserved")
            if any(len(set(v)) > 1 for v in src_vals):
                chk.nontrivial.add(c["text_used"] + json.dumps(o, sort_keys=True))
            chk.sample({"text": c["text_used"], "options": o, "passes": [e[0] for e in entries[1::2]]}, limit=3)
    chk.obligation("correspondence:per-pass-translation-validation", lean_ok and n_ok_jobs > 0 and
                   chk.counts.get("harness-error", 0) == 0, {"jobs_preserved": n_ok_jobs, "jobs": len(jobs)})
    chk.assumptions = ["laws compared at n = 0..3 (joint law for discrete programs, mixed moments up to degree 3 otherwise)",
                       "programs needing the Bernoulli abstraction of non-finite conditions are outside the model"]
    return chk.finish(level="proof",
                      rule="seeded generator; each (program, option set) is one job; non-trivial iff some source moment "
                           "sequence is non-constant; every snapshot is executed twice with different initial values of "
                           "auxiliary variables",
                      trusted_base=["Lean kernel/compiler (reference semantics Polar/Sem.lean)",
                                    "harness conversion of Polar's Program objects to the model AST (harness/tasks/convert.py)"])


def replay(path):
    with open(os.path.join(ROOT, path) if not os.path.isabs(path) else path) as fh:
        blob = json.load(fh)
    print(json.dumps({k: blob.get(k) for k in ("pass", "kind", "detail", "options")}, indent=1))
    print(blob.get("text"))
    return 1
