"""C08 — built-in distributions report their true moments, support and transforms.

Decision: Lean theorems (PolarProofs/Dist.lean, PolarProofs/DistAnalysis.lean: `momentImpl = momentSpec` per
formula family, the four location/scale rewritings of DistTransformer as identities of moment sequences for every
order, integral / mgf ties) + differential correspondence on the real classes:

  moments     distribution_factory(name, params).get_moment(k), k = 0..K, against the Lean specification
              `distmoment` (exact rationals) and, where the code has a formula of its own, against the Lean model of
              the code `distimpl`; TruncNormal against 60-digit quadrature of the density (explicit tolerance 1e-30)
  support     get_support() / is_discrete() against `distsupport`, and the true support is contained
  transforms  k-th derivative at 0 of mgf(t) / cf(t) (cf divided by i^k) equals the same moment; value at t = 0;
              mgf_exists_at at / inside / outside the boundary
  rewriting   Parser + DistTransformer on small programs: the rewritten pair (fresh draw, polynomial) is an
              instance of the proven location/scale identity at concrete valuations, and the Lean `locscale`
              moments equal the specification of the original draw
  pipeline    E(y^k)(n) from the full pipeline for draws with variable / random / symbolic parameters against the
              specification with the substituted parameters
  history     several objects of one family sharing some but not all parameters in ONE process, the same moments
              asked in two orders (caches keyed on too little, class-level state, stale memoisation), and programs
              with two draws of one family that differ in one parameter
  spec        the textbook recurrences of the continuous families against quadrature of the density (oracle)
"""
import json
import os
import sys
from fractions import Fraction as Fr
from math import comb, factorial

from ..common import Check, lean_gate, ROOT, rng
from ..common import model_batch as _model_batch
from ..pool import run_tasks
from ..theorems import THEOREMS as _T

PROP = "C08"


def model_batch(reqs, tries=6):
    """common.model_batch, tolerant of the executable being relinked by a concurrent `lake build`"""
    import time
    for i in range(tries):
        try:
            return _model_batch(reqs)
        except (FileNotFoundError, PermissionError, OSError):
            if i == tries - 1:
                raise
            time.sleep(10)
THEOREMS = _T[PROP]

TRUSTED = [
    "Lean 4.33 kernel; axioms propext, Classical.choice, Quot.sound only",
    "Mathlib definitions: Finset.sum, Nat.choose, intervalIntegral, MeasureTheory.integral, Real.Gamma, iteratedDeriv, Measure.dirac",
    "compiled polar-model agrees with the kernel semantics of the same definitions",
    "specification of 'true moment' for Normal, Laplace, Beta: the textbook recurrence in Polar/Dist.lean "
    "(cross-checked numerically against mpmath quadrature of the density on every run, not proved); for Uniform, "
    "Exponential, Gamma and the finite families it is proved equal to the defining integral / expectation",
    "TruncNormal: 60-digit mpmath quadrature of the truncated density is the oracle",
    "finite-draw trigonometric goals: direct 40-digit summation over the finite law, tolerance 1e-15",
    "sympy diff / series / limit for the derivatives of the code's mgf / cf expressions at 0",
    "harness: parameter generator, canonicalisation to exact rationals",
]

# code name (distribution_factory key) -> family name of the Lean specification
LEAN_FAMILY = {"Bernoulli": "Bernoulli", "Normal": "Normal", "Uniform": "Uniform", "Laplace": "Laplace",
               "DistExp": "Exponential", "Gamma": "Gamma", "Beta": "Beta", "Categorical": "Categorical",
               "DiscreteUniform": "DiscreteUniform", "TruncNormal": "TruncNormal"}
IMPL_FAMILIES = {"Bernoulli", "Uniform", "DistExp", "Categorical", "DiscreteUniform"}
DISCRETE = {"Bernoulli", "Categorical", "DiscreteUniform"}
# relative tolerance for TruncNormal: the family has no rational moments; since /repo f57ee1f the code evaluates its
# recursion with evalf(50) and returns that 50-digit decimal as a rational
TRUNC_TOL = Fr(1, 10 ** 30)


def fs(x):
    x = Fr(x)
    return f"{x.numerator}/{x.denominator}"


def canon(s):
    """canonical 'p/q' of a rational given as string ('3', '3/1', '0.5')"""
    return fs(Fr(s))


# ------------------------------------------------------------------------------------------------
# parameter sets
# ------------------------------------------------------------------------------------------------

def _rat(r, lo, hi, dens=(1, 2, 3, 4, 5, 10)):
    d = r.choice(dens)
    return Fr(r.randint(int(lo * d), int(hi * d)), d)


def _pos(r, hi=4, dens=(1, 2, 3, 4, 5, 10)):
    d = r.choice(dens)
    return Fr(r.randint(1, hi * d), d)


def _lit(r, x):
    """a float literal for the rational x (x must have a terminating decimal expansion)"""
    x = Fr(x)
    s = format(float(x), "f").rstrip("0")
    if s.endswith("."):
        s += "0"
    forms = [s]
    if Fr(s) == x:
        f = float(x)
        forms.append(repr(f))
        if x != 0 and abs(x) < 1:
            forms.append(format(f, ".3e") if Fr(format(f, ".3e")) == x else s)
    return r.choice(forms)


def _dec(r, lo, hi, positive=False):
    d = r.choice((2, 4, 5, 10, 20, 100))
    n = r.randint(int(lo * d), int(hi * d))
    if positive and n <= 0:
        n = 1
    return Fr(n, d)


def param_sets(tier, r):
    """list of dicts: name (factory key), params (strings as the parser would pass them), point (values of the
    symbolic parameters or None), values (exact parameter values as Fractions), style"""
    quick = tier == "quick"
    per = 4 if quick else 40
    out = []

    def add(name, params, values, style, point=None):
        out.append({"name": name, "params": [str(p) for p in params], "values": [Fr(v) for v in values],
                    "style": style, "point": point})

    # fixed corner cases first (boundaries of the domains, the shapes the benchmarks use)
    add("Bernoulli", ["1/2"], [Fr(1, 2)], "rational")
    add("Bernoulli", ["0"], [0], "rational")
    add("Bernoulli", ["1"], [1], "rational")
    add("Bernoulli", ["0.25"], [Fr(1, 4)], "float")
    add("Bernoulli", ["p"], [Fr(2, 7)], "symbolic", {"p": "2/7"})
    add("Normal", ["0", "1"], [0, 1], "rational")
    add("Normal", ["-3/2", "2"], [Fr(-3, 2), 2], "rational")          # irrational sigma
    add("Normal", ["0.5", "0.01"], [Fr(1, 2), Fr(1, 100)], "float")
    add("Normal", ["mu", "4"], [1, 4], "symbolic", {"mu": "1"})
    add("Uniform", ["0", "1"], [0, 1], "rational")
    add("Uniform", ["-2", "-1/3"], [-2, Fr(-1, 3)], "rational")
    add("Uniform", ["-0.05", "0.05"], [Fr(-1, 20), Fr(1, 20)], "float")
    add("Uniform", ["a", "b"], [Fr(-1, 2), 3], "symbolic", {"a": "-1/2", "b": "3"})
    add("Uniform", ["a", "a + 2"], [Fr(5, 3), Fr(11, 3)], "symbolic", {"a": "5/3"})
    add("DistExp", ["100"], [100], "rational")
    add("DistExp", ["2/3"], [Fr(2, 3)], "rational")
    add("DistExp", ["0.5"], [Fr(1, 2)], "float")
    add("DistExp", ["l"], [Fr(7, 5)], "symbolic", {"l": "7/5"})
    add("DistExp", ["1/c"], [Fr(1, 3)], "symbolic", {"c": "3"})
    add("Laplace", ["0", "1"], [0, 1], "rational")
    add("Laplace", ["-1", "2/3"], [-1, Fr(2, 3)], "rational")
    add("Laplace", ["0.5", "0.25"], [Fr(1, 2), Fr(1, 4)], "float")
    add("Laplace", ["m", "1"], [2, 1], "symbolic", {"m": "2"})
    add("Gamma", ["1", "2"], [1, 2], "rational")
    add("Gamma", ["3/2", "1/5"], [Fr(3, 2), Fr(1, 5)], "rational")
    add("Gamma", ["2.5", "0.5"], [Fr(5, 2), Fr(1, 2)], "float")
    add("Gamma", ["k", "2"], [3, 2], "symbolic", {"k": "3"})
    add("Beta", ["1", "3"], [1, 3], "rational")
    add("Beta", ["2", "3", "4"], [2, 3, 4], "rational")
    add("Beta", ["1/2", "1/2"], [Fr(1, 2), Fr(1, 2)], "rational")
    add("Beta", ["5", "8", "3/2"], [5, 8, Fr(3, 2)], "rational")
    add("Beta", ["0.5", "1.5", "2.0"], [Fr(1, 2), Fr(3, 2), 2], "float")
    add("Beta", ["a", "3"], [2, 3], "symbolic", {"a": "2"})
    add("Categorical", ["1"], [1], "rational")
    add("Categorical", ["1/4", "1/4", "1/2"], [Fr(1, 4), Fr(1, 4), Fr(1, 2)], "rational")
    add("Categorical", ["0", "1/3", "0", "2/3"], [0, Fr(1, 3), 0, Fr(2, 3)], "rational")
    add("Categorical", ["0.1", "0.2", "0.7"], [Fr(1, 10), Fr(1, 5), Fr(7, 10)], "float")
    add("Categorical", ["p", "1 - p"], [Fr(1, 3), Fr(2, 3)], "symbolic", {"p": "1/3"})
    add("Categorical", ["p", "q", "1 - p - q"], [Fr(1, 5), Fr(1, 2), Fr(3, 10)], "symbolic", {"p": "1/5", "q": "1/2"})
    add("DiscreteUniform", ["0", "10"], [0, 10], "rational")
    add("DiscreteUniform", ["-2", "3"], [-2, 3], "rational")
    add("DiscreteUniform", ["4", "4"], [4, 4], "rational")
    add("DiscreteUniform", ["-7", "-5"], [-7, -5], "rational")
    add("TruncNormal", ["0", "1", "-2", "2"], [0, 1, -2, 2], "rational")
    add("TruncNormal", ["0", "0.01", "-1", "1"], [0, Fr(1, 100), -1, 1], "float")
    add("TruncNormal", ["0", "0.0025", "-0.5", "0.5"], [0, Fr(1, 400), Fr(-1, 2), Fr(1, 2)], "float")
    add("TruncNormal", ["1/2", "9/4", "0", "3"], [Fr(1, 2), Fr(9, 4), 0, 3], "rational")
    add("TruncNormal", ["0", "1", "8", "9"], [0, 1, 8, 9], "rational")          # far tail: cancellation
    add("TruncNormal", ["3", "4", "-1", "0"], [3, 4, -1, 0], "rational")
    add("TruncNormal", ["0", "2", "-1", "1"], [0, 2, -1, 1], "rational")        # irrational sigma: refused by the code

    # seeded random sets
    for _ in range(per):
        p = _rat(r, 0, 1)
        add("Bernoulli", [fs(p)], [p], "rational")
        mu, s2 = _rat(r, -3, 3), _pos(r)
        add("Normal", [fs(mu), fs(s2)], [mu, s2], "rational")
        a = _rat(r, -3, 3)
        b = a + _pos(r)
        add("Uniform", [fs(a), fs(b)], [a, b], "rational")
        lam = _pos(r)
        add("DistExp", [fs(lam)], [lam], "rational")
        mu, b2 = _rat(r, -3, 3), _pos(r, 2)
        add("Laplace", [fs(mu), fs(b2)], [mu, b2], "rational")
        k0, th = _pos(r), _pos(r, 2)
        add("Gamma", [fs(k0), fs(th)], [k0, th], "rational")
        al, be = _pos(r), _pos(r)
        if r.random() < 0.4:
            sc = _pos(r)
            add("Beta", [fs(al), fs(be), fs(sc)], [al, be, sc], "rational")
        else:
            add("Beta", [fs(al), fs(be)], [al, be], "rational")
        n = r.randint(2, 5)
        ws = [r.randint(0, 4) for _ in range(n)]
        if sum(ws) == 0:
            ws[0] = 1
        ps = [Fr(w, sum(ws)) for w in ws]
        add("Categorical", [fs(q) for q in ps], ps, "rational")
        lo = r.randint(-6, 6)
        hi = lo + r.randint(0, 9)
        add("DiscreteUniform", [str(lo), str(hi)], [lo, hi], "rational")
        mu = _rat(r, -2, 2)
        sg = _pos(r, 2, (1, 2, 4))
        a = mu + sg * _rat(r, -3, 1, (1, 2))
        b = a + sg * _pos(r, 3, (1, 2))
        add("TruncNormal", [fs(mu), fs(sg * sg), fs(a), fs(b)], [mu, sg * sg, a, b], "rational")
    # float-literal variants
    for _ in range(per):
        mu, s2 = _dec(r, -2, 2), _dec(r, 0, 3, True)
        add("Normal", [_lit(r, mu), _lit(r, s2)], [mu, s2], "float")
        a = _dec(r, -2, 2)
        b = a + _dec(r, 0, 3, True)
        add("Uniform", [_lit(r, a), _lit(r, b)], [a, b], "float")
        lam = _dec(r, 0, 3, True)
        add("DistExp", [_lit(r, lam)], [lam], "float")
        k0, th = _dec(r, 0, 3, True), _dec(r, 0, 2, True)
        add("Gamma", [_lit(r, k0), _lit(r, th)], [k0, th], "float")
    # symbolic variants at random points
    for _ in range(max(2, per // 2)):
        a = _rat(r, -3, 3)
        b = a + _pos(r)
        add("Uniform", ["lo", "hi"], [a, b], "symbolic", {"lo": fs(a), "hi": fs(b)})
        lam = _pos(r)
        add("DistExp", ["rate"], [lam], "symbolic", {"rate": fs(lam)})
        p = _rat(r, 0, 1)
        add("Bernoulli", ["pr"], [p], "symbolic", {"pr": fs(p)})
        add("Categorical", ["pr/2", "pr/2", "1 - pr"], [p / 2, p / 2, 1 - p], "symbolic", {"pr": fs(p)})
    # de-duplicate
    seen, res = set(), []
    for c in out:
        key = (c["name"], tuple(c["params"]), json.dumps(c["point"], sort_keys=True))
        if key not in seen:
            seen.add(key)
            res.append(c)
    return res


# ------------------------------------------------------------------------------------------------
# specification values
# ------------------------------------------------------------------------------------------------

def spec_request(name, values, kmax):
    fam = LEAN_FAMILY[name]
    if fam == "Beta" and len(values) == 3:
        return {"op": "locscale", "kind": "beta_scaled", "params": [fs(v) for v in values], "kmax": kmax}
    return {"op": "distmoment", "family": fam, "params": [fs(v) for v in values], "kmax": kmax}


def true_support(name, values):
    """textbook support, written here independently of the Lean model: ('points', [...]) or ('interval', lo, hi)"""
    if name == "Bernoulli":
        p = values[0]
        return ("points", [v for v, w in ((Fr(0), 1 - p), (Fr(1), p)) if w != 0])
    if name == "Categorical":
        return ("points", [Fr(i) for i, p in enumerate(values) if p != 0])
    if name == "DiscreteUniform":
        return ("points", [Fr(i) for i in range(int(values[0]), int(values[1]) + 1)])
    if name == "Uniform":
        return ("interval", values[0], values[1])
    if name == "TruncNormal":
        return ("interval", values[2], values[3])
    if name == "Beta":
        return ("interval", Fr(0), values[2] if len(values) == 3 else Fr(1))
    if name in ("DistExp", "Gamma"):
        return ("interval", Fr(0), None)
    return ("interval", None, None)


def mp_truth_truncnormal(values, ks, dps=60):
    import mpmath as mp
    mp.mp.dps = dps
    mu, s2, a, b = [mp.mpf(v.numerator) / v.denominator for v in values]
    f = lambda x: mp.exp(-(x - mu) ** 2 / (2 * s2))  # noqa: E731
    pts = sorted({a, b, min(max(mu, a), b)})
    z = mp.quad(f, pts)
    return {k: mp.quad(lambda x: x ** k * f(x), pts) / z for k in ks}


def mp_truth_density(name, values, k, dps=30):
    """k-th raw moment by quadrature of the textbook density (oracle for the specification recurrences)"""
    import mpmath as mp
    mp.mp.dps = dps
    v = [mp.mpf(x.numerator) / x.denominator for x in values]
    if name == "Normal":
        mu, s2 = v
        f = lambda x: mp.exp(-(x - mu) ** 2 / (2 * s2)) / mp.sqrt(2 * mp.pi * s2)  # noqa: E731
        return mp.quad(lambda x: x ** k * f(x), [-mp.inf, mu, mp.inf])
    if name == "Uniform":
        a, b = v
        return mp.quad(lambda x: x ** k / (b - a), [a, b])
    if name == "DistExp":
        lam = v[0]
        return mp.quad(lambda x: x ** k * lam * mp.exp(-lam * x), [0, 1 / lam, mp.inf])
    if name == "Laplace":
        mu, b = v
        f = lambda x: mp.exp(-abs(x - mu) / b) / (2 * b)  # noqa: E731
        return mp.quad(lambda x: x ** k * f(x), [-mp.inf, mu, mp.inf])
    if name == "Gamma":
        k0, th = v
        return mp.quad(lambda x: x ** (k + k0 - 1) * mp.exp(-x / th), [0, k0 * th + th, mp.inf]) / (mp.gamma(k0) * th ** k0)
    if name == "Beta":
        a, b = v[0], v[1]
        sc = v[2] if len(v) == 3 else mp.mpf(1)
        return sc ** k * mp.quad(lambda x: x ** (k + a - 1) * (1 - x) ** (b - 1), [0, mp.mpf(1) / 2, 1]) / mp.beta(a, b)
    raise ValueError(name)


def mp_to_fr(x, digits=45):
    import mpmath as mp
    return Fr(mp.nstr(x, digits, strip_zeros=False, min_fixed=-10 ** 6, max_fixed=10 ** 6))


def rel_err(x, truth):
    x, truth = Fr(x), Fr(truth)
    return abs(x - truth) / max(abs(truth), Fr(1))


# ------------------------------------------------------------------------------------------------
# DistTransformer programs
# ------------------------------------------------------------------------------------------------

def _prog(init, body):
    return "\n".join(init) + "\nwhile true:\n" + "\n".join("    " + b for b in body) + "\nend"


def rewrite_cases(tier, r):
    """programs with a draw whose parameters depend on a program variable / a finite random variable / a symbolic
    constant.  Each case: text, target variable y, family, a function giving the list of (probability, parameter
    values) of the draw at iteration n ≥ 1, symbolic point."""
    quick = tier == "quick"
    cases = []

    def drift(name, exprs, pf, x0, d, tag):
        # x runs deterministically: at the draw of iteration n (n ≥ 1) x = x0 + (n-1)·d
        text = _prog([f"x = {fs(x0)}" if x0.denominator != 1 else f"x = {x0.numerator}", "y = 0"],
                     [f"y = {name}({', '.join(exprs)})", f"x = x + {d.numerator}" if d.denominator == 1 else f"x = x + {fs(d)}"])
        cases.append({"text": text, "target": "y", "name": name, "tag": tag, "kind": "drift", "pf": pf,
                      "mix": lambda n, pf=pf, x0=x0, d=d: [(Fr(1), pf(x0 + (n - 1) * d))], "point": None,
                      "valuations": [{"x": fs(x0)}, {"x": fs(x0 + 2 * d)}]})

    def finite(name, exprs, pf, law_text, law, tag):
        text = _prog(["u = 0", "y = 0"], [f"u = {law_text}", f"y = {name}({', '.join(exprs)})"])
        cases.append({"text": text, "target": "y", "name": name, "tag": tag, "kind": "finite", "pf": pf,
                      "mix": lambda n, pf=pf, law=law: [(w, pf(v)) for w, v in law], "point": None,
                      "valuations": [{"u": fs(v)} for _, v in law[:2]]})

    def symbolic(name, exprs, pf, point, tag):
        text = _prog(["y = 0"], [f"y = {name}({', '.join(exprs)})"])
        cases.append({"text": text, "target": "y", "name": name, "tag": tag, "kind": "symbolic", "pf": pf,
                      "mix": lambda n, pf=pf, point=point: [(Fr(1), pf(point))], "point": {k: fs(v) for k, v in point.items()},
                      "valuations": [{k: fs(v) for k, v in point.items()}]})

    def constant(name, params, values, tag):
        text = _prog(["y = 0"], [f"y = {name}({', '.join(params)})"])
        cases.append({"text": text, "target": "y", "name": name, "tag": tag, "kind": "constant",
                      "mix": lambda n, values=values: [(Fr(1), values)], "point": None, "valuations": []})

    du = [(Fr(1, 3), Fr(1)), (Fr(1, 3), Fr(2)), (Fr(1, 3), Fr(3))]
    cat = [(Fr(1, 4), Fr(0)), (Fr(3, 4), Fr(1))]
    # Normal
    drift("Normal", ["x", "4"], lambda x: [x, Fr(4)], Fr(0), Fr(1), "normal-mean-var")
    drift("Normal", ["2*x + 1", "2"], lambda x: [2 * x + 1, Fr(2)], Fr(-1), Fr(1, 2), "normal-affine-mean-irrational-sigma")
    drift("Normal", ["x", "9/4"], lambda x: [x, Fr(9, 4)], Fr(0), Fr(1), "normal-variance-fraction")
    drift("Normal", ["x + 1", "2.5"], lambda x: [x + 1, Fr(5, 2)], Fr(0), Fr(1), "normal-variance-float-literal")
    drift("Normal", ["1", "x**2"], lambda x: [Fr(1), x * x], Fr(1), Fr(1), "normal-variance-square")
    finite("Normal", ["u", "u + 1"], lambda u: [u, u + 1], "DiscreteUniform(1, 3)", du, "normal-random-mean-variance")
    finite("Normal", ["u", "u + 1"], lambda u: [u, u + 1], "Bernoulli(1/2)", [(Fr(1, 2), Fr(0)), (Fr(1, 2), Fr(1))],
           "normal-random-mean-variance-bernoulli")
    finite("Normal", ["0", "u + 1"], lambda u: [Fr(0), u + 1], "Bernoulli(1/2)", [(Fr(1, 2), Fr(0)), (Fr(1, 2), Fr(1))],
           "normal-random-variance-bernoulli")
    symbolic("Normal", ["m", "s"], lambda p: [p["m"], p["s"]], {"m": Fr(1, 2), "s": Fr(3)}, "normal-symbolic")
    constant("Normal", ["0.5", "2"], [Fr(1, 2), Fr(2)], "normal-float-literal")
    # Uniform
    drift("Uniform", ["x", "x + 2"], lambda x: [x, x + 2], Fr(0), Fr(1), "uniform-shift")
    drift("Uniform", ["-x", "2*x"], lambda x: [-x, 2 * x], Fr(1), Fr(1), "uniform-scale")
    finite("Uniform", ["u", "2*u + 1"], lambda u: [u, 2 * u + 1], "Categorical(1/4, 3/4)", cat, "uniform-random")
    symbolic("Uniform", ["a", "b"], lambda p: [p["a"], p["b"]], {"a": Fr(-1), "b": Fr(5, 2)}, "uniform-symbolic")
    constant("Uniform", ["-0.05", "0.05"], [Fr(-1, 20), Fr(1, 20)], "uniform-float-literal")
    # Laplace
    drift("Laplace", ["x", "2"], lambda x: [x, Fr(2)], Fr(0), Fr(1), "laplace-shift")
    drift("Laplace", ["x/2 - 1", "1/3"], lambda x: [x / 2 - 1, Fr(1, 3)], Fr(1), Fr(2), "laplace-affine")
    finite("Laplace", ["u", "1"], lambda u: [u, Fr(1)], "DiscreteUniform(1, 3)", du, "laplace-random")
    symbolic("Laplace", ["m", "2"], lambda p: [p["m"], Fr(2)], {"m": Fr(-3, 2)}, "laplace-symbolic")
    # Exponential
    drift("DistExp", ["1/x"], lambda x: [1 / x], Fr(1), Fr(1), "exponential-inverse")
    drift("DistExp", ["3/(2*x)"], lambda x: [Fr(3) / (2 * x)], Fr(1), Fr(1, 2), "exponential-rational-rate")
    finite("DistExp", ["2/u"], lambda u: [2 / u], "DiscreteUniform(1, 3)", du, "exponential-random")
    symbolic("DistExp", ["1/c"], lambda p: [1 / p["c"]], {"c": Fr(3)}, "exponential-symbolic")
    constant("DistExp", ["0.5"], [Fr(1, 2)], "exponential-float-literal")
    # families that are never rewritten, through the whole pipeline
    constant("Gamma", ["1.5", "2"], [Fr(3, 2), Fr(2)], "gamma-float-literal")
    constant("Beta", ["2", "3"], [Fr(2), Fr(3)], "beta")
    constant("Laplace", ["1", "0.5"], [Fr(1), Fr(1, 2)], "laplace-float-literal")
    if not quick:
        for _ in range(24):
            x0, d = Fr(r.randint(1, 3)), Fr(r.randint(1, 2), r.choice((1, 2)))
            c1, c2 = Fr(r.randint(1, 3)), Fr(r.randint(-2, 2))
            s2 = Fr(r.choice((1, 2, 3, 4, 9)), r.choice((1, 4)))
            which = r.choice(("Normal", "Uniform", "Laplace", "DistExp"))
            if which == "Normal":
                drift("Normal", [f"{c1}*x + {c2}", fs(s2)], lambda x, c1=c1, c2=c2, s2=s2: [c1 * x + c2, s2], x0, d, "normal-random-affine")
            elif which == "Uniform":
                drift("Uniform", [f"{c2} - x", f"{c2} + {c1}*x"], lambda x, c1=c1, c2=c2: [c2 - x, c2 + c1 * x], x0, d, "uniform-random-affine")
            elif which == "Laplace":
                drift("Laplace", [f"{c1}*x + {c2}", fs(s2)], lambda x, c1=c1, c2=c2, s2=s2: [c1 * x + c2, s2], x0, d, "laplace-random-affine")
            else:
                drift("DistExp", [f"{c1}/({s2.numerator}*x)"], lambda x, c1=c1, s2=s2: [c1 / (s2.numerator * x)], x0, d, "exponential-random")
    return cases


def trig_cases():
    """programs whose goals make FunctionalAssignment request cf(0) of a finite draw (cos², sin·cos, sin²);
    expected values by direct summation over the finite law (irrational: compared with tolerance 1e-15, Polar
    rounds trigonometric constants to 20 digits)"""
    import mpmath as mp

    def exp_over(vals, f):
        mp.mp.dps = 40
        return sum(f(mp.mpf(v)) for v in vals) / len(vals)

    out = []
    for lo, hi in ((0, 3), (-1, 2), (2, 2)):
        vals = list(range(lo, hi + 1))
        text = _prog(["x = 0", "c = 0", "s = 0"], [f"x = DiscreteUniform({lo}, {hi})", "c = Cos(x)", "s = Sin(x)"])
        out.append({"text": text, "tag": f"trig-discrete-uniform({lo},{hi})",
                    "goals": [[["c", 2]], [["c", 1], ["s", 1]], [["s", 2]], [["c", 1]]],
                    "expected": [exp_over(vals, lambda v: mp.cos(v) ** 2), exp_over(vals, lambda v: mp.cos(v) * mp.sin(v)),
                                 exp_over(vals, lambda v: mp.sin(v) ** 2), exp_over(vals, mp.cos)]})
    return out


def history_groups(tier, r):
    """groups of objects of one family that share some but not all parameters (same shape / different scale, same
    mean / different variance, same bounds / different mean, ...), some repeated; values are exact"""
    F = Fr
    fixed = {
        "Bernoulli": [[F(1, 3)], [F(2, 3)], [F(1, 3)]],
        "Normal": [[F(1), F(4)], [F(1), F(9)], [F(2), F(4)], [F(1), F(4)]],
        "Uniform": [[F(0), F(1)], [F(0), F(2)], [F(-1), F(1)], [F(0), F(1)]],
        "DistExp": [[F(2)], [F(3)], [F(2)], [F(1, 2)]],
        "Laplace": [[F(1), F(2)], [F(1), F(3)], [F(0), F(2)]],
        "Gamma": [[F(2), F(3)], [F(2), F(1, 2)], [F(3), F(3)], [F(2), F(3)]],
        "Beta": [[F(2), F(3)], [F(2), F(3), F(4)], [F(3), F(2), F(5)], [F(3), F(2)], [F(2), F(3), F(1, 2)], [F(2), F(3), F(1)]],
        "Categorical": [[F(1, 2), F(1, 2)], [F(1, 4), F(3, 4)], [F(1, 4), F(1, 4), F(1, 2)], [F(1, 2), F(1, 2), F(0)]],
        "DiscreteUniform": [[F(0), F(3)], [F(0), F(4)], [F(1), F(3)], [F(0), F(3)]],
        "TruncNormal": [[F(0), F(1), F(-1), F(1)], [F(0), F(1), F(-2), F(2)], [F(1), F(1), F(-1), F(1)], [F(0), F(4), F(-1), F(1)]],
    }
    groups = [{"name": n, "objects": v} for n, v in fixed.items()]
    # a second Beta group in the opposite order (scaled first)
    groups.append({"name": "Beta", "objects": [[F(1), F(2), F(3)], [F(1), F(2)], [F(1, 2), F(3, 2), F(2)], [F(1, 2), F(3, 2)]]})
    extra = 1 if tier == "quick" else 6
    for _ in range(extra):
        for name in fixed:
            base = list(r.choice(fixed[name]))
            objs = [base]
            for j in range(len(base)):
                v = list(base)
                if name == "Categorical":
                    continue
                if name == "DiscreteUniform":
                    v[j] = v[j] + (r.randint(1, 3) if j == 1 else -r.randint(1, 3))
                elif name == "Bernoulli":
                    v[j] = F(r.randint(0, 6), 6)
                elif name == "TruncNormal":
                    v[j] = v[j] + (F(r.randint(1, 2)) if j == 3 else (-F(r.randint(1, 2)) if j == 2 else
                                   (F(r.randint(1, 2), 2) if j == 0 else 3 * v[j])))
                elif name == "Uniform":
                    v[j] = v[j] + (F(r.randint(1, 4), 2) if j == 1 else -F(r.randint(1, 4), 2))
                elif name in ("Normal", "Laplace") and j == 0:
                    v[j] = v[j] + F(r.randint(-4, 4), 2)
                else:
                    v[j] = v[j] * F(r.randint(2, 5), r.choice((1, 2, 3))) if v[j] != 0 else F(1)
                objs.append(v)
            if name == "Beta":
                objs.append(list(base[:2]) + [F(r.randint(2, 7), r.choice((1, 2)))])
            r.shuffle(objs)
            objs.append(list(objs[0]))
            groups.append({"name": name, "objects": objs})
    return groups


def pair_programs(tier):
    """end-to-end: two draws of the same family that differ in one parameter, in one program"""
    F = Fr
    pairs = [("Beta", [F(1), F(2)], [F(1), F(2), F(3)]), ("Beta", [F(2), F(3), F(4)], [F(2), F(3)]),
             ("Normal", [F(1), F(4)], [F(1), F(9)]), ("Gamma", [F(2), F(3)], [F(2), F(1, 2)])]
    if tier != "quick":
        pairs += [("Laplace", [F(1), F(2)], [F(1), F(3)]), ("Uniform", [F(0), F(1)], [F(0), F(2)]),
                  ("DistExp", [F(2)], [F(3)]), ("Normal", [F(0), F(2)], [F(3), F(2)]), ("Beta", [F(3), F(2), F(5)], [F(2), F(2), F(5)])]
    out = []
    for name, p1, p2 in pairs:
        def lit(v):
            return str(v.numerator) if v.denominator == 1 else fs(v)
        text = _prog(["d1 = 0", "d2 = 0", "z = 0"],
                     [f"d1 = {name}({', '.join(lit(v) for v in p1)})", f"d2 = {name}({', '.join(lit(v) for v in p2)})", "z = z + d1 + d2"])
        goals = [[["d1", k]] for k in (1, 2, 3)] + [[["d2", k]] for k in (1, 2, 3)] + [[["d1", 1], ["d2", 1]], [["d1", 2], ["d2", 1]], [["z", 1]]]
        out.append({"text": text, "name": name, "p1": p1, "p2": p2, "goals": goals,
                    "tag": f"pair-{name}({','.join(lit(v) for v in p1)})-({','.join(lit(v) for v in p2)})"})
    return out


# expected structure of a rewritten pair, from the original parameter values (the premises of the Lean theorems)
def expected_rewrite(name, values):
    """(new family, new params, c0, c1 or None, c1², lean locscale request)"""
    if name == "Normal":
        mu, s2 = values
        return ("Normal", [Fr(0), Fr(1)], mu, None, s2,
                {"op": "locscale", "kind": "normal_sq", "params": [fs(mu), fs(s2)]})
    if name == "Uniform":
        a, b = values
        return ("Uniform", [Fr(0), Fr(1)], a, b - a, (b - a) ** 2,
                {"op": "locscale", "kind": "uniform", "params": [fs(a), fs(b)]})
    if name == "Laplace":
        mu, b = values
        return ("Laplace", [Fr(0), b], mu, Fr(1), Fr(1),
                {"op": "locscale", "kind": "laplace", "params": [fs(mu), fs(b)]})
    if name == "DistExp":
        return None  # the split num/den of the rate is not unique; handled separately
    return None


# ------------------------------------------------------------------------------------------------
# the check
# ------------------------------------------------------------------------------------------------

def _fail(chk, rec, group=None):
    """a failing comparison is a violation (C08 has no known findings left: F6, F40-F43 were repaired in /repo);
    at most 3 are printed per (kind, family, observable), the rest are counted"""
    vkey = (rec.get("kind"), rec.get("name") or rec.get("family"), rec.get("which"))
    chk.viol_groups[vkey] = chk.viol_groups.get(vkey, 0) + 1
    if chk.viol_groups[vkey] <= 3:
        chk.violation(rec["what"], rec)
    else:
        chk.count("violations-not-printed(same kind and family, after the first 3)")
        chk.suppressed += 1
    return True


def _task_ok(chk, r, kind):
    if r is None or r.get("status") == "timeout":
        chk.count(f"timeout:{kind}")
        return False
    if r.get("status") != "ok":
        chk.count(f"harness-error:{kind}")
        chk.harness_errors.append({"kind": kind, "status": r.get("status"), "etype": r.get("etype"),
                                   "message": r.get("message"), "trace": (r.get("trace") or "")[-600:]})
        return False
    return True


def run(tier, only=None):
    chk = Check(PROP, tier)
    chk.harness_errors = []
    chk.viol_groups = {}
    chk.suppressed = 0
    lean_ok = lean_gate(chk, THEOREMS)
    if not lean_ok:
        return chk.finish(level="proof", rule="", trusted_base=TRUSTED)
    quick = tier == "quick"
    kmax = 8 if quick else 12
    ktr = 6 if quick else 10
    kpipe = 4 if quick else 5
    nmax = 3
    t_task = 60 if quick else 240
    r = rng(f"{PROP}-{tier}")
    sets = param_sets(tier, r)
    rcases = rewrite_cases(tier, r)

    # ---------------- phase 1: Lean side (specification, model of the code, supports) -------------
    reqs = []
    for c in sets:
        c["i_spec"] = c["i_impl"] = c["i_supp"] = None
        if c["name"] != "TruncNormal":
            c["i_spec"] = len(reqs)
            reqs.append(spec_request(c["name"], c["values"], kmax))
        if c["name"] in IMPL_FAMILIES:
            c["i_impl"] = len(reqs)
            reqs.append({"op": "distimpl", "family": LEAN_FAMILY[c["name"]], "params": [fs(v) for v in c["values"]], "kmax": kmax})
        ts = true_support(c["name"], c["values"])
        probe = ts[1] if ts[0] == "points" else [x for x in ts[1:] if x is not None] + \
            ([(ts[1] + ts[2]) / 2] if ts[1] is not None and ts[2] is not None else [])
        c["true_support"] = ts
        c["probe"] = probe
        c["i_supp"] = len(reqs)
        reqs.append({"op": "distsupport", "family": LEAN_FAMILY[c["name"]], "params": [fs(v) for v in c["values"]],
                     "probe": [fs(x) for x in probe]})
    # specification moments needed by the rewriting / pipeline cases
    mix_index = {}
    for rc in rcases:
        for n in range(1, nmax + 1):
            for w, vals in rc["mix"](n):
                key = (rc["name"], tuple(vals))
                if key not in mix_index and rc["name"] != "TruncNormal":
                    mix_index[key] = len(reqs)
                    reqs.append(spec_request(rc["name"], list(vals), max(kpipe, kmax)))
    hgroups = history_groups(tier, r)
    pprogs = pair_programs(tier)
    for g in hgroups:
        for vals in g["objects"]:
            key = (g["name"], tuple(vals))
            if key not in mix_index and g["name"] != "TruncNormal":
                mix_index[key] = len(reqs)
                reqs.append(spec_request(g["name"], list(vals), max(kpipe, kmax)))
    for pp in pprogs:
        for vals in (pp["p1"], pp["p2"]):
            key = (pp["name"], tuple(vals))
            if key not in mix_index:
                mix_index[key] = len(reqs)
                reqs.append(spec_request(pp["name"], list(vals), max(kpipe, kmax)))
    answers = model_batch(reqs)
    model_fail = [(q, a) for q, a in zip(reqs, answers) if not a.get("ok")]
    # DiscreteUniform etc. are always admissible here, so every request must be answered
    chk.obligation("model:all-specification-requests-answered", not model_fail,
                   {"requests": len(reqs), "failed": [[q, a.get("error")] for q, a in model_fail[:5]]})

    def spec_of(name, vals):
        a = answers[mix_index[(name, tuple(vals))]]
        return [Fr(x) for x in a["moments"]]

    # ---------------- phase 2: worker tasks ---------------------------------------------------------
    tasks, meta = [], []

    def add_task(kind, ref, fn, args, timeout=None):
        t = {"fn": f"harness.tasks.c08:{fn}" if ":" not in fn else fn, "args": args}
        if timeout:
            t["timeout"] = timeout
        tasks.append(t)
        meta.append((kind, ref))

    tr_budget = {}
    for i, c in enumerate(sets):
        add_task("moments", i, "moments", {"name": c["name"], "params": c["params"], "kmax": kmax, "point": c["point"]}, t_task)
        # transforms: a bounded number of parameter sets per family (the first ones are the fixed corner cases)
        lim = 5 if quick else 16
        if tr_budget.get(c["name"], 0) < lim and not (c["name"] == "TruncNormal" and c["params"][1] == "2"):
            tr_budget[c["name"]] = tr_budget.get(c["name"], 0) + 1
            for which in ("mgf", "cf"):
                add_task("transform", (i, which), "transforms",
                         {"name": c["name"], "params": c["params"], "kmax": ktr, "which": which, "point": c["point"],
                          "numeric": c["name"] == "TruncNormal"}, t_task)
            if c["style"] != "symbolic":
                add_task("mgf_exists", i, "mgf_exists", {"name": c["name"], "params": c["params"], "ts": mgf_points(c)}, 30)
    subs_cases = [
        ("Uniform", ["a", "b"], {"a": "0", "b": "1"}, [Fr(0), Fr(1)]),
        ("DistExp", ["l"], {"l": "2"}, [Fr(2)]),
        ("Categorical", ["p", "1 - p"], {"p": "1/4"}, [Fr(1, 4), Fr(3, 4)]),
        ("Bernoulli", ["p"], {"p": "1/4"}, [Fr(1, 4)]),
        ("Normal", ["m", "s"], {"m": "-1/2", "s": "3"}, [Fr(-1, 2), Fr(3)]),
        ("Laplace", ["m", "b"], {"m": "2", "b": "1/3"}, [Fr(2), Fr(1, 3)]),
        ("Gamma", ["k", "th"], {"k": "5/2", "th": "2"}, [Fr(5, 2), Fr(2)]),
        ("Beta", ["a", "b", "sc"], {"a": "2", "b": "1/2", "sc": "3"}, [Fr(2), Fr(1, 2), Fr(3)]),
        ("Uniform", ["a", "a + w"], {"a": "-1", "w": "4"}, [Fr(-1), Fr(3)]),
    ]
    for j, (name, ps, point, vals) in enumerate(subs_cases):
        add_task("subs", j, "subs_consistency", {"name": name, "params": ps, "point": point, "ks": [1, 2, 3]}, 30)
    for j, rc in enumerate(rcases):
        if rc["valuations"]:
            add_task("rewrite", j, "dist_transform", {"text": rc["text"], "valuations": rc["valuations"]}, 60)
        add_task("pipeline", j, "harness.tasks.analyze:analyze",
                 {"text": rc["text"], "goals": [[[rc["target"], k]] for k in range(1, kpipe + 1)],
                  "subs": rc["point"], "nmax": nmax}, 150 if quick else 400)
    khist = 4 if quick else 6
    for j, g in enumerate(hgroups):
        add_task("history", j, "history",
                 {"objects": [{"name": g["name"], "params": [fs(v) if v.denominator != 1 else str(v.numerator) for v in vals]}
                              for vals in g["objects"]], "kmax": khist}, t_task)
    for j, pp in enumerate(pprogs):
        add_task("pair", j, "harness.tasks.analyze:analyze", {"text": pp["text"], "goals": pp["goals"], "nmax": 2},
                 150 if quick else 400)
    tcases = trig_cases()
    for j, tc in enumerate(tcases):
        add_task("trig", j, "harness.tasks.analyze:analyze", {"text": tc["text"], "goals": tc["goals"], "nmax": 1},
                 150 if quick else 400)
    results = run_tasks(tasks, timeout=t_task, progress=100)

    # ---------------- phase 3: evaluation --------------------------------------------------------------
    by_family = {}
    trunc_repairs = []          # (set index, failing ks, records) → second round
    trunc_models = []
    n_cmp = {"moments": 0, "impl": 0, "support": 0, "transform": 0, "mgf_exists": 0, "rewrite": 0, "pipeline": 0,
             "subs": 0, "at0": 0, "history": 0}
    for (kind, ref), res in zip(meta, results):
        if not _task_ok(chk, res, kind):
            continue
        out = res["result"]
        if kind == "moments":
            c = sets[ref]
            eval_moments(chk, c, out, answers, kmax, n_cmp, by_family, trunc_repairs, trunc_models)
        elif kind == "transform":
            i, which = ref
            eval_transform(chk, sets[i], which, out, answers, ktr, n_cmp)
        elif kind == "mgf_exists":
            eval_mgf_exists(chk, sets[ref], out, n_cmp)
        elif kind == "subs":
            eval_subs(chk, subs_cases[ref], out, n_cmp)
        elif kind == "rewrite":
            eval_rewrite(chk, rcases[ref], out, spec_of, kmax, n_cmp)
        elif kind == "pipeline":
            eval_pipeline(chk, rcases[ref], out, spec_of, kpipe, nmax, n_cmp)
        elif kind == "trig":
            eval_trig(chk, tcases[ref], out, n_cmp)
        elif kind == "history":
            eval_history(chk, hgroups[ref], out, spec_of, n_cmp)
        elif kind == "pair":
            eval_pair(chk, pprogs[ref], out, spec_of, n_cmp)

    # TruncNormal: attribution round (in-memory repair) and Lean model of the recursion
    eval_truncnormal_round2(chk, sets, trunc_repairs, trunc_models, kmax, t_task)
    # oracle for the specification recurrences of the continuous families
    eval_spec_oracle(chk, sets, answers, 6 if quick else 10, quick)

    chk.evaluations = sum(n_cmp.values())
    chk.count("parameter-sets", len(sets))
    for k, v in n_cmp.items():
        chk.count("compared:" + k, v)
    chk.obligation("correspondence:moments-vs-specification", n_cmp["moments"] > 0,
                   {"compared": n_cmp["moments"], "by_family": by_family})
    chk.obligation("correspondence:code-vs-model-of-code(distimpl)", n_cmp["impl"] > 0, {"compared": n_cmp["impl"]})
    chk.obligation("correspondence:support-and-discreteness", n_cmp["support"] > 0, {"compared": n_cmp["support"]})
    chk.obligation("correspondence:mgf-cf-derivatives-at-0", n_cmp["transform"] > 0, {"compared": n_cmp["transform"]})
    chk.obligation("correspondence:mgf_exists_at", n_cmp["mgf_exists"] > 0, {"compared": n_cmp["mgf_exists"]})
    chk.obligation("correspondence:DistTransformer-structure-and-moments", n_cmp["rewrite"] > 0, {"compared": n_cmp["rewrite"]})
    chk.obligation("correspondence:pipeline-moments-of-parametrised-draws", n_cmp["pipeline"] > 0, {"compared": n_cmp["pipeline"]})
    chk.obligation("correspondence:history-sensitivity(several objects of one family in one process, two orders)",
                   n_cmp["history"] > 0, {"compared": n_cmp["history"], "groups": len(hgroups)})
    if chk.harness_errors:
        chk.coverage["harness_errors"] = chk.harness_errors[:10]
    chk.assumptions = [
        "orders k = 0..%d (moments), 0..%d (transforms), 1..%d at n = 0..%d (pipeline)" % (kmax, ktr, kpipe, nmax),
        "symbolic parameters are compared at rational points",
        "TruncNormal is compared with 60-digit quadrature, relative tolerance 1e-30 (no rational moments exist); note: "
        "get_moment returns the 50-digit decimal of the moment as a rational and the solver still flags results "
        "built from it as exact — inherent in the class's documented disclaimer, recorded here, not a finding",
        "Normal/Laplace/Gamma/Beta with symbolic parameters and TruncNormal with irrational sigma are refused by "
        "get_moment (TypeError / EvaluationException); refusals are counted, not judged",
    ]
    code = chk.finish(
        level="proof",
        rule="a case is one comparison (family, parameter set, observable, order k / point t / iteration n); it is "
             "non-trivial iff it is a moment or pipeline value of order k >= 2 resp. n >= 1, a transform derivative of "
             "order >= 1, an mgf_exists_at verdict, a support comparison or a rewritten pair; distinct by these keys",
        trusted_base=TRUSTED)
    if code == 0 and chk.harness_errors:
        # nothing was refuted, but part of the machinery failed (worker exception / crash): not a verdict
        for h in chk.harness_errors[:5]:
            print("harness error:", h, file=sys.stderr)
        return 2
    return code


def mgf_points(c):
    name, v = c["name"], c["values"]
    if name == "DistExp":
        lam = v[0]
        return [fs(x) for x in (Fr(0), lam / 2, -lam - 3, lam, lam + Fr(1, 1000), lam + 5, lam - Fr(1, 1000))]
    if name == "Gamma":
        th = v[1]
        b = 1 / th
        return [fs(x) for x in (Fr(0), b / 2, -b - 3, b, b + Fr(1, 1000), b + 5, b - Fr(1, 1000))]
    if name == "Laplace":
        b = 1 / v[1]
        return [fs(x) for x in (Fr(0), b / 2, -b / 2, b, -b, b + 1, -b - 1, b - Fr(1, 1000), -b + Fr(1, 1000))]
    return [fs(x) for x in (Fr(0), Fr(1), Fr(-7, 2), Fr(25))]


def mgf_expected(c, t):
    name, v, t = c["name"], c["values"], Fr(t)
    if name == "DistExp":
        return t < v[0]
    if name == "Gamma":
        return t < 1 / v[1]
    if name == "Laplace":
        return abs(t) < 1 / v[1]
    return True


def _case_id(c):
    return {"name": c["name"], "params": c["params"], "point": c["point"]}


def eval_moments(chk, c, out, answers, kmax, n_cmp, by_family, trunc_repairs, trunc_models):
    name = c["name"]
    fam = by_family.setdefault(name, {"sets": 0, "agree": 0, "refused": 0, "mismatch": 0})
    fam["sets"] += 1
    if "construct_error" in out:
        chk.count(f"refused-construct:{name}:{out['construct_error']['etype']}")
        fam["refused"] += 1
        return
    # stored parameters: float literals must have become the exact rationals of the literal
    stored = out.get("stored_params", [])
    exp_stored = [fs(v) for v in c["values"]]
    if name == "Beta" and len(exp_stored) == 2:
        exp_stored.append("1/1")
    got_stored = [canon(s[1]) if s[0] == "q" else None for s in stored]
    n_cmp["moments"] += 1
    if got_stored != exp_stored:
        _fail(chk, {"kind": "parameters", **_case_id(c), "expected": exp_stored, "actual": stored,
                    "what": f"{name}({', '.join(c['params'])}): stored parameters {stored} != {exp_stored}",
                    "task": {"fn": "moments", "args": {"name": name, "params": c["params"], "kmax": 0, "point": c["point"]}}})
    # support / discreteness
    eval_support(chk, c, out, answers, n_cmp)
    items = out["items"]
    if name == "TruncNormal":
        ok_items = [it for it in items if it["tag"] == "q"]
        if not ok_items:
            et = items[0].get("err", {}).get("etype", "?") if items else "?"
            chk.count(f"refused-get_moment:{name}:{et}")
            fam["refused"] += 1
            return
        truth = mp_truth_truncnormal(c["values"], [it["k"] for it in ok_items])
        bad = []
        for it in ok_items:
            n_cmp["moments"] += 1
            tv = mp_to_fr(truth[it["k"]])
            e = rel_err(Fr(it["val"]), tv)
            if e > TRUNC_TOL:
                bad.append({"k": it["k"], "actual": it["val"], "truth": fs(tv), "rel_err": float(e)})
            else:
                fam["agree"] += 1
                chk.nontrivial.add(("m", name, tuple(c["params"]), it["k"]))
        trunc_models.append((c, {it["k"]: mp_to_fr(truth[it["k"]]) for it in ok_items}))
        if bad:
            fam["mismatch"] += len(bad)
            trunc_repairs.append((c, bad))
        chk.sample({"family": name, "params": c["params"], "k": ok_items[-1]["k"], "code": ok_items[-1]["val"],
                    "quadrature": str(truth[ok_items[-1]["k"]])[:40]}, limit=8)
        return
    spec = [Fr(x) for x in answers[c["i_spec"]]["moments"]] if answers[c["i_spec"]].get("ok") else None
    impl = None
    if c["i_impl"] is not None and answers[c["i_impl"]].get("ok"):
        impl = [None if x is None else Fr(x) for x in answers[c["i_impl"]]["moments"]]
    if spec is None:
        chk.count("model-no-spec:" + name)
        return
    later = [it for it in items if it["k"] >= 1]
    if later and all(it["tag"] == "error" for it in later):
        chk.count(f"refused-get_moment:{name}:{c['style']}:{later[0]['err']['etype']}")
        fam["refused"] += 1
        return
    for it in items:
        k = it["k"]
        n_cmp["moments"] += 1
        if it["tag"] != "q":
            if it["tag"] == "error":
                chk.count(f"refused-get_moment:{name}:{c['style']}:{it['err']['etype']}")
                fam["refused"] += 1
                continue
            fam["mismatch"] += 1
            _fail(chk, {"kind": "moment", **_case_id(c), "k": k, "expected": fs(spec[k]), "actual": [it["tag"], it["val"]],
                        "values": [fs(v) for v in c["values"]],
                        "what": f"{name}({', '.join(c['params'])}).get_moment({k}) = {it['tag']} {it['val']}, true moment {fs(spec[k])}",
                        "task": {"fn": "moments", "args": {"name": name, "params": c["params"], "kmax": kmax, "point": c["point"]}}})
            continue
        got = Fr(it["val"])
        if impl is not None and impl[k] is not None:
            n_cmp["impl"] += 1
            if got != impl[k]:
                chk.count("model-of-code-differs:" + name)
                chk.obligation(f"model:distimpl-mirrors-{name}.get_moment", False,
                               {"params": c["params"], "k": k, "code": it["val"], "model": fs(impl[k])})
        if got == spec[k]:
            fam["agree"] += 1
            if k >= 2:
                chk.nontrivial.add(("m", name, tuple(c["params"]), json.dumps(c["point"], sort_keys=True), k))
        else:
            fam["mismatch"] += 1
            others_ok = all(Fr(o["val"]) == spec[o["k"]] for o in items if o["tag"] == "q" and o["k"] != k)
            _fail(chk, {"kind": "moment", **_case_id(c), "k": k, "expected": fs(spec[k]), "actual": fs(got),
                        "values": [fs(v) for v in c["values"]], "other_orders_agree": others_ok,
                        "what": f"{name}({', '.join(c['params'])}).get_moment({k}) = {fs(got)}, true moment {fs(spec[k])}",
                        "task": {"fn": "moments", "args": {"name": name, "params": c["params"], "kmax": kmax, "point": c["point"]}}})
    if c["style"] != "rational" or name in ("Gamma", "Beta", "Laplace"):
        chk.sample({"family": name, "params": c["params"], "point": c["point"],
                    "code": [it.get("val") for it in items[:5]], "spec": [fs(x) for x in spec[:5]]}, limit=8)


def eval_support(chk, c, out, answers, n_cmp):
    name = c["name"]
    if "support" not in out or "discrete" not in out:
        chk.count("support-error:" + name)
        return
    n_cmp["support"] += 1
    task = {"fn": "moments", "args": {"name": name, "params": c["params"], "kmax": 0, "point": c["point"]}}
    if out["discrete"] != (name in DISCRETE):
        _fail(chk, {"kind": "discrete", **_case_id(c), "expected": name in DISCRETE, "actual": out["discrete"],
                    "what": f"{name}.is_discrete() = {out['discrete']}", "task": task})
    # canonical form of the code's support
    pts, ivs, bad = [], [], []
    for it in out["support"]:
        if "point" in it:
            if it["point"][0] == "q":
                pts.append(Fr(it["point"][1]))
            else:
                bad.append(it)
        else:
            lo, hi = it["lo"], it["hi"]
            lo_v = None if lo == ["inf", "-oo"] else (Fr(lo[1]) if lo[0] == "q" else "bad")
            hi_v = None if hi == ["inf", "oo"] else (Fr(hi[1]) if hi[0] == "q" else "bad")
            if lo_v == "bad" or hi_v == "bad":
                bad.append(it)
            else:
                ivs.append((lo_v, hi_v))
    if bad:
        _fail(chk, {"kind": "support", **_case_id(c), "expected": "rational bounds", "actual": bad,
                    "what": f"{name}({', '.join(c['params'])}).get_support() has non-rational items {bad}", "task": task})
        return

    def contains(x):
        return x in pts or any((lo is None or lo <= x) and (hi is None or x <= hi) for lo, hi in ivs)

    ts = c["true_support"]
    missing = [fs(x) for x in c["probe"] if not contains(x)]
    if ts[0] == "interval":
        # the whole interval must be covered by one declared interval
        lo, hi = ts[1], ts[2]
        if not any((l2 is None or (lo is not None and l2 <= lo)) and (h2 is None or (hi is not None and hi <= h2))
                   for l2, h2 in ivs):
            missing.append("interval")
    if missing:
        _fail(chk, {"kind": "support", **_case_id(c), "expected": "contains " + str(missing), "actual": out["support"],
                    "what": f"{name}({', '.join(c['params'])}).get_support() = {out['support']} misses {missing}", "task": task})
    # correspondence with the Lean model of get_support
    a = answers[c["i_supp"]]
    if a.get("ok"):
        m_pts = sorted(Fr(x["point"]) for x in a["support"] if "point" in x)
        m_ivs = sorted(((None if x["lo"] is None else Fr(x["lo"])), (None if x["hi"] is None else Fr(x["hi"])))
                       for x in a["support"] if "lo" in x) if any("lo" in x for x in a["support"]) else []
        same = sorted(pts) == m_pts and sorted(ivs, key=str) == sorted(m_ivs, key=str) and a["discrete"] == out["discrete"]
        if not same:
            chk.count("model-of-code-differs:support:" + name)
            chk.obligation(f"model:supportImpl-mirrors-{name}.get_support", False,
                           {"params": c["params"], "code": out["support"], "model": a["support"]})
        if not all(a["contains"]):
            chk.obligation("model:supportImpl-contains-true-support", False, {"params": c["params"], "family": name})
    chk.nontrivial.add(("s", name, tuple(c["params"])))


def eval_transform(chk, c, which, out, answers, ktr, n_cmp):
    name = c["name"]
    if out.get("not_implemented"):
        chk.count(f"transform-not-implemented:{name}.{which}")
        return
    if "construct_error" in out or "transform_error" in out:
        e = out.get("construct_error") or out.get("transform_error")
        chk.count(f"transform-refused:{name}.{which}:{e['etype']}")
        return
    task = {"fn": "transforms", "args": {"name": name, "params": c["params"], "kmax": ktr, "which": which,
                                         "point": c["point"], "numeric": name == "TruncNormal"}}
    if name == "TruncNormal":
        try:
            truth = mp_truth_truncnormal(c["values"], range(ktr + 1))
        except Exception:  # noqa
            chk.count("oracle-failed:TruncNormal")
            return
        for it in out["items"]:
            if it.get("tag") != "num":
                chk.count(f"transform-undetermined:{name}.{which}")
                continue
            n_cmp["transform"] += 1
            tv = mp_to_fr(truth[it["k"]])
            e = rel_err(Fr(it["val"]), tv)
            im = abs(Fr(it.get("imag", "0")))
            if e > Fr(1, 10 ** 25) or im > Fr(1, 10 ** 25):
                _fail(chk, {"kind": "transform", **_case_id(c), "which": which, "k": it["k"], "expected": fs(tv),
                            "actual": it["val"], "what": f"{name}({', '.join(c['params'])}).{which}: derivative {it['k']} at 0 "
                            f"= {it['val'][:30]} (imag {it.get('imag')}), moment by quadrature {float(tv)!r}", "task": task})
            else:
                chk.nontrivial.add(("t", name, tuple(c["params"]), which, it["k"]))
        return
    if not answers[c["i_spec"]].get("ok"):
        return
    spec = [Fr(x) for x in answers[c["i_spec"]]["moments"]]
    # value reported at t = 0 itself
    at0 = out.get("at0")
    if at0 is not None:
        n_cmp["at0"] += 1
        if at0[0] != "q" or Fr(at0[1]) != 1:
            s0 = next((it for it in out["items"] if it["k"] == 0), None)
            _fail(chk, {"kind": "transform-at0", **_case_id(c), "which": which, "expected": "1/1", "actual": at0,
                        "limit_value": (s0 or {}).get("val"), "limit_method": (s0 or {}).get("method"),
                        "what": f"{name}({', '.join(c['params'])}).{which}(0) = {at0[1]} (must be 1)", "task": task})
    for it in out["items"]:
        k = it["k"]
        if it.get("tag") != "q":
            chk.count(f"transform-undetermined:{name}.{which}:{it.get('tag')}")
            continue
        n_cmp["transform"] += 1
        chk.count("transform-method:" + str(it.get("method")))
        if Fr(it["val"]) != spec[k]:
            _fail(chk, {"kind": "transform", **_case_id(c), "which": which, "k": k, "expected": fs(spec[k]),
                        "actual": canon(it["val"]), "method": it.get("method"),
                        "what": f"{name}({', '.join(c['params'])}).{which}: derivative {k} at 0 "
                                f"{'/ i^k ' if which == 'cf' else ''}= {canon(it['val'])}, true moment {fs(spec[k])}",
                        "task": task})
        elif k >= 1:
            chk.nontrivial.add(("t", name, tuple(c["params"]), which, k))


def eval_mgf_exists(chk, c, out, n_cmp):
    name = c["name"]
    if "construct_error" in out:
        return
    for it in out["items"]:
        if it.get("type") == "NotImplementedError":
            chk.count(f"mgf_exists-not-implemented:{name}")
            continue
        if it.get("exists") is None:
            chk.count(f"mgf_exists-error:{name}")
            continue
        n_cmp["mgf_exists"] += 1
        exp = mgf_expected(c, it["t"])
        if bool(it["exists"]) != exp:
            _fail(chk, {"kind": "mgf_exists", **_case_id(c), "t": it["t"], "expected": exp, "actual": it["exists"],
                        "what": f"{name}({', '.join(c['params'])}).mgf_exists_at({it['t']}) = {it['exists']}, expected {exp}",
                        "task": {"fn": "mgf_exists", "args": {"name": name, "params": c["params"], "ts": [it["t"]]}}})
        else:
            chk.nontrivial.add(("e", name, tuple(c["params"]), it["t"]))


def eval_subs(chk, sc, out, n_cmp):
    name, ps, point, vals = sc
    if "construct_error" in out or "error" in out:
        chk.count("subs-error:" + name)
        return
    a = model_batch([spec_request(name, vals, 4)])[0]
    spec = [Fr(x) for x in a["moments"]] if a.get("ok") else None
    for it in out["items"]:
        n_cmp["subs"] += 1
        fresh, cached = it["fresh"], it["after_cached"]
        task = {"fn": "subs_consistency", "args": {"name": name, "params": ps, "point": point, "ks": [it["k"]]}}
        if spec is not None and (fresh[0] != "q" or Fr(fresh[1]) != spec[it["k"]]):
            _fail(chk, {"kind": "subs-fresh", "name": name, "params": ps, "point": point, "k": it["k"],
                        "expected": fs(spec[it["k"]]), "actual": fresh,
                        "what": f"{name}({', '.join(ps)}) after subs({point}): get_moment({it['k']}) = {fresh[1]}, "
                                f"true moment {fs(spec[it['k']])}", "task": task})
            continue
        if cached != fresh:
            _fail(chk, {"kind": "subs", "name": name, "params": ps, "point": point, "k": it["k"], "expected": fresh,
                        "actual": cached,
                        "what": f"{name}({', '.join(ps)}): get_moment({it['k']}) → subs({point}) → get_moment({it['k']}) "
                                f"returns the stale {cached[1]} instead of {fresh[1]}", "task": task})
        else:
            chk.nontrivial.add(("subs", name, it["k"]))


def eval_rewrite(chk, rc, out, spec_of, kmax, n_cmp):
    name = rc["name"]
    task = {"fn": "dist_transform", "args": {"text": rc["text"], "valuations": rc["valuations"]}}
    if "error" in out:
        chk.count(f"rewrite-refused:{rc['tag']}:{out['error']['etype']}")
        return
    pairs = [p for p in out.get("pairs", []) if p["target"] == rc["target"]]
    if len(pairs) != 1:
        _fail(chk, {"kind": "rewrite", "text": rc["text"], "expected": "one rewritten pair", "actual": out.get("after"),
                    "what": f"DistTransformer did not rewrite `{rc['tag']}` into a fresh draw and a polynomial: {out.get('after')}",
                    "task": task})
        return
    p = pairs[0]
    lean_reqs, lean_meta = [], []
    for at in p["at"]:
        if "error" in at:
            chk.count("rewrite-coefficients-error")
            continue
        val = {k: Fr(v) for k, v in at["valuation"].items()}
        # original parameter values at this valuation, through the case's parameter function
        orig = _orig_params(rc, val)
        if orig is None:
            continue
        if at["degree"] > 1 or at["c0"][0] != "q" or at["c1sq"][0] != "q" or any(x[0] != "q" for x in at["new_params"]):
            _fail(chk, {"kind": "rewrite", "text": rc["text"], "valuation": at["valuation"], "expected": "affine in the fresh draw",
                        "actual": at, "what": f"rewritten assignment of `{rc['tag']}` is not c0 + c1·t with rational c0, c1²: {p['poly']}",
                        "task": task})
            continue
        c0, c1sq = Fr(at["c0"][1]), Fr(at["c1sq"][1])
        c1 = Fr(at["c1"][1]) if at["c1"][0] == "q" else None
        new_params = [Fr(x[1]) for x in at["new_params"]]
        new_fam = LEAN_FAMILY.get({"Exponential": "DistExp"}.get(p["class"], p["class"]), p["class"])
        # (1) structural: the pair is an instance of the premises of the Lean theorem
        exp = expected_rewrite(name, orig)
        n_cmp["rewrite"] += 1
        structural_ok = True
        if exp is not None:
            e_fam, e_params, e_c0, e_c1, e_c1sq, _ = exp
            structural_ok = (new_fam == e_fam and new_params == e_params and c0 == e_c0 and c1sq == e_c1sq
                             and (e_c1 is None or c1 == e_c1) and at.get("c1_nonneg") is not False)
        else:  # Exponential(num/den) -> den * Exponential(num): c0 = 0, rate num / c1 = original rate
            structural_ok = (new_fam == "Exponential" and len(new_params) == 1 and c0 == 0 and c1 is not None
                             and c1 != 0 and new_params[0] / c1 == orig[0] and c1 > 0)
        # (2) numeric: moments of the rewritten form (generic binomial formula in Lean) = specification of the original
        if c1 is not None:
            lean_reqs.append({"op": "locscale_atom", "mu": fs(c0), "sigma": fs(c1), "family": new_fam,
                              "params": [fs(x) for x in new_params], "kmax": kmax})
        elif new_fam == "Normal" and new_params == [0, 1]:
            lean_reqs.append({"op": "locscale", "kind": "normal_sq", "params": [fs(c0), fs(c1sq)], "kmax": kmax})
        else:
            lean_reqs.append(None)
        lean_meta.append((at, orig, structural_ok, c0, c1, c1sq, new_fam, new_params))
    live = [q for q in lean_reqs if q is not None]
    ans = iter(model_batch(live)) if live else iter([])
    for q, (at, orig, structural_ok, c0, c1, c1sq, new_fam, new_params) in zip(lean_reqs, lean_meta):
        a = next(ans) if q is not None else None
        spec = spec_request(name, orig, kmax)
        sa = model_batch([spec])[0]
        moments_ok = None
        if a is not None and a.get("ok") and sa.get("ok"):
            moments_ok = [Fr(x) for x in a["moments"]] == [Fr(x) for x in sa["moments"]]
        if not structural_ok or moments_ok is False:
            _fail(chk, {"kind": "rewrite", "text": rc["text"], "valuation": at["valuation"], "family": name,
                        "original_params": [fs(x) for x in orig],
                        "expected": {"moments": sa.get("moments")},
                        "actual": {"new_family": new_fam, "new_params": [fs(x) for x in new_params], "c0": fs(c0),
                                   "c1": None if c1 is None else fs(c1), "c1sq": fs(c1sq),
                                   "moments": None if a is None else a.get("moments")},
                        "what": f"DistTransformer: `{name}({', '.join(fs(x) for x in orig)})` rewritten to "
                                f"{fs(c0)} + ({'sqrt ' + fs(c1sq) if c1 is None else fs(c1)})·{new_fam}({', '.join(fs(x) for x in new_params)}) "
                                f"does not have the moments of the original draw",
                        "task": task})
        else:
            chk.nontrivial.add(("r", rc["tag"], json.dumps(at["valuation"], sort_keys=True)))
            chk.sample({"rewrite": rc["tag"], "valuation": at["valuation"], "c0": fs(c0), "c1sq": fs(c1sq),
                        "new": [new_fam] + [fs(x) for x in new_params]}, limit=10)


def _orig_params(rc, val):
    """original parameter values of the draw at a valuation of the variables it mentions"""
    if rc["kind"] == "drift":
        return rc["pf"](val["x"])
    if rc["kind"] == "finite":
        return rc["pf"](val["u"])
    if rc["kind"] == "symbolic":
        return rc["pf"](val)
    return None


def eval_pipeline(chk, rc, out, spec_of, kpipe, nmax, n_cmp):
    name = rc["name"]
    args = {"text": rc["text"], "goals": [[[rc["target"], k]] for k in range(1, kpipe + 1)], "subs": rc["point"], "nmax": nmax}
    task = {"fn": "harness.tasks.analyze:analyze", "args": args}
    if not out.get("accepted"):
        e = out.get("error", {})
        chk.count(f"pipeline-refused:{rc['tag']}:{e.get('etype')}")
        return
    mism = []
    for g in out["goals"]:
        k = g["mono"][0][1]
        if not g.get("ok"):
            chk.count(f"pipeline-goal-refused:{rc['tag']}:{g.get('error', {}).get('etype')}")
            continue
        for n, v in enumerate(g["values"]):
            if n == 0:
                exp = Fr(0)
            else:
                exp = sum(w * spec_of(name, vals)[k] for w, vals in rc["mix"](n))
            if v[0] != "q":
                chk.count(f"pipeline-value-undetermined:{rc['tag']}:{v[0]}")
                continue
            n_cmp["pipeline"] += 1
            if Fr(v[1]) != exp:
                mism.append({"kind": "pipeline", "text": rc["text"], "goal": f"{rc['target']}^{k}", "k": k, "n": n,
                             "expected": fs(exp), "actual": canon(v[1]), "family": name, "point": rc["point"], "tag": rc["tag"],
                             "what": f"E({rc['target']}^{k})({n}) = {canon(v[1])} for `{rc['tag']}`, specification {fs(exp)}",
                             "task": task})
            elif n >= 1:
                chk.nontrivial.add(("p", rc["tag"], k, n))
    chk.count("pipeline-case:" + rc["kind"])
    for m in mism:
        # F43 (unexpanded factor in _reduce_powers) was repaired in /repo e1efeb4: any mismatch is a violation
        _fail(chk, m, group=rc["text"])


def eval_history(chk, g, out, spec_of, n_cmp):
    name = g["name"]
    if "construct_error" in out:
        chk.count(f"history-refused-construct:{name}")
        return
    task = {"fn": "history", "args": {"objects": out["objects"], "kmax": max(a["k"] for a in out["passes"][0]["answers"])}}
    truth = {}
    if name == "TruncNormal":
        kk = sorted({a["k"] for a in out["passes"][0]["answers"]})
        for i, vals in enumerate(g["objects"]):
            t = mp_truth_truncnormal(vals, kk)
            truth[i] = {k: mp_to_fr(t[k]) for k in kk}
    for ps in out["passes"]:
        for a in ps["answers"]:
            i, k = a["obj"], a["k"]
            vals = g["objects"][i]
            if a["tag"] != "q":
                chk.count(f"history-refused:{name}:{a.get('err', {}).get('etype', a['tag'])}")
                continue
            n_cmp["history"] += 1
            got = Fr(a["val"])
            if name == "TruncNormal":
                exp = truth[i][k]
                ok = rel_err(got, exp) <= TRUNC_TOL
            else:
                exp = spec_of(name, vals)[k]
                ok = got == exp
            if not ok:
                _fail(chk, {"kind": "history", "name": name, "objects": out["objects"], "pass": ps["order"], "obj": i, "k": k,
                            "expected": fs(exp), "actual": canon(a["val"]),
                            "what": f"{name}({', '.join(out['objects'][i]['params'])}).get_moment({k}) = {canon(a['val'])} "
                                    f"(true {fs(exp)}) when {len(out['objects'])} {name} objects "
                                    f"[{'; '.join(','.join(o['params']) for o in out['objects'])}] live in one process, pass {ps['order']}",
                            "task": task})
            elif k >= 1:
                chk.nontrivial.add(("h", name, tuple(tuple(o["params"]) for o in out["objects"]), ps["order"], i, k))
        # supports of the individual objects
        for i, sp in enumerate(ps["supports"]):
            ts = true_support(name, g["objects"][i])
            if isinstance(sp, dict) or ts[0] != "interval":
                continue
            n_cmp["history"] += 1
            want = [{"lo": ["inf", "-oo"] if ts[1] is None else ["q", fs(ts[1])], "hi": ["inf", "oo"] if ts[2] is None else ["q", fs(ts[2])]}]
            got = [{"lo": [x["lo"][0], canon(x["lo"][1]) if x["lo"][0] == "q" else x["lo"][1]],
                    "hi": [x["hi"][0], canon(x["hi"][1]) if x["hi"][0] == "q" else x["hi"][1]]} for x in sp if "lo" in x]
            if got != want:
                _fail(chk, {"kind": "history-support", "name": name, "objects": out["objects"], "obj": i, "expected": want,
                            "actual": sp, "what": f"{name}({', '.join(out['objects'][i]['params'])}).get_support() = {sp}, expected {want} "
                                                  f"(several {name} objects in one process)", "task": task})


def eval_pair(chk, pp, out, spec_of, n_cmp):
    name = pp["name"]
    task = {"fn": "harness.tasks.analyze:analyze", "args": {"text": pp["text"], "goals": pp["goals"], "nmax": 2}}
    if not out.get("accepted"):
        chk.count(f"pipeline-refused:{pp['tag']}:{out.get('error', {}).get('etype')}")
        return
    m1, m2 = spec_of(name, pp["p1"]), spec_of(name, pp["p2"])
    for g in out["goals"]:
        mono = {v: k for v, k in g["mono"]}
        goal = "*".join(f"{v}^{k}" for v, k in g["mono"])
        if not g.get("ok"):
            chk.count(f"pipeline-goal-refused:{pp['tag']}:{g.get('error', {}).get('etype')}")
            continue
        for n, v in enumerate(g["values"]):
            if "z" in mono:
                exp = n * (m1[1] + m2[1])
            elif n == 0:
                exp = Fr(0)
            else:
                exp = m1[mono.get("d1", 0)] * m2[mono.get("d2", 0)]
            if v[0] != "q":
                chk.count(f"pipeline-value-undetermined:{pp['tag']}:{v[0]}")
                continue
            n_cmp["pipeline"] += 1
            if Fr(v[1]) != exp:
                _fail(chk, {"kind": "pipeline", "text": pp["text"], "goal": goal.replace("^1", "^1"), "k": 0, "n": n, "expected": fs(exp),
                            "actual": canon(v[1]), "family": name, "point": None, "tag": pp["tag"], "mono": g["mono"],
                            "what": f"E({goal})({n}) = {canon(v[1])} for `{pp['tag']}`, specification {fs(exp)}", "task": task},
                      group=pp["text"])
            elif n >= 1:
                chk.nontrivial.add(("pair", pp["tag"], goal, n))
    chk.count("pipeline-case:pair")


def eval_trig(chk, tc, out, n_cmp):
    args = {"text": tc["text"], "goals": tc["goals"], "nmax": 1}
    task = {"fn": "harness.tasks.analyze:analyze", "args": args}
    if not out.get("accepted"):
        chk.count(f"pipeline-refused:{tc['tag']}:{out.get('error', {}).get('etype')}")
        return
    for g, exp in zip(out["goals"], tc["expected"]):
        goal = "*".join(f"{v}^{k}" for v, k in g["mono"])
        if not g.get("ok"):
            # cf(0) of a finite draw must be available since /repo 2c880c9: a refusal here is the old defect
            _fail(chk, {"kind": "pipeline-trig", "text": tc["text"], "goal": goal, "n": 1, "expected": str(exp)[:30],
                        "actual": g.get("error"), "family": "DiscreteUniform", "tag": tc["tag"],
                        "what": f"E({goal}) for `{tc['tag']}` is refused: {g.get('error', {}).get('etype')} in "
                                f"{g.get('error', {}).get('func')} (cf(0) of the draw?)", "task": task}, group=tc["text"])
            continue
        v = g["values"][1]
        n_cmp["pipeline"] += 1
        tv = mp_to_fr(exp, 30)
        if v[0] != "q" or abs(Fr(v[1]) - tv) > Fr(1, 10 ** 15):
            _fail(chk, {"kind": "pipeline-trig", "text": tc["text"], "goal": goal, "n": 1, "expected": fs(tv),
                        "actual": v, "family": "DiscreteUniform", "tag": tc["tag"],
                        "what": f"E({goal})(1) = {v[1][:40]} for `{tc['tag']}`, expected {float(tv)!r}", "task": task},
                  group=tc["text"])
        else:
            chk.nontrivial.add(("trig", tc["tag"], goal))


def eval_truncnormal_round2(chk, sets, trunc_repairs, trunc_models, kmax, t_task):
    """(a) out-of-tolerance TruncNormal moments are violations; (b) the Lean model of the code's recursion
    (`truncrec`, φ/Φ as 60-digit inputs) against the quadrature"""
    import mpmath as mp
    for c, bad in trunc_repairs:
        for b in sorted(bad, key=lambda x: -x["rel_err"]):
            _fail(chk, {"kind": "moment", **_case_id(c), "k": b["k"], "expected": b["truth"], "actual": canon(b["actual"]),
                        "rel_err": b["rel_err"], "values": [fs(v) for v in c["values"]],
                        "what": f"TruncNormal({', '.join(c['params'])}).get_moment({b['k']}) = {float(Fr(b['actual']))!r}, "
                                f"true moment {float(Fr(b['truth']))!r} (relative error {b['rel_err']:.2e} > 1e-30)",
                        "task": {"fn": "moments", "args": {"name": "TruncNormal", "params": c["params"], "kmax": b["k"],
                                                           "point": None, "ks": [b["k"]]}}})
    # (b)
    reqs, metas = [], []
    mp.mp.dps = 70
    for c, truth in trunc_models:
        mu, s2, a, b = c["values"]
        sg = _sqrt_fr(s2)
        if sg is None:
            continue
        al, be = (a - mu) / sg, (b - mu) / sg
        mal, mbe = mp.mpf(al.numerator) / al.denominator, mp.mpf(be.numerator) / be.denominator
        pa, pb = mp.npdf(mal), mp.npdf(mbe)
        dp = mp.quad(mp.npdf, sorted({mal, mbe, min(max(mp.mpf(0), mal), mbe)}))
        reqs.append({"op": "truncrec", "params": [fs(mu), fs(s2), fs(sg), fs(a), fs(b), fs(mp_to_fr(pa, 60)),
                                                  fs(mp_to_fr(pb, 60)), fs(mp_to_fr(dp, 60))], "kmax": kmax})
        metas.append((c, truth))
    worst = Fr(0)
    n = 0
    for (c, truth), a in zip(metas, model_batch(reqs) if reqs else []):
        if not a.get("ok"):
            continue
        for k, tv in truth.items():
            n += 1
            worst = max(worst, rel_err(Fr(a["moments"][k]), tv))
    if n:
        chk.obligation("spec:truncNormalRec(Lean, 60-digit phi/Phi) = quadrature of the truncated density",
                       worst < Fr(1, 10 ** 20), {"compared": n, "worst_rel_err": float(worst)})


def _sqrt_fr(x):
    from math import isqrt
    x = Fr(x)
    if x < 0:
        return None
    n, d = isqrt(x.numerator), isqrt(x.denominator)
    return Fr(n, d) if n * n == x.numerator and d * d == x.denominator else None


def eval_spec_oracle(chk, sets, answers, kor, quick):
    """the specification recurrences of the continuous families against quadrature of the textbook density"""
    seen = {}
    worst = {}
    for c in sets:
        name = c["name"]
        if name in DISCRETE or name == "TruncNormal" or c["i_spec"] is None or not answers[c["i_spec"]].get("ok"):
            continue
        if seen.get(name, 0) >= (3 if quick else 8):
            continue
        seen[name] = seen.get(name, 0) + 1
        spec = [Fr(x) for x in answers[c["i_spec"]]["moments"]]
        for k in range(0, min(kor, len(spec) - 1) + 1):
            try:
                tv = mp_to_fr(mp_truth_density(name, c["values"], k), 28)
            except Exception:  # noqa
                chk.count("oracle-failed:" + name)
                continue
            e = rel_err(spec[k], tv)
            worst[name] = max(worst.get(name, Fr(0)), e)
    chk.obligation("spec:textbook recurrences (momentSpec) = quadrature of the density, continuous families",
                   bool(worst) and all(e < Fr(1, 10 ** 15) for e in worst.values()),
                   {name: float(e) for name, e in worst.items()})


# ------------------------------------------------------------------------------------------------
# replay
# ------------------------------------------------------------------------------------------------

def replay(path):
    with open(os.path.join(ROOT, path) if not os.path.isabs(path) else path) as fh:
        blob = json.load(fh)
    task = blob.get("task")
    if not task:
        print("replay file names no task:", blob.get("what"))
        print(f"VIOLATION property={PROP} replay={path} no-failing-input-found")
        return 1
    fn = task["fn"] if ":" in task["fn"] else "harness.tasks.c08:" + task["fn"]
    res = run_tasks([{"fn": fn, "args": task["args"]}], timeout=600)[0]
    print("input:", json.dumps(task["args"])[:600])
    print("expected:", json.dumps(blob.get("expected"))[:400])
    if res.get("status") != "ok":
        print("task status:", res.get("status"), res.get("message"))
        return 2
    out = res["result"]
    kind = blob.get("kind")
    still = None
    if kind == "moment":
        it = next((x for x in out["items"] if x["k"] == blob["k"]), None)
        print("actual:", it)
        if it is not None and it.get("tag") == "q":
            if blob["name"] == "TruncNormal":
                still = rel_err(Fr(it["val"]), Fr(blob["expected"])) > TRUNC_TOL
            else:
                still = Fr(it["val"]) != Fr(blob["expected"])
        else:
            still = True
    elif kind == "transform":
        it = next((x for x in out["items"] if x["k"] == blob["k"]), None)
        print("actual:", it)
        still = it is None or it.get("tag") not in ("q", "num") or \
            rel_err(Fr(it["val"]), Fr(blob["expected"])) > (Fr(0) if it.get("tag") == "q" else Fr(1, 10 ** 25))
    elif kind == "transform-at0":
        print("actual:", out.get("at0"))
        still = out.get("at0") is None or out["at0"][0] != "q" or Fr(out["at0"][1]) != 1
    elif kind == "mgf_exists":
        print("actual:", out["items"])
        still = any(x.get("exists") != blob["expected"] for x in out["items"])
    elif kind == "subs":
        print("actual:", out.get("items"))
        still = any(x["after_cached"] != x["fresh"] for x in out.get("items", []))
    elif kind == "pipeline-trig":
        g = next((x for x in out.get("goals", []) if "*".join(f"{v}^{k}" for v, k in x["mono"]) == blob["goal"]), None)
        v = g["values"][1] if g and g.get("ok") else None
        print("actual:", v if v else (g or {}).get("error"))
        try:
            still = v is None or v[0] != "q" or abs(Fr(v[1]) - Fr(blob["expected"])) > Fr(1, 10 ** 15)
        except Exception:  # noqa
            still = True
    elif kind == "pipeline":
        g = next((x for x in out.get("goals", []) if "*".join(f"{v}^{k}" for v, k in x["mono"]) == blob["goal"]), None)
        v = g["values"][blob["n"]] if g and g.get("ok") else None
        print("actual:", v)
        still = v is None or v[0] != "q" or Fr(v[1]) != Fr(blob["expected"])
    elif kind == "history":
        ps = next((x for x in out.get("passes", []) if x["order"] == blob["pass"]), None)
        a = next((x for x in (ps or {}).get("answers", []) if x["obj"] == blob["obj"] and x["k"] == blob["k"]), None)
        print("actual:", a)
        if a is None or a.get("tag") != "q":
            still = True
        elif blob["name"] == "TruncNormal":
            still = rel_err(Fr(a["val"]), Fr(blob["expected"])) > TRUNC_TOL
        else:
            still = Fr(a["val"]) != Fr(blob["expected"])
    else:
        print("actual:", json.dumps(out)[:1500])
        still = True
    if still:
        print(f"VIOLATION property={PROP} replay={path}")
        return 1
    print("not reproduced")
    return 0
