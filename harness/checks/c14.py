"""C14 — synthesised invariants and solvable loops agree with the unsolvable loop.

Decision: Lean theorems (PolarProofs/Synth.lean: the one-step operator of the polynomial fragment is
the conditional expectation of the reference semantics; any (Q, k, R) satisfying the polynomial identity
yields the recurrence; the summation formula; the assembled linear system has E(Q) as first component;
loop equivalence from equal closure matrices) + correspondence on the real synthesis code:

  for every pair (Q, f) returned by UnsolvInvSynthesizer.synth_inv (k = 1 and symbolic k, exactly the two
  calls of the CLI action) and by SolvLoopSynthesizer.synth_loop:
    (i)  oracle: E(Q(state_n)), n = 0..N, under the Lean reference semantics (op `moments`) of the *source*
         program at a seeded rational point, against f(n) — exact rationals;
    (ii) certificate: op `synth_check` — the identity oneStep(Q) = k·Q + R with the solver's own k, R, the
         closure of R's monomials (R is effective), and `cfiniteCheck` of f against the assembled linear system
         (agreement on the window ⇒ agreement for every n, `cfiniteCheck_sound`);
  for every synthesised loop: moments of the retained variables and of the fresh variable under the reference
  semantics of the synthesised program against the source's moments of the corresponding polynomials
  (oracle), and op `synth_loop_check` (equal closure matrices and initial vectors ⇒ equal for every n).
"""
import json
import os
from fractions import Fraction as Fr

from .. import hast as H
from .. import c14gen
from ..common import Check, lean_gate, ROOT, REPO, model_batch_parallel, rng, seed as global_seed
from ..oracle import compare_values
from ..pool import run_tasks
from ..findings import attribute
from ..theorems import THEOREMS as _T

PROP = "C14"
THEOREMS = _T.get(PROP, [])

TRUSTED = [
    "Lean 4.33 kernel; axioms propext, Classical.choice, Quot.sound only",
    "compiled polar-model agrees with the kernel semantics of the same definitions",
    "Polar/Sem.lean reference semantics (oracle); its agreement with the fragment semantics of Polar/Synth.lean is "
    "measured at run time (one-step polynomials computed both ways), not proved",
    "harness: generator + pretty-printer, conversion of Polar's parsed Program objects to the model AST, "
    "sympy exact evaluation of the returned closed forms at integer n and their term-shape extraction",
    "continuous draws enter through their textbook raw moments (Polar/Dist.lean)",
]

SUITE = [  # (file under tests/unsolvable_benchmarks, degrees quick, degrees thorough)
    ("deg-5.prob", [1], [1, 2]),
    ("fibonaccitrace.prob", [3], [1, 2, 3]),
    ("genfibonaccitrace.prob", [3], [2, 3]),
    ("markov-triples-random.prob", [3], [1, 2, 3]),
    ("markov-triples-toggle.prob", [3], [2, 3]),
    ("nagata.prob", [2], [1, 2]),
    ("non-lin-markov-1.prob", [1, 2], [1, 2]),
    ("solvable-2dwalk.prob", [1], [1]),
    ("squares.prob", [1, 2], [1, 2, 3]),
]
BENCH_QUICK = [
    ("benchmarks/defective/squares-plus.prob", [1]), ("benchmarks/defective/squares-and-cube.prob", [1]),
    ("benchmarks/defective/intro1.prob", [1]), ("benchmarks/defective/intro2.prob", [1]),
    ("benchmarks/defective/prob-squares.prob", [1]), ("benchmarks/defective/pts.prob", [2]),
    ("benchmarks/defective/non-lin-markov-2.prob", [1]), ("benchmarks/defective/deg-9.prob", [1]),
    ("benchmarks/defective/squares-squared.prob", [1]), ("benchmarks/fibtrace/fib8.prob", [2]),
    ("benchmarks/schreuder_ong_2019/ex2.prob", [1]),
    ("benchmarks/sensitivity/some_defective/diff_effective.prob", [1]),
    ("benchmarks/sensitivity/some_defective/diff_effective_2.prob", [1]),
    ("benchmarks/sensitivity/some_defective/diff_effective_4.prob", [1]),
]
BENCH_THOROUGH = BENCH_QUICK + [
    ("benchmarks/defective/fib1.prob", [2, 3]), ("benchmarks/defective/fib2.prob", [2, 3]),
    ("benchmarks/defective/fib3.prob", [2, 3]), ("benchmarks/fibtrace/fib6.prob", [2]),
    ("benchmarks/fibtrace/fib7.prob", [2]), ("benchmarks/fibtrace/fib8.prob", [3]),
    ("benchmarks/defective/squares-plus.prob", [2]), ("benchmarks/defective/squares-and-cube.prob", [2]),
    ("benchmarks/defective/intro1.prob", [2]), ("benchmarks/defective/intro2.prob", [2]),
    ("benchmarks/defective/prob-squares.prob", [2]), ("benchmarks/defective/pts.prob", [1, 3]),
    ("benchmarks/defective/non-lin-markov-2.prob", [2]), ("benchmarks/defective/squares-squared.prob", [2]),
    ("benchmarks/defective/yagzhev9.prob", [1]), ("benchmarks/defective/yagzhev11.prob", [1]),
    ("benchmarks/schreuder_ong_2019/ex2.prob", [2]),
    ("benchmarks/sensitivity/some_defective/diff_effective.prob", [2]),
    ("benchmarks/sensitivity/some_defective/diff_effective_2.prob", [2]),
    ("benchmarks/sensitivity/some_defective/diff_effective_3.prob", [1, 2]),
    ("benchmarks/sensitivity/some_defective/diff_effective_4.prob", [2]),
]


# minimal inputs of the recorded findings (witnesses of the Lean counterexample theorems
# c14_counterexample_initial_case / c14_counterexample_loop), replayed on the real code in every run
CORPUS = [
    ("corpus:F140-initial-case", "while true:\n    x = x + y**2 + z\n    y = y - y**2\n    z = 1\nend\n", 1),
    ("corpus:F141-random-walk-square",
     "z = 0\nwhile true:\n    z = z + 1 {1/2} z - 1\n    x = x + y**2 + z**2\n    y = y - y**2\nend\n", 1),
    # random, mutually dependent initial values and an invariant with a mixed monomial: E(x^a y^b)(0) is not the
    # product of the single-variable initial moments (n = 0 of the oracle comparison)
    ("corpus:dependent-init-choice",
     "x = 1 {1/2} 3\ny = 2*x\nwhile true:\n    x, y = x + x*y, y + x*y\nend\n", 2),
    ("corpus:dependent-init-duniform",
     "y = DiscreteUniform(0, 2)\nx = y**2 - y\nz = 0\nwhile true:\n    z = 1 - z\n    x = 2*x + y**2\n"
     "    y = 2*y + 3*y**2\nend\n", 2),
    # k = 0 with an effective part polynomial in n (sympy leaves Sum(0**j ...) unevaluated)
    ("corpus:kzero-counter", "while true:\n    w = w + 1\n    x = y**2 + w\n    y = w - y**2\nend\n", 1),
    ("corpus:kzero-counter-sum",
     "while true:\n    w = w + 1\n    v = v + w\n    x = y**2 + v\n    y = 2*v - y**2\nend\n", 1),
    # the same defect on the `handle_solvable_loop` branch: y in {0, -1} is finite, every variable is effective
    ("corpus:F141-all-effective",
     "y = 0\nwhile true:\n    x, y = x + 3*y**2 + (1/2)*z + z**2, y + y**2 - 1\n    z = Normal(0, 4)\nend\n", 1),
    # gen-146 / gen-94 of the first thorough run (seed 0).  F140 behind a temporary, a probabilistic choice and a draw
    # that is read before it is assigned: at seed 0 the repaired value at n = 4 is 2668/99, one of the exact rationals
    # that sympy.nsimplify rewrites into a product of radicals (regression of the harness's own arithmetic) ...
    ("corpus:F140-read-before-draw",
     "x = 3\nwhile true:\n    t = y**2\n    x = x - t + 1/2 + 2*z {3/4} x - t + 3 + 2*z + z**2\n"
     "    y = y + 2*t + 1/2 + (1/2)*z + 2*z**2\n    z = Bernoulli(1/2)\nend\n", 1),
    # ... and F141 where the effective variable inside the non-linear monomial has a non-linear update itself: y is
    # finite-valued ({0, 1, -1/2}), hence never defective; the randomness sits in the initial block only
    ("corpus:F141-finite-nonlinear-carrier",
     "x = Bernoulli(1/3)\ny = 1 - x\nwhile true:\n    x = x/2 + y**2\n    y = y/2 - y**2\nend\n", 2),
]

# ------------------------------------------------------------------------------------------------
# helpers
# ------------------------------------------------------------------------------------------------

def subst_vars_json(node, values):
    """replace ["var", name] by ["num", value] for the named parameters"""
    if isinstance(node, list):
        if len(node) == 2 and node[0] == "var" and isinstance(node[1], str) and node[1] in values:
            return ["num", values[node[1]]]
        return [subst_vars_json(x, values) for x in node]
    if isinstance(node, dict):
        return {k: subst_vars_json(v, values) for k, v in node.items()}
    return node


def json_vars(node, acc):
    if isinstance(node, list):
        if len(node) == 2 and node[0] == "var" and isinstance(node[1], str):
            acc.add(node[1])
        elif len(node) >= 2 and node[0] == "assign" and isinstance(node[1], str):
            acc.add(node[1])
            for x in node[2:]:
                json_vars(x, acc)
        elif len(node) == 3 and node[0] == "simult":
            acc.update(node[1])
            json_vars(node[2], acc)
        else:
            for x in node:
                json_vars(x, acc)
    elif isinstance(node, dict):
        for v in node.values():
            json_vars(v, acc)
    return acc


def is_random(node):
    """does the program JSON contain a draw or a probabilistic choice?"""
    if isinstance(node, list):
        if node and node[0] in ("dist", "choice"):
            return True
        return any(is_random(x) for x in node)
    if isinstance(node, dict):
        return any(is_random(v) for v in node.values())
    return False


def poly_mul(a, b):
    """polynomials as {mono tuple: Fraction}; mono tuple = sorted ((var, exp), ...)"""
    out = {}
    for ma, ca in a.items():
        for mb, cb in b.items():
            d = dict(ma)
            for x, k in mb:
                d[x] = d.get(x, 0) + k
            m = tuple(sorted(d.items()))
            out[m] = out.get(m, Fr(0)) + ca * cb
    return {m: c for m, c in out.items() if c != 0}


def poly_from_terms(terms):
    out = {}
    for mono, c in terms:
        m = tuple(sorted((x, int(k)) for x, k in mono))
        out[m] = out.get(m, Fr(0)) + Fr(c)
    return {m: c for m, c in out.items() if c != 0}


def poly_pow(a, k):
    out = {(): Fr(1)}
    for _ in range(k):
        out = poly_mul(out, a)
    return out


def terms_of(poly):
    return [[[[x, k] for x, k in m], H.fr_str(c)] for m, c in sorted(poly.items())]


def expect_poly(poly, monos, values):
    """Σ c·E(m)(n) from the `moments` answer (values[i] = list over n for monos[i]); truncates to the
    shortest available sequence"""
    idx = {json.dumps(m): i for i, m in enumerate(monos)}
    nmin = min((len(v) for v in values), default=0)
    seq = []
    for n in range(nmin):
        s = Fr(0)
        for m, c in poly.items():
            mj = json.dumps([[x, k] for x, k in m])
            s += c * (Fr(values[idx[mj]][n]) if m else 1)
        seq.append(s)
    return seq


def monos_of(poly):
    return [[[x, k] for x, k in m] for m in sorted(poly) if m]


# ------------------------------------------------------------------------------------------------
# cases
# ------------------------------------------------------------------------------------------------

def build_cases(tier):
    quick = tier == "quick"
    cases = [{"id": cid, "kind": "corpus", "text": text, "inv_deg": d} for cid, text, d in CORPUS]
    for f, dq, dt in SUITE:
        for d in (dq if quick else dt):
            cases.append({"id": f"suite:{f}:{d}", "kind": "suite", "path": "tests/unsolvable_benchmarks/" + f,
                          "inv_deg": d})
    for f, ds in (BENCH_QUICK if quick else BENCH_THOROUGH):
        for d in ds:
            cases.append({"id": f"bench:{f}:{d}", "kind": "bench", "path": f, "inv_deg": d})
    r = rng(f"{PROP}-{tier}-gen")
    n_gen = 30 if quick else 300
    for i in range(n_gen):
        c = c14gen.generate(r, i)
        c["kind"] = "gen"
        c["text"] = H.program_str(c["program"])
        cases.append(c)
    only = os.environ.get("C14_ONLY")          # development aid: comma-separated prefixes of case ids
    if only:
        cases = [c for c in cases if any(c["id"].startswith(p) for p in only.split(","))]
    return cases


def make_tasks(cases, nmax, tier):
    tasks, meta = [], []
    s = global_seed()
    for ci, c in enumerate(cases):
        base = {"inv_deg": c["inv_deg"], "seed": s, "nmax": nmax}
        if c.get("path"):
            base["path"] = c["path"]
        else:
            base["text"] = c["text"]
        for mode in ("k1", "ksym"):
            if c["id"].startswith("suite:solvable"):
                continue
            tasks.append({"fn": "harness.tasks.c14:synth_inv", "args": dict(base, mode=mode)})
            meta.append((ci, mode))
        tasks.append({"fn": "harness.tasks.c14:synth_loop", "args": dict(base)})
        meta.append((ci, "loop"))
    return tasks, meta


def source_of(case, res):
    """(program json, variable names) of the *source* loop: the generator's AST when we generated the
    program, Polar's parsed Program converted by tasks/convert.py otherwise"""
    if case["kind"] == "gen":
        pj = H.program_json(case["program"])
    else:
        pj = res.get("source_program")
    if pj is None:
        return None, set()
    return pj, json_vars(pj, set())


def sigma_source(res_values, names, symbols):
    s = {}
    for x in names:
        if x in symbols:
            if x in res_values:
                s[x] = res_values[x]
        elif x + "0" in res_values:
            s[x] = res_values[x + "0"]
    return s


def model_answers(reqs, chk=None):
    """all requests in parallel with a hard time-out; `moments` requests whose exact law outgrows the time-out
    (high-degree updates with continuous draws) are retried with fewer iterations"""
    if not reqs:
        return []

    def batch(rs, timeout):
        import time
        for attempt in range(4):
            try:
                return model_batch_parallel(rs, timeout=timeout)
            except OSError:
                # the executable is being relinked by a concurrent `lake build` (other builders): wait and retry
                time.sleep(15)
        return model_batch_parallel(rs, timeout=timeout)
    answers = batch(reqs, 25)
    for nm in (3, 2, 1):
        idx = [i for i, (q, a) in enumerate(zip(reqs, answers))
               if q["op"] == "moments" and not a.get("ok") and a.get("error") == "oracle-timeout" and q["nmax"] > nm]
        if not idx:
            break
        retry = batch([dict(reqs[i], nmax=nm) for i in idx], 12)
        for i, a in zip(idx, retry):
            answers[i] = a
            if chk is not None and a.get("ok"):
                chk.count(f"oracle-window-reduced-to-n<={nm}")
    return answers


# ------------------------------------------------------------------------------------------------
# the run
# ------------------------------------------------------------------------------------------------

def run(tier):
    chk = Check(PROP, tier)
    lean_ok = lean_gate(chk, THEOREMS)
    quick = tier == "quick"
    nmax = 5
    timeout = 120 if quick else 600
    cases = build_cases(tier)
    tasks, meta = make_tasks(cases, nmax, tier)
    outs = run_tasks(tasks, timeout=timeout, progress=40) if lean_ok else []
    state = {"reqs": [], "slots": []}     # model requests and what to do with the answers
    records = []                           # one per (case, mode, solution | target)

    for (ci, mode), out in zip(meta, outs):
        case = cases[ci]
        chk.evaluations += 1
        tag = f"{case['kind']}:{mode}"
        if out["status"] == "timeout":
            chk.count("timeout:" + tag)
            continue
        if out["status"] != "ok":
            chk.count("harness-error")
            chk.obligation("harness:task", False, {"case": case["id"], "mode": mode, "out": out})
            continue
        res = out["result"]
        if not res["accepted"]:
            chk.count("refused:" + res["error"]["etype"])
            continue
        if res.get("synth_error"):
            chk.count(f"synth-exception:{res['synth_error']['etype']}@{res['synth_error']['func']}")
            continue
        if mode != "loop" and not res.get("applicable", True):
            chk.count("not-applicable(all effective)")
            continue
        pj, names = source_of(case, res)
        if pj is None:
            chk.count("source-unconvertible")
            continue
        symbols = set(res.get("symbols", []))
        sols = res.get("solutions", [])
        chk.count(f"calls:{tag}")
        chk.count(f"solutions:{tag}", len(sols))
        if mode != "loop" and res.get("none"):
            chk.count(f"no-invariant:{tag}")
        for si, sol in enumerate(sols):
            rec = {"case": case, "mode": mode, "si": si, "sol": sol, "kind": "inv", "res_info": {
                "effective": res.get("effective"), "defective": res.get("defective"),
                "candidate_vars": res.get("candidate_vars"), "is_probabilistic": res.get("is_probabilistic")},
                   "seed": global_seed()}
            records.append(rec)
            if sol.get("Q") is None:
                rec["status"] = "Q-not-polynomial"
                continue
            Q = poly_from_terms(sol["Q"])
            sig = sigma_source(sol["values"], names | {x for m in Q for x, _ in m}, symbols)
            rec["sigma0"] = sig
            rec["Qpoly"] = Q
            rec["monos"] = monos_of(Q)
            rec["source"] = pj
            state["reqs"].append({"op": "moments", "program": pj, "sigma0": sig, "monos": rec["monos"] or [[]],
                                  "nmax": nmax, "budget": 6000})
            state["slots"].append((rec, "oracle"))
            if sol.get("k") is not None and sol.get("R") is not None:
                pvals = {p: sol["values"][p] for p in symbols if p in sol["values"]}
                pj_c = subst_vars_json(pj, pvals) if pvals else pj
                req = {"op": "synth_check", "program": pj_c, "sigma0": sig, "Q": sol["Q"], "k": sol["k"],
                       "R": sol["R"], "nmax": nmax, "fuel": 200}
                sh = sol.get("f_shape") or {}
                if sh.get("terms") is not None:
                    req["f"] = {"terms": sh["terms"]}
                    if sh.get("D"):
                        req["f"]["D"] = sh["D"]
                state["reqs"].append(req)
                state["slots"].append((rec, "cert"))
        if mode == "loop":
            for ti, tg in enumerate(res.get("targets", [])):
                rec = {"case": case, "mode": mode, "ti": ti, "target": tg, "kind": "loop", "source": pj,
                       "res_info": {"effective": res.get("effective"), "defective": res.get("defective"),
                                    "is_probabilistic": res.get("is_probabilistic"),
                                    "n_invariants": res.get("n_invariants"),
                                    "finite_types": res.get("finite_types")}}
                records.append(rec)
                if tg.get("program") is None:
                    rec["status"] = "target-unconvertible"
                    continue
                plan_loop(rec, tg, pj, names, symbols, nmax, state)

    answers = model_answers(state["reqs"], chk)
    for (rec, what), ans in zip(state["slots"], answers):
        rec[what] = ans

    n_inv_ok = n_loop_ok = n_cert_all_n = 0
    for rec in records:
        if rec["kind"] == "inv":
            ok, alln = judge_inv(chk, rec, nmax)
            n_inv_ok += ok
            n_cert_all_n += alln
        else:
            n_loop_ok += judge_loop(chk, rec)

    chk.obligation("correspondence:invariants-oracle-and-certificate", lean_ok and n_inv_ok > 0 and
                   chk.counts.get("harness-error", 0) == 0 and n_cert_all_n > 0,
                   {"pairs_agree": n_inv_ok, "validated_for_all_n": n_cert_all_n})
    chk.obligation("correspondence:synthesised-loops", lean_ok and n_loop_ok > 0 and
                   chk.counts.get("loop-certificate:validated-for-all-n", 0) > 0,
                   {"loops_agree": n_loop_ok, "validated_for_all_n": chk.counts.get("loop-certificate:validated-for-all-n", 0)})
    chk.obligation("correspondence:fragment-semantics-vs-reference-semantics",
                   chk.counts.get("onestep:wp-vs-sem-disagree", 0) == 0 and chk.counts.get("onestep:wp-vs-sem-agree", 0) > 0,
                   {"agree": chk.counts.get("onestep:wp-vs-sem-agree", 0)})
    chk.assumptions = [
        f"oracle values compared at n = 0..{nmax} (fewer when the exact law outgrows the budget) at one seeded rational "
        "point of the initial values, parameters and free coefficients (`_u..`) per solution",
        "certificates are checked at that point too: parameters are substituted before the polynomial identity is decided",
        "only `while true` loops (the suite and the benchmarks have no other unsolvable loops)",
        "the nonlinsolve/linsolve search is modelled as 'any solution of the identity': completeness (finding all "
        "invariants) is not claimed",
        "synthesised loops are deterministic: all requested moments are compared when the source run is "
        "deterministic, first moments of retained variables and of the fresh variable otherwise",
    ]
    return chk.finish(
        level="proof",
        rule="suite (9 files) + /repo/benchmarks loops with defective variables + seeded generator (9 families); one "
             "evaluation per synthesis call; a returned pair (Q, f) is non-trivial iff E(Q)(n) is not constant in n "
             "or the effective part R is non-zero; distinct by (source, mode, Q)",
        trusted_base=TRUSTED)


# ------------------------------------------------------------------------------------------------
# invariants
# ------------------------------------------------------------------------------------------------

def inv_blob(rec, extra=None):
    c = rec["case"]
    b = {"case_id": c["id"], "path": c.get("path"), "text": c.get("text"), "inv_deg": c["inv_deg"],
         "mode": rec["mode"], "solution_index": rec.get("si"), "seed": global_seed(),
         "Q": rec["sol"].get("Q_str"), "f": rec["sol"].get("f_str"), "k": rec["sol"].get("k_str"),
         "R": rec["sol"].get("R_str"), "point": rec["sol"].get("values"),
         "how": "UnsolvInvSynthesizer.synth_inv(candidate_vars, inv_deg, normalize_program(parse(program))[, k=1]) "
                "(mode loop: SolvLoopSynthesizer.synth_loop); expected = E(Q(state_n)) under the Lean reference "
                "semantics of the source program (polar-model op=moments) at `point`; actual = f(n) at `point`"}
    if extra:
        b.update(extra)
    return b


def judge_inv(chk, rec, nmax):
    """returns (agree 0/1, validated-for-all-n 0/1)"""
    if rec.get("status"):
        chk.count("skipped:" + rec["status"])
        return 0, 0
    sol, o = rec["sol"], rec.get("oracle", {})
    if not o.get("ok"):
        chk.count("oracle-refused:" + str(o.get("error"))[:40])
        if os.environ.get("C14_DEBUG"):
            print("  oracle refused", rec["case"]["id"], rec["mode"], o.get("error"), flush=True)
        return 0, 0
    exact = expect_poly(rec["Qpoly"], rec["monos"] or [[]], o["values"])
    if len(exact) < nmax + 1:
        chk.count("oracle-truncated")
    exact_s = [H.fr_str(v) for v in exact]
    bad = compare_values([tuple(v) for v in sol["f_values"][:len(exact)]], exact_s)
    rec["exact"] = exact_s
    key = json.dumps([rec["case"]["id"], rec["mode"], sol.get("Q")])
    cert = rec.get("cert")
    alln = 0
    if bad:
        n, kind, pv, ov = bad[0]
        rec["mismatch"] = {"n": n, "kind": kind, "polar": pv, "oracle": ov}
        fid = attribute(PROP, rec)
        if fid:
            chk.known(fid[0], fid[1])
        else:
            chk.violation(f"E({sol['Q_str'][:80]}) at n={n}: closed form gives {pv}, exact {ov} ({kind}) "
                          f"[{rec['case']['id']} {rec['mode']}]",
                          inv_blob(rec, {"n": n, "expected": ov, "actual": pv, "exact_sequence": exact_s,
                                         "f_values": sol["f_values"]}))
        return 0, 0
    # oracle agrees on the window; now the certificate
    if cert is None:
        chk.count("certificate:unavailable(no k,R captured)")
    elif not cert.get("ok"):
        chk.count("certificate:outside-model:" + str(cert.get("error"))[:50])
    else:
        chk.count("certificate:mode-" + cert["mode"])
        if cert.get("onestep_agree") is True:
            chk.count("onestep:wp-vs-sem-agree")
        elif cert.get("onestep_agree") is False:
            chk.count("onestep:wp-vs-sem-disagree")
            chk.obligation("correspondence:wp-vs-sem", False, inv_blob(rec))
        problems = []
        if not cert["identity"]:
            problems.append("identity oneStep(Q) = k·Q + R fails, residual " + json.dumps(cert["residual"])[:200])
        elif not cert.get("closed"):
            problems.append("R is not effective: " + str(cert.get("why")))
        elif not cert.get("system_ok"):
            problems.append("assembled system rejected by checkSystem")
        else:
            u = cert["u"][:len(exact)]
            if [Fr(x) for x in u] != exact[:len(u)]:
                # model-internal: the linear system disagrees with the reference semantics
                chk.count("certificate:system-vs-oracle-disagree")
                chk.obligation("correspondence:system-vs-reference-semantics", False, inv_blob(rec, {"u": u, "exact": exact_s}))
            cf = cert.get("cf")
            if cf is None:
                chk.count("certificate:closed-form-shape-unavailable")
            elif not cf.get("ok"):
                chk.count("certificate:cfinite-error")
            elif cf["agree"]:
                alln = 1
                chk.count("certificate:validated-for-all-n")
            else:
                fb = cf["first_bad"]
                # is the value Lean computed from the extracted terms the value of f itself (sympy, exact)?
                ext = sol.get("f_values_ext") or []
                got = fb["got"] if not isinstance(fb["got"], list) else (fb["got"][0] if Fr(fb["got"][1]) == 0 else None)
                same = (fb["n"] < len(ext) and ext[fb["n"]][0] == "q" and got is not None
                        and Fr(ext[fb["n"]][1]) == Fr(got))
                if fb["n"] < len(exact) or not same:
                    # inside the window the oracle already agreed with f, or the term list does not evaluate to f:
                    # the harness's shape extraction is at fault, not the code
                    chk.count("certificate:term-shape-extraction-mismatch")
                    chk.obligation("harness:term-shape", False, inv_blob(rec, {"first_bad": fb, "f_shape": sol.get("f_shape")}))
                else:
                    problems.append(f"closed form leaves the linear system at n={fb['n']}: expected {fb['expected']} got {fb['got']}")
                    rec["cf_first_bad"] = fb
        if problems:
            rec["cert_problems"] = problems
            fb = rec.get("cf_first_bad")
            if fb is not None:
                # a disagreement beyond the oracle window: the certificate's value *is* E(Q)(n) (system_sound),
                # cross-checked against the reference semantics on the window above
                fid = attribute(PROP, rec)
                if fid:
                    chk.known(fid[0], fid[1])
                else:
                    chk.violation(f"E({sol['Q_str'][:80]}) at n={fb['n']}: closed form gives {fb['got']}, exact {fb['expected']} "
                                  f"(beyond the oracle window; linear-system certificate) [{rec['case']['id']} {rec['mode']}]",
                                  inv_blob(rec, {"n": fb["n"], "expected": fb["expected"], "actual": fb["got"],
                                                 "certificate": {k: cert.get(k) for k in ("A", "v", "elems")}}))
                return 0, 0
            # The certificate is a *sufficient* condition (an identity for all pre-states); Polar may use facts that
            # only hold on reachable states (finite types: z**2 -> z, constants), so a failed certificate next to
            # exact agreement on the window is inconclusive, not a disagreement with the definition.
            chk.count("certificate:inconclusive(" + problems[0].split(":")[0][:40] + ")")
    nontrivial = len(set(exact)) > 1 or bool(sol.get("R"))
    if nontrivial:
        chk.nontrivial.add(key)
    chk.count("pairs-agree:" + rec["case"]["kind"] + ":" + rec["mode"])
    chk.sample({"case": rec["case"]["id"], "mode": rec["mode"], "Q": sol["Q_str"][:200], "f": sol["f_str"][:200],
                "point": {k: v for k, v in sol["values"].items() if not k.startswith("_t")},
                "exact": exact_s, "all_n": bool(alln)}, limit=6)
    return 1, alln


# ------------------------------------------------------------------------------------------------
# synthesised loops
# ------------------------------------------------------------------------------------------------

def plan_loop(rec, tg, pj, names, symbols, nmax, state):
    vals = tg["values"]
    tvars = [v for v in tg["variables"]]
    phi = {y: poly_from_terms(t) for y, t in tg["phi"].items()}
    # only variables whose image lives in the source AST
    watch = [y for y in tg["retained"] if y in names]
    if tg.get("s_var") and tg["s_var"] in phi:
        watch.append(tg["s_var"])
    rec["watch"] = watch
    if not watch:
        rec["status"] = "nothing-to-compare"
        return
    tmonos = [[[y, 1]] for y in watch]
    rec["deterministic"] = not is_random(pj)
    if rec["deterministic"]:
        # a deterministic source has a point law: every moment must agree, degree 2 is compared
        for i, a in enumerate(watch):
            for b in watch[i:]:
                tmonos.append([[a, 2]] if a == b else sorted([[a, 1], [b, 1]]))
    rec["tmonos"] = tmonos
    images = []
    for m in tmonos:
        p = {(): Fr(1)}
        for y, k in m:
            p = poly_mul(p, poly_pow(phi[y], k))
        images.append(p)
    rec["images"] = images
    smonos, seen = [], set()
    for p in images:
        for m in monos_of(p):
            kx = json.dumps(m)
            if kx not in seen:
                seen.add(kx)
                smonos.append(m)
    rec["smonos"] = smonos
    src_names = set(names)
    for p in images:
        for m in p:
            src_names.update(x for x, _ in m)
    sig_s = sigma_source(vals, src_names, symbols)
    # the target reads `x0` symbols, free coefficients and parameters as never-assigned variables
    tnames = json_vars(tg["program"], set())
    sig_t = {x: vals[x] for x in tnames if x in vals}
    rec["sigma0"], rec["sigma0_target"] = sig_s, sig_t
    state["reqs"].append({"op": "moments", "program": pj, "sigma0": sig_s, "monos": smonos or [[]], "nmax": nmax,
                          "budget": 6000})
    state["slots"].append((rec, "oracle_source"))
    state["reqs"].append({"op": "moments", "program": tg["program"], "sigma0": sig_t, "monos": tmonos, "nmax": nmax})
    state["slots"].append((rec, "oracle_target"))
    pvals = {p: vals[p] for p in symbols if p in vals}
    uvals = {x: vals[x] for x in tnames if x in vals and x not in tvars}
    state["reqs"].append({"op": "synth_loop_check", "source": subst_vars_json(pj, pvals) if pvals else pj,
                          "target": subst_vars_json(tg["program"], uvals), "sigma0": sig_s, "sigma0_target": sig_t,
                          "phi": {y: terms_of(phi[y]) for y in phi}, "monos": tmonos, "nmax": nmax, "fuel": 200})
    state["slots"].append((rec, "cert"))


def loop_blob(rec, extra=None):
    c = rec["case"]
    b = {"case_id": c["id"], "path": c.get("path"), "text": c.get("text"), "inv_deg": c["inv_deg"], "mode": "loop",
         "target_index": rec.get("ti"), "seed": global_seed(), "synthesised_loop": rec["target"].get("text"),
         "phi": rec["target"].get("phi"), "point": rec["target"].get("values"),
         "how": "SolvLoopSynthesizer.synth_loop(candidate_vars, inv_deg, normalize_program(parse(program))); expected = "
                "E(phi(monomial)(state_n)) of the source, actual = the same monomial's moment in the synthesised loop, both "
                "under the Lean reference semantics (op=moments)"}
    if extra:
        b.update(extra)
    return b


def judge_loop(chk, rec):
    if rec.get("status"):
        chk.count("loop-skipped:" + rec["status"])
        return 0
    os_, ot = rec.get("oracle_source", {}), rec.get("oracle_target", {})
    if not os_.get("ok") or not ot.get("ok"):
        chk.count("loop-oracle-refused:" + str(os_.get("error") or ot.get("error"))[:40])
        return 0
    deterministic = rec["deterministic"]
    n_first = len(rec["watch"])
    bad = None
    compared = 0
    for i, (m, img) in enumerate(zip(rec["tmonos"], rec["images"])):
        if i >= n_first and not deterministic:
            break
        exact = expect_poly(img, rec["smonos"] or [[]], os_["values"])
        got = [Fr(x) for x in ot["values"][i]]
        compared += 1
        for n in range(min(len(exact), len(got))):
            if exact[n] != got[n]:
                bad = {"mono": m, "n": n, "expected": H.fr_str(exact[n]), "actual": H.fr_str(got[n]),
                       "exact_sequence": [H.fr_str(x) for x in exact], "loop_sequence": [H.fr_str(x) for x in got]}
                break
        if bad:
            break
    chk.count("loop-monomials-compared", compared)
    cert = rec.get("cert") or {}
    if bad:
        rec["mismatch"] = bad
        fid = attribute(PROP, rec)
        if fid:
            chk.known(fid[0], fid[1])
        else:
            chk.violation(f"synthesised loop: moment of {bad['mono']} at n={bad['n']} is {bad['actual']}, the source's "
                          f"E(phi) is {bad['expected']} [{rec['case']['id']} target {rec['ti']}]", loop_blob(rec, bad))
        return 0
    if not cert.get("ok"):
        chk.count("loop-certificate:outside-model:" + str(cert.get("error"))[:40])
    elif not cert.get("closed"):
        chk.count("loop-certificate:not-closed")
    else:
        first_ok = cert["target_system_ok"] and cert["init_equal"] and cert["source_system_ok"]
        if first_ok:
            chk.count("loop-certificate:validated-for-all-n")
        else:
            # sufficient condition only (see judge_inv): e.g. a variable sitting on a fixed point is replaced by its value
            chk.count("loop-certificate:inconclusive(identity not valid for all states)")
    chk.count("loops-agree:" + rec["case"]["kind"])
    if rec["target"].get("s_var"):
        chk.nontrivial.add(json.dumps([rec["case"]["id"], "loop", rec["ti"]]))
    chk.sample({"case": rec["case"]["id"], "mode": "loop", "synthesised_loop": rec["target"]["text"],
                "watched": rec["watch"], "deterministic_source": deterministic}, limit=8)
    return 1


# ------------------------------------------------------------------------------------------------
# replay
# ------------------------------------------------------------------------------------------------

def replay(path):
    with open(os.path.join(ROOT, path) if not os.path.isabs(path) else path) as fh:
        blob = json.load(fh)
    if "failed_obligations" in blob:
        print(json.dumps(blob, indent=1))
        return 1
    os.environ["VERIF_SEED"] = str(blob.get("seed", 0))
    case = {"id": blob["case_id"], "kind": "replay", "inv_deg": blob["inv_deg"], "path": blob.get("path"),
            "text": blob.get("text")}
    if not case["path"]:
        case.pop("path")
    args = {"inv_deg": case["inv_deg"], "seed": int(blob.get("seed", 0)), "nmax": 5}
    if case.get("path"):
        args["path"] = case["path"]
    else:
        args["text"] = case["text"]
    mode = blob["mode"]
    if mode == "loop":
        task = {"fn": "harness.tasks.c14:synth_loop", "args": args}
    else:
        task = {"fn": "harness.tasks.c14:synth_inv", "args": dict(args, mode=mode)}
    out = run_tasks([task], timeout=900)[0]
    if out["status"] != "ok":
        print("task:", out)
        return 2
    res = out["result"]
    chk = Check(PROP, "replay")

    def _report(what, blob_, no_input=False):      # a replay prints, it does not write new replay files
        chk.violations.append((what, path))
        print(f"VIOLATION property={PROP} replay={path}" + (" no-failing-input-found" if no_input else ""))
        print("  ->", what)
    chk.violation = _report
    pj = res.get("source_program")
    names = json_vars(pj, set()) if pj else set()
    symbols = set(res.get("symbols", []))
    state = {"reqs": [], "slots": []}
    records = []
    for si, sol in enumerate(res.get("solutions", [])):
        if sol.get("Q") is None:
            continue
        rec = {"case": case, "mode": mode, "si": si, "sol": sol, "kind": "inv", "res_info": {}}
        Q = poly_from_terms(sol["Q"])
        sig = sigma_source(sol["values"], names | {x for m in Q for x, _ in m}, symbols)
        rec.update(sigma0=sig, Qpoly=Q, monos=monos_of(Q), source=pj)
        state["reqs"].append({"op": "moments", "program": pj, "sigma0": sig, "monos": rec["monos"] or [[]], "nmax": 5,
                              "budget": 6000})
        state["slots"].append((rec, "oracle"))
        records.append(rec)
    if mode == "loop":
        for ti, tg in enumerate(res.get("targets", [])):
            rec = {"case": case, "mode": mode, "ti": ti, "target": tg, "kind": "loop", "source": pj,
                   "res_info": {"finite_types": res.get("finite_types")}}
            if tg.get("program") is None:
                continue
            plan_loop(rec, tg, pj, names, symbols, 5, state)
            records.append(rec)
    answers = model_answers(state["reqs"])
    for (rec, what), ans in zip(state["slots"], answers):
        rec[what] = ans
    # a replay reports the raw verdict; development aid: C14_REPLAY_ATTRIBUTE=1 sends the replayed failure through the
    # attribution functions of known_findings.json exactly as `run` does (KNOWN-FINDING instead of VIOLATION when
    # one of them recognises it)
    if not os.environ.get("C14_REPLAY_ATTRIBUTE"):
        import harness.findings as F
        F.load_known_findings = lambda: {"known": []}
    for rec in records:
        if rec["kind"] == "inv":
            rec.pop("cert", None)
            judge_inv(chk, rec, 5)
        else:
            judge_loop(chk, rec)
    print("violations on replay:", len(chk.violations))
    return 1 if chk.violations else 0
