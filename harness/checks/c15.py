"""C15 — Bayesian-network import and queries agree with the network's joint law.

Decision: Lean theorems about the model of /repo/bayesnet (table index, notation agreement, acceptance
soundness, the generated loop draws the joint law, ratio identity of the exact-inference query, closed form
and limit of the sampling-time counter) + correspondence on seeded BIF files:

  parse      BifParser().parse_file        ==  Lean `assembleNet`          (tables, parents, reject class)
  program    CodeGenerator.generate_code   --  its text, read by the reference semantics (op `dist`), has the
                                               law `joint` (spec) = `genLaw` (model); name mapping rule
  queries    the real CLI action           ==  E(X^k | ev) and 1/P(ev) by enumeration (`bn_query`), and the
                                               per-iteration moments of the model
"""
import glob
import json
import os
import re
from fractions import Fraction as Fr

from .. import c15gen as G
from .. import hast as H
from ..common import Check, lean_gate, ROOT, REPO, rng, model_batch_parallel, model_batch
from ..findings import attribute
from ..attrib_c15 import moments_agree, choice_literal_sums
from ..pool import run_tasks
from ..theorems import THEOREMS as _T

PROP = "C15"
THEOREMS = _T.get(PROP, [])

TRUSTED = [
    "Lean 4.33 kernel; axioms propext, Classical.choice, Quot.sound only",
    "Mathlib: Finset/List big operators, geometric sums, Filter.Tendsto for the limit statement",
    "compiled polar-model agrees with the kernel semantics of the same definitions",
    "harness: BIF generator/printer/reader, reader of the generated Polar text (harness/c15gen.py), exact decimal "
    "reading of printed floats, sympy exact evaluation of Polar's closed forms at integer n",
    "reference semantics of the loop language (Polar/Sem.lean, shared with C01) for the law of the generated text",
]

CLASS_MAP = {"table-row-sum": "row-sum", "entry-sum": "row-sum", "assert-property": "crash:AssertionError"}
NMAX = 3


# ------------------------------------------------------------------------------------------------
# canonical forms
# ------------------------------------------------------------------------------------------------

def canon_code_net(net):
    return [{"name": v["name"], "domain": list(v["domain"]), "parents": list(v["parents"]),
             "rows": [[x if x == "nan" else H.fr_str(Fr(x)) for x in row] for row in v["rows"]]} for v in net]


def canon_model_net(net):
    names = [v["name"] for v in net]
    return [{"name": v["name"], "domain": list(v["domain"]), "parents": [names[i] for i in v["parents"]],
             "rows": [[H.fr_str(Fr(x)) for x in row] for row in v["rows"]]} for v in net]


def net_by_name(net):
    return {v["name"]: {k: v[k] for k in ("domain", "parents", "rows")} for v in net}


def invalid_rows(net, tol=G.TOL):
    """rows of a dumped network that are not complete probability rows within the tolerance (the
    mathematical acceptance criterion, evaluated on what the code returned)"""
    bad = []
    doms = {v["name"]: v["domain"] for v in net}
    for v in net:
        want = 1
        for p in v["parents"]:
            want *= len(doms.get(p, []))
        if len(v["rows"]) != want:
            bad.append((v["name"], "row-count", len(v["rows"]), want))
        for r in v["rows"]:
            if "nan" in r:
                bad.append((v["name"], "unspecified-row", r))
            elif len(r) != len(v["domain"]) or abs(1 - sum(Fr(x) for x in r)) >= tol:
                bad.append((v["name"], "row", r))
    return bad


# ------------------------------------------------------------------------------------------------
# case construction
# ------------------------------------------------------------------------------------------------

def make_valid_case(rnd, idx, stream, inexact=0.0, reserved=False, nmax=6):
    spec = G.gen_network(rnd, nmax=nmax, reserved=reserved, inexact=inexact)
    ast = G.spec_to_ast(rnd, spec)
    case = {"id": f"{stream}-{idx}", "stream": stream, "text": G.ast_to_text(rnd, ast), "raw": G.ast_to_raw(ast),
            "notations": ast["notations"], "exact_rows": G.spec_all_exact(spec), "queries": [],
            "var_names": list(spec["names"]), "sizes": [len(d) for d in spec["domains"]],
            "nparents": [len(p) for p in spec["parents"]]}
    # a second text of the same conditional probability tables in other notations
    nots = []
    for v in range(len(spec["names"])):
        if spec["parents"][v]:
            nots.append(rnd.choice(["table", "entries", "default+entries"]))
        else:
            nots.append(rnd.choice(["table", "default"]))
    ast2 = G.spec_to_ast(rnd, spec, notations=nots)
    case["text2"] = G.ast_to_text(rnd, ast2)
    case["raw2"] = G.ast_to_raw(ast2)
    case["notations2"] = ast2["notations"]
    n = len(spec["names"])
    for kind in ("ei", "st"):
        t = rnd.randrange(n)
        ev = G.gen_evidence(rnd, spec, avoid=t if (kind == "ei" and n > 1 and rnd.random() < 0.85) else None)
        q = {"kind": kind, "evidence": [list(e) for e in ev]}
        if kind == "ei":
            k = rnd.choice([1, 1, 1, 2, 2, 3, 0] if rnd.random() < 0.5 else [1, 2, 3])
            q.update(target=spec["names"][t], k=k)
            tgt = spec["names"][t] + (f"**{k}" if (k != 1 or rnd.random() < 0.3) else "")
            q["query"] = tgt + rnd.choice([" | ", "|", " |  "]) + G.ev_str(rnd, ev)
        else:
            q["query"] = G.ev_str(rnd, ev)
        case["queries"].append(q)
    return case


def make_malformed_case(rnd, idx):
    for _ in range(50):
        spec = G.gen_network(rnd, nmin=2, nmax=5)
        ast = G.spec_to_ast(rnd, spec)
        nf = 2 if rnd.random() < 0.12 else 1
        faults = []
        for _ in range(nf):
            f = rnd.choice(G.FAULTS)
            if G.inject_fault(rnd, ast, f):
                faults.append(f)
        if faults:
            return {"id": f"mal-{idx}", "stream": "malformed", "faults": faults, "text": G.ast_to_text(rnd, ast),
                    "raw": G.ast_to_raw(ast)}
    raise RuntimeError("fault injection failed 50 times")


def make_syntax_case(rnd, idx):
    for _ in range(50):
        spec = G.gen_network(rnd, nmin=1, nmax=3)
        ast = G.spec_to_ast(rnd, spec)
        f = rnd.choice(G.SYNTAX_FAULTS)
        text = G.inject_syntax_fault(rnd, G.ast_to_text(None, ast), f)
        if text:
            return {"id": f"syn-{idx}", "stream": "syntax", "faults": [f], "text": text}
    raise RuntimeError("syntax fault injection failed")


def repo_file_cases(quick):
    files = sorted(glob.glob(os.path.join(REPO, "bayesnet/repo/*/*.bif")) +
                   glob.glob(os.path.join(REPO, "tests/bayesnet/*/*.bif")))
    out = []
    for f in files:
        size = os.path.getsize(f)
        if size > (400_000 if quick else 5_000_000):
            continue
        with open(f) as fh:
            text = fh.read()
        ast = G.read_bif(text)
        rel = os.path.relpath(f, REPO)
        c = {"id": "file-" + rel, "stream": "repo-file", "path_rel": rel, "text": text,
             "expect_reject": "/negative/" in f or not text.strip(), "queries": []}
        if ast is not None:
            c["raw"] = G.ast_to_raw(ast)
        out.append(c)
    return out


def repo_query_cases(rnd, cases, per_file):
    """queries on the small networks of the repository (joint ≤ 200k assignments)"""
    for c in cases:
        if "raw" not in c or c["expect_reject"]:
            continue
        vs = c["raw"]["vars"]
        if not all(len(v["types"]) == 1 for v in vs):
            continue
        size = 1
        for v in vs:
            size *= len(v["types"][0][1])
        if size > 200_000 or not ("/small/" in c["path_rel"] or "/testcases/" in c["path_rel"]):
            continue
        spec = {"names": [v["name"] for v in vs], "domains": [v["types"][0][1] for v in vs]}
        for j in range(per_file):
            kind = "ei" if j % 2 == 0 else "st"
            t = rnd.randrange(len(vs))
            ev = G.gen_evidence(rnd, spec, avoid=t, max_ev=2)
            q = {"kind": kind, "evidence": [list(e) for e in ev]}
            if kind == "ei":
                k = rnd.choice([1, 2, 3])
                q.update(target=spec["names"][t], k=k, query=f"{spec['names'][t]}**{k} | " + G.ev_str(rnd, ev))
            else:
                q["query"] = G.ev_str(rnd, ev)
            c["queries"].append(q)
        c["exact_rows"] = True
        c["var_names"] = spec["names"]


# ------------------------------------------------------------------------------------------------
# judges
# ------------------------------------------------------------------------------------------------

def judge_parse(case, code, model, text_key="text"):
    """code: outcome of tasks.c15:parse_bif; model: answer of bn_assemble.  -> (status, detail)"""
    if code.get("status") == "timeout":
        return "timeout", None
    if code.get("status") != "ok":
        return "harness-error", code
    code = code["result"]
    if not model.get("ok"):
        return "harness-error", model
    if code["accepted"] != model["accepted"]:
        return "accept-diff", {"code": code.get("class", "accepted"), "model": model.get("error", "accepted")}
    if not code["accepted"]:
        mc = CLASS_MAP.get(model["error"], model["error"])
        if mc != code["class"]:
            return "class-diff", {"code": code["class"], "model": mc, "message": code.get("message")}
        return "both-reject", mc
    if canon_code_net(code["net"]) != canon_model_net(model["net"]):
        return "net-diff", {"code": canon_code_net(code["net"]), "model": canon_model_net(model["net"])}
    if any(v.get("extra_keys") for v in code["net"]):
        return "net-diff", {"extra_keys": [v["extra_keys"] for v in code["net"]]}
    return "both-accept", None


def names_ok(code, model):
    """mapping[name] = sanitize(name) + digits, all distinct"""
    names = code.get("names") or {}
    want = dict(zip([v["name"] for v in model["net"]], model["names"]))
    if set(names) != set(want) or len(set(names.values())) != len(names):
        return False
    return all(re.fullmatch(re.escape(want[k]) + r"[0-9]*", names[k]) for k in names)


def law_requests(case, code, model):
    """requests comparing the law of the generated text with the joint table; None if not applicable"""
    if not code.get("code") or not model.get("accepted"):
        return None
    size = 1
    for v in model["net"]:
        size *= len(v["domain"])
    if size > 5000:
        return None
    prog = G.parse_generated(code["code"])
    order = [code["names"][v["name"]] for v in model["net"]]
    reqs = [dict(case["raw"], op="bn_joint"),
            {"op": "dist", "program": H.program_json(prog), "sigma0": {}, "vars": order, "n": 1}]
    if size <= 200:
        reqs.append({"op": "dist", "program": H.program_json(prog), "sigma0": {}, "vars": order, "n": 2})
    return reqs


def judge_law(case, answers):
    j = answers[0]
    if not j.get("ok"):
        return "harness-error", j
    joint = {tuple(a): Fr(p) for a, p in j["joint"] if Fr(p) != 0}
    gen = {tuple(a): Fr(p) for a, p in j["gen"] if Fr(p) != 0}
    out = []
    for d in answers[1:]:
        if not d.get("ok"):
            return "harness-error", d
        out.append({tuple(int(Fr(x)) for x in vals): Fr(w) for w, vals in d["dist"]})
    if any(o != gen for o in out):
        return "law-model-diff", {"gen": {str(k): str(v) for k, v in gen.items()},
                                  "text": [{str(k): str(v) for k, v in o.items()} for o in out]}
    if case.get("exact_rows") and gen != joint:
        return "law-spec-diff", {"joint": {str(k): str(v) for k, v in joint.items()},
                                 "gen": {str(k): str(v) for k, v in gen.items()}}
    return "law-agree", len(joint)


def query_request(case, q):
    r = dict(case["raw"], op="bn_query", evidence=q["evidence"], nmax=NMAX, nprog=0)
    size = 1
    for v in case["raw"]["vars"]:
        size *= len(v["types"][0][1]) if v["types"] else 1
    if size <= 16:
        r["nprog"] = 2
    if q["kind"] == "ei":
        r.update(target=q["target"], k=q["k"])
    return r


def _vals(tagged_list):
    return [Fr(t[1]) if t[0] == "q" else None for t in tagged_list]


def judge_query(case, q, code, model):
    """-> record with status agree | mismatch | refused | timeout | undefined | model-diff | harness-error"""
    rec = {"id": case["id"], "stream": case["stream"], "text": case["text"], "kind": q["kind"],
           "query": q["query"], "k": q.get("k"), "target": q.get("target"), "evidence": q["evidence"],
           "var_names": case.get("var_names", []), "nmax": NMAX, "exact_rows": bool(case.get("exact_rows"))}
    if code.get("status") == "timeout":
        rec["status"] = "timeout"
        return rec
    if code.get("status") != "ok" or not model.get("ok"):
        rec["status"] = "harness-error"
        rec["detail"] = {"code": code if code.get("status") != "ok" else None, "model": model}
        return rec
    code = code["result"]
    rec["code"] = {k: code.get(k) for k in ("ran", "error", "final", "final_str", "names",
                                            "code", "printed_line", "moment_values", "moment_forms")}
    exact = rec["exact_rows"]
    pev = Fr(model["pev"] if exact else model["gen_pev"])
    if q["kind"] == "ei":
        value = model["cond"] if exact else model["gen_cond"]
    else:
        value = model["inv_pev"] if exact else model["gen_inv_pev"]
    rec["spec"] = {"value": value, "pev": H.fr_str(pev), "which": "joint enumeration" if exact else
                   "model of the generated program (rows do not sum to exactly 1)",
                   "gen_num": model.get("gen_num"), "gen_den": model.get("gen_den"), "gen_count": model["gen_count"]}
    if not code.get("ran"):
        rec["status"] = "undefined" if pev == 0 else "refused"
        if not exact and "add up to more than 1" in str((code.get("error") or {}).get("message", "")) and \
                any(ex > 1 for _, ex, _ in choice_literal_sums(code.get("code"))):
            # a row within the tolerance whose first d-1 entries already exceed 1: the generated choice has a
            # negative remaining probability, Polar refuses it; nothing to compare
            rec["status"] = "undefined"
            rec["undefined_reason"] = "rows-within-tolerance:first-values-exceed-1"
        return rec
    # per-iteration moments: code vs model of the generated program
    ok = moments_agree(q["kind"], q.get("k"), code.get("moment_values"), rec["spec"], NMAX)
    if ok and q["kind"] == "st" and len(model.get("exp_count", [])) > 1:
        # the closed recurrence against the expectation computed from the program model itself
        ok = [Fr(x) for x in model["exp_count"]] == [Fr(x) for x in model["gen_count"]][:len(model["exp_count"])]
    rec["moments_ok"] = ok
    final = code.get("final") or ["none", ""]
    if pev == 0:
        # evidence of probability zero: E(X^k | ev) and 1/P(ev) are undefined
        rec["status"] = "undefined" if final[0] != "q" else "mismatch"
        return rec
    if final[0] == "q" and Fr(final[1]) == Fr(value):
        rec["status"] = "agree" if ok else "model-diff"
    else:
        rec["status"] = "mismatch"
    return rec


# ------------------------------------------------------------------------------------------------
# run
# ------------------------------------------------------------------------------------------------

def _parse_task(case, key="text", want_code=False, timeout=None):
    if case.get("path_rel"):
        t = {"fn": "harness.tasks.c15:parse_bif",
             "args": {"path": os.path.join(REPO, case["path_rel"]), "want_code": want_code}}
    else:
        t = {"fn": "harness.tasks.c15:parse_bif", "args": {"text": case[key], "want_code": want_code}}
    if timeout:
        t["timeout"] = timeout
    return t


def _query_task(case, q):
    a = {"kind": q["kind"], "query": q["query"], "nmax": NMAX}
    if case.get("path_rel"):
        a["path"] = os.path.join(REPO, case["path_rel"])
    else:
        a["text"] = case["text"]
    return {"fn": "harness.tasks.c15:run_query", "args": a}


def process(chk, cases, timeout):
    """runs every stream on the given cases; returns list of query records"""
    # ---- stage 1: parsing (all streams) -------------------------------------------------------
    ptasks, pidx = [], []
    for ci, c in enumerate(cases):
        ptasks.append(_parse_task(c, "text", want_code=c["stream"] != "syntax"))
        pidx.append((ci, "text"))
        if "text2" in c:
            ptasks.append(_parse_task(c, "text2"))
            pidx.append((ci, "text2"))
    pres = run_tasks(ptasks, timeout=timeout, progress=200)
    mreqs, midx = [], []
    for ci, c in enumerate(cases):
        if "raw" in c:
            mreqs.append(dict(c["raw"], op="bn_assemble"))
            midx.append((ci, "text"))
        if "raw2" in c:
            mreqs.append(dict(c["raw2"], op="bn_assemble"))
            midx.append((ci, "text2"))
    mres = dict(zip(midx, model_batch_parallel(mreqs)))
    pres = dict(zip(pidx, pres))
    parse_stat = {}
    law_jobs = []
    for ci, c in enumerate(cases):
        code = pres[(ci, "text")]
        chk.evaluations += 1
        if c["stream"] == "syntax" or "raw" not in c:
            # no structural model of the grammar: the expectation is reject/accept only
            st = "timeout" if code.get("status") == "timeout" else (
                "harness-error" if code.get("status") != "ok" else
                ("both-reject" if not code["result"]["accepted"] else "accepted"))
            want_reject = c["stream"] == "syntax" or c.get("expect_reject")
            if st == "accepted" and want_reject:
                chk.violation(f"a text outside the BIF grammar is accepted ({c.get('faults')})",
                              {"stream": c["stream"], "case": c, "code": code})
            elif st == "both-reject" and not want_reject:
                chk.count("repo-file:unreadable-by-harness-and-rejected")
            chk.count(f"parse:{c['stream']}:{st}")
            if st == "both-reject" and c["stream"] == "syntax":
                cls = code["result"]["class"]
                chk.count("syntax-class:" + cls)
                if cls != "syntax":
                    chk.count("syntax-fault-rejected-semantically")
                chk.nontrivial.add(("syntax", c["faults"][0]))
            continue
        model = mres[(ci, "text")]
        st, detail = judge_parse(c, code, model)
        c["parse_status"] = st
        parse_stat.setdefault(c["stream"], {}).setdefault(st, 0)
        parse_stat[c["stream"]][st] += 1
        chk.count(f"parse:{c['stream']}:{st}")
        if c["stream"] == "malformed":
            for f in c["faults"]:
                chk.count(f"fault:{f}:{st}" + (":" + str(detail) if st == "both-reject" else ""))
            if st == "both-reject":
                chk.nontrivial.add(("malformed", tuple(c["faults"]), detail))
        if c["stream"] == "repo-file":
            if c["expect_reject"] and st == "both-accept":
                chk.violation(f"negative suite file {c['path_rel']} is accepted", {"stream": "repo-file", "case": _slim(c)})
            if not c["expect_reject"] and st == "both-reject":
                chk.violation(f"positive repository file {c['path_rel']} is rejected ({detail})",
                              {"stream": "repo-file", "case": _slim(c)})
            if st in ("both-accept", "both-reject"):
                chk.nontrivial.add(("repo-file", c["path_rel"]))
        if st in ("accept-diff", "class-diff", "net-diff"):
            _parse_disagreement(chk, c, st, detail, code)
        if st == "harness-error":
            chk.count("harness-error")
            chk.obligation(f"harness:{c['id']}", False, str(detail)[:600])
        if st != "both-accept":
            continue
        coder = code["result"]
        # does the network have a joint law at all (every row sums to exactly 1)?
        c["exact_rows"] = all(sum(Fr(x) for x in row) == 1 for v in model["net"] for row in v["rows"])
        chk.count("networks:" + ("exact-rows" if c["exact_rows"] else "rows-within-tolerance-only"))
        # hypotheses of the Lean theorems, validated on this instance by the model executable
        if model.get("topo") is not None:
            chk.count("validator:isTopo:" + ("ok" if model.get("topo_valid") else "FAILED"))
            if not model.get("topo_valid"):
                chk.obligation(f"validator:isTopo(topoOrder):{c['id']}", False, model.get("topo"))
        if c["exact_rows"]:
            chk.count("validator:wf:" + ("ok" if model.get("wf") else "FAILED"))
            if not model.get("wf"):
                chk.obligation(f"validator:Net.wf:{c['id']}", False, None)
        # names
        if not names_ok(coder, model):
            chk.violation(f"name mapping is not sanitised-base+digits / not injective: {coder.get('names')}",
                          {"stream": c["stream"], "case": _slim(c), "names": coder.get("names"), "model": model["names"]})
        elif len(set(model["names"])) < len(model["names"]):
            chk.count("names:collision-resolved")
            chk.nontrivial.add(("collision", tuple(sorted(model["names"]))))
        if "code_error" in coder:
            chk.count("codegen-error:" + coder["code_error"]["etype"])
            if model.get("topo") is not None:
                chk.violation(f"code generation fails on an acyclic network: {coder['code_error']}",
                              {"stream": c["stream"], "case": _slim(c)})
        # second notation of the same tables
        if "text2" in c:
            chk.evaluations += 1
            code2, model2 = pres[(ci, "text2")], mres[(ci, "text2")]
            st2, d2 = judge_parse(c, code2, model2)
            chk.count(f"notation2:{st2}")
            if st2 in ("accept-diff", "class-diff", "net-diff"):
                _parse_disagreement(chk, dict(c, text=c["text2"], raw=c["raw2"]), st2, d2, code2)
            elif st2 == "both-accept":
                if net_by_name(canon_code_net(code2["result"]["net"])) != net_by_name(canon_code_net(coder["net"])):
                    chk.violation("two notations of the same conditional probability tables are imported as "
                                  "different networks",
                                  {"stream": "notation", "text": c["text"], "text2": c["text2"],
                                   "notations": [c["notations"], c["notations2"]]})
                else:
                    chk.nontrivial.add(("notation", tuple(sorted(set(c["notations"]) | set(c["notations2"])))))
            elif st2 == "both-reject":
                chk.violation(f"a notation of valid tables is rejected: {d2}",
                              {"stream": "notation", "text": c["text2"], "notations": c["notations2"]})
        # law of the generated text
        try:
            reqs = law_requests(c, coder, model)
        except ValueError as e:
            reqs = None
            chk.count("generated-text-unreadable")
            chk.obligation(f"reader:{c['id']}", False, str(e)[:300])
        if reqs:
            law_jobs.append((ci, reqs))
    # ---- stage 2: law of the generated program ------------------------------------------------------
    flat = [r for _, reqs in law_jobs for r in reqs]
    fans = model_batch_parallel(flat)
    pos = 0
    for ci, reqs in law_jobs:
        c = cases[ci]
        ans = fans[pos:pos + len(reqs)]
        pos += len(reqs)
        st, detail = judge_law(c, ans)
        chk.evaluations += 1
        chk.count(f"law:{c['stream']}:{st}")
        if st == "law-agree":
            if detail > 1:
                chk.nontrivial.add(("law", c["id"]))
        elif st == "law-spec-diff":
            chk.violation("one iteration of the generated program does not draw the joint law of the network",
                          {"stream": c["stream"], "case": _slim(c), "detail": detail})
        elif st == "law-model-diff":
            chk.obligation(f"correspondence:genLaw:{c['id']}", False, detail)
            _law_search(chk, c, ans)
        else:
            chk.count("harness-error")
            chk.obligation(f"harness:law:{c['id']}", False, str(detail)[:600])
    # ---- stage 3: queries ------------------------------------------------------------------------
    qjobs = [(ci, q) for ci, c in enumerate(cases) if c.get("parse_status") == "both-accept"
             for q in c.get("queries", [])]
    qres = run_tasks([_query_task(cases[ci], q) for ci, q in qjobs], timeout=timeout, progress=100)
    qmodel = model_batch_parallel([query_request(cases[ci], q) for ci, q in qjobs])
    recs = []
    for (ci, q), code, model in zip(qjobs, qres, qmodel):
        rec = judge_query(cases[ci], q, code, model)
        rec["timeout"] = timeout
        recs.append(rec)
    return recs, parse_stat


def _slim(c):
    return {k: v for k, v in c.items() if k not in ("raw2", "text2")}


def _parse_disagreement(chk, c, st, detail, code):
    """model and code disagree on a parse: look for a contradiction with the mathematical criterion"""
    blob = {"stream": c["stream"], "case": _slim(c), "status": st, "detail": detail}
    coder = code.get("result", {})
    if coder.get("accepted"):
        bad = invalid_rows(canon_code_net(coder["net"]))
        if bad:
            chk.violation(f"accepted although a conditional probability row is incomplete or does not sum to 1 "
                          f"within the tolerance: {bad[:2]}", blob)
            return
        if st == "net-diff" and c.get("stream") in ("valid", "inexact", "reserved", "notation"):
            chk.violation("imported tables differ from the tables the file denotes", blob)
            return
    if not coder.get("accepted") and c.get("stream") in ("valid", "inexact", "reserved") and st == "accept-diff":
        # valid by construction (complete tables, rows within the tolerance) and accepted by the model
        chk.violation(f"a file whose tables are complete and normalised is rejected: {coder.get('class')}: "
                      f"{str(coder.get('message'))[:120]}", blob)
        return
    chk.obligation(f"correspondence:parse:{c['id']}", False, {"status": st, "detail": detail})
    chk.violation(f"model and code disagree on parsing ({st}: {str(detail)[:200]})", blob, no_input=True)


def _law_search(chk, c, ans):
    """the text's law differs from the model's genLaw: does it also differ from the joint (the definition)?"""
    if not c.get("exact_rows"):
        return
    j = ans[0]
    joint = {tuple(a): Fr(p) for a, p in j["joint"] if Fr(p) != 0}
    d = {tuple(int(Fr(x)) for x in vals): Fr(w) for w, vals in ans[1]["dist"]}
    if d != joint:
        chk.violation("one iteration of the generated program does not draw the joint law of the network",
                      {"stream": c["stream"], "case": _slim(c)})


def account_queries(chk, recs):
    stat = {}
    for r in recs:
        chk.evaluations += 1
        key = f"query:{r['stream']}:{r['kind']}:{r['status']}"
        chk.count(key)
        stat[key] = stat.get(key, 0) + 1
        if r["status"] == "agree":
            if Fr(r["spec"]["pev"]) not in (0, 1):
                chk.nontrivial.add(("query", r["id"], r["kind"], r["query"]))
            chk.sample({"query": r["query"], "kind": r["kind"], "value": r["spec"]["value"],
                        "text": r["text"][:600]}, limit=4)
        elif r["status"] in ("mismatch", "refused", "model-diff"):
            fid = attribute(PROP, r)
            if fid:
                chk.known(fid[0], fid[1])
                chk.count(f"known:{fid[0]}")
                r["known"] = fid[0]
                if Fr(r["spec"]["pev"]) not in (0, 1):
                    chk.nontrivial.add(("query-known", r["id"], r["kind"], r["query"]))
            elif r["status"] == "model-diff":
                chk.obligation(f"correspondence:query-moments:{r['id']}:{r['kind']}", False,
                               {"query": r["query"], "moments": r["code"].get("moment_forms")})
            else:
                got = r["code"].get("final_str") if r["code"].get("ran") else ("refused: " + str(r["code"].get("error")))
                what = (f"{'E(' + r['query'] + ')' if r['kind'] == 'ei' else 'sampling time until ' + r['query']}: "
                        f"reported {str(got)[:160]}, {r['spec']['which']} gives {r['spec']['value']}")
                chk.violation(what, {"stream": "query", "record": _slim_rec(r)})
        elif r["status"] == "harness-error":
            chk.count("harness-error")
            chk.obligation(f"harness:query:{r['id']}", False, str(r.get("detail"))[:600])
    return stat


def _slim_rec(r):
    return dict(r)


def build_cases(tier):
    quick = tier == "quick"
    rnd = rng(f"{PROP}-{tier}")
    n_valid, n_inexact, n_reserved, n_mal, n_syn = (50, 12, 10, 110, 16) if quick else (900, 150, 60, 1600, 120)
    cases = []
    for i in range(n_valid):
        cases.append(make_valid_case(rnd, i, "valid"))
    for i in range(n_inexact):
        cases.append(make_valid_case(rnd, i, "inexact", inexact=0.35, nmax=4))
    for i in range(n_reserved):
        cases.append(make_valid_case(rnd, i, "reserved", reserved=True, nmax=3))
    for i in range(n_mal):
        cases.append(make_malformed_case(rnd, i))
    for i in range(n_syn):
        cases.append(make_syntax_case(rnd, i))
    files = repo_file_cases(quick)
    repo_query_cases(rnd, files, per_file=2 if quick else 8)
    return cases + files


def run(tier):
    chk = Check(PROP, tier)
    lean_ok = lean_gate(chk, THEOREMS)
    timeout = 60 if tier == "quick" else 300
    recs, parse_stat, qstat = [], {}, {}
    if lean_ok:
        cases = build_cases(tier)
        recs, parse_stat = process(chk, cases, timeout)
        qstat = account_queries(chk, recs)
    n_agree = sum(1 for r in recs if r["status"] == "agree")
    n_known = sum(1 for r in recs if r.get("known"))
    chk.obligation("correspondence:parse(assembleNet)", lean_ok and bool(parse_stat) and
                   not any(k.startswith(("correspondence:parse:", "harness:")) for k in chk.failed_obligations), parse_stat)
    chk.obligation("correspondence:queries(bn_query)", lean_ok and (n_agree + n_known) > 0, qstat)
    chk.coverage["timeouts"] = sum(v for k, v in chk.counts.items() if k.endswith(":timeout"))
    chk.assumptions = [
        "probabilities are exact decimals; row sums stay 1e-9 away from the tolerance edge 1e-3 (Python float summation)",
        "networks whose rows sum to 1 only within the tolerance have no joint law: there the code is compared with the "
        "model of the generated program (last value gets the remaining probability)",
        "the random digits appended on a name collision are checked by rule (base + digits, injective), not modelled",
        "the lark grammar is tied differentially (generated spellings, single-token syntax faults), not modelled",
        f"per-iteration moments compared at n = 0..{NMAX}",
    ]
    return chk.finish(
        level="proof",
        rule="seeded BIF files (valid / rows-within-tolerance / reserved-name / malformed / syntax streams) + repository "
             "files; non-trivial: a query whose evidence has probability strictly between 0 and 1 (distinct by file and "
             "query), a rejected fault by (fault kinds, class), a resolved name collision, a pair of notation mixes "
             "imported identically, a law comparison with more than one outcome",
        trusted_base=TRUSTED)


def replay(path):
    with open(os.path.join(ROOT, path) if not os.path.isabs(path) else path) as fh:
        blob = json.load(fh)
    stream = blob.get("stream")
    if stream == "query":
        r = blob["record"]
        case = {"id": r["id"], "stream": r["stream"], "text": r["text"], "exact_rows": r["exact_rows"],
                "var_names": r.get("var_names", [])}
        ast = G.read_bif(r["text"])
        if ast is None:
            print("cannot re-read the BIF text")
            return 2
        case["raw"] = G.ast_to_raw(ast)
        q = {"kind": r["kind"], "query": r["query"], "evidence": r["evidence"], "k": r.get("k"), "target": r.get("target")}
        code = run_tasks([_query_task(case, q)], timeout=600, nworkers=1)[0]
        model = model_batch([query_request(case, q)])[0]
        rec = judge_query(case, q, code, model)
        print("status:", rec["status"])
        print("  reported:", rec.get("code", {}).get("printed_line") or rec.get("code", {}).get("error"))
        print("  expected:", rec.get("spec"))
        if rec["status"] in ("mismatch", "refused"):
            fid = attribute(PROP, rec)
            if fid:
                print(f"KNOWN-FINDING: property={PROP} [{fid[0]}] {fid[1]}")
                return 0
            print(f"VIOLATION property={PROP} replay={path}")
            return 1
        return 0
    if stream == "notation":
        res = run_tasks([{"fn": "harness.tasks.c15:parse_bif", "args": {"text": blob[k]}} for k in ("text", "text2")
                         if k in blob], timeout=600, nworkers=1)
        nets = [net_by_name(canon_code_net(r["result"]["net"])) if r.get("status") == "ok" and r["result"]["accepted"]
                else r for r in res]
        same = len(nets) == 2 and nets[0] == nets[1]
        print("networks equal:", same)
        if not same:
            print(f"VIOLATION property={PROP} replay={path}")
            return 1
        return 0
    case = blob.get("case")
    if case and "text" in case:
        chk = Check(PROP, "replay")

        def report(what, replay, no_input=False):   # replays do not write new replay files
            chk.violations.append((what, path))
            print(f"VIOLATION property={PROP} replay={path}" + (" no-failing-input-found" if no_input else ""))
            print("  ->", what)
        chk.violation = report
        ast = G.read_bif(case["text"])
        c = dict(case)
        if ast is not None:
            c["raw"] = G.ast_to_raw(ast)
        c["queries"] = []
        c.pop("text2", None)
        process(chk, [c], 600)
        print("counts:", chk.counts)
        return 1 if chk.violations or chk.failed_obligations else 0
    print("nothing to replay in", path)
    return 2
