"""C04 — solved closed forms reproduce the linear recurrence sequence for all n.

Generated systems x(n+1) = A x(n) + c, x(0) = v (Jordan structures with eigenvalues 0 / 1 / -1 /
rational / quadratic-irrational / complex, nilpotent chains, triangular systems with zero
self-coefficients, symbolic entries) are handed to the real `Recurrences` + `RecurrenceSolver`
(both strategies).  Each closed form is then decided **for all n** by the verified validator
(`Polar.cfiniteCheck*`, theorems `cfiniteCheck_sound`, `cfiniteCheckQD_sound_alg`,
`cfiniteCheckValues_sound`): special cases against A^n v directly, the general part on a window of
length d + Σ(deg+1) starting after the special cases."""
import json
import os
from fractions import Fraction as Fr

from .. import hast as H
from ..common import Check, lean_gate, ROOT, model_batch_parallel, rng
from ..pool import run_tasks
from ..findings import attribute
from ..theorems import THEOREMS as _T

PROP = "C04"
THEOREMS = _T.get(PROP, [])

EIGS = [Fr(0), Fr(0), Fr(1), Fr(-1), Fr(2), Fr(1, 2), Fr(-1, 3), Fr(3), Fr(1), Fr(0)]
QUADS = [(-1, -1), (0, -2), (0, 1), (-2, -1), (1, 1), (0, -3), (-1, 1), (2, 2)]   # x^2 + b x + c


def mat_mul(a, b):
    return [[sum(a[i][k] * b[k][j] for k in range(len(b))) for j in range(len(b[0]))] for i in range(len(a))]


def identity(d):
    return [[Fr(1 if i == j else 0) for j in range(d)] for i in range(d)]


def unimodular(r, d, steps):
    p, q = identity(d), identity(d)          # q = p^{-1}
    for _ in range(steps):
        i, j = r.randrange(d), r.randrange(d)
        if i == j:
            continue
        k = Fr(r.choice([1, -1, 2, -2]))
        e = identity(d)
        e[i][j] = k
        einv = identity(d)
        einv[i][j] = -k
        p = mat_mul(p, e)
        q = mat_mul(einv, q)
    return p, q


def block_diag(blocks):
    d = sum(len(b) for b in blocks)
    m = [[Fr(0)] * d for _ in range(d)]
    o = 0
    for b in blocks:
        for i in range(len(b)):
            for j in range(len(b)):
                m[o + i][o + j] = b[i][j]
        o += len(b)
    return m


def jordan(lam, k):
    return [[lam if i == j else (Fr(1) if j == i + 1 else Fr(0)) for j in range(k)] for i in range(k)]


def companion(b, c):
    return [[Fr(0), Fr(1)], [Fr(-c), Fr(-b)]]


def gen_system(r, dmax):
    kind = r.choice(["jordan", "jordan", "companion", "triangular", "chain0", "param", "mixed"])
    subs = {}
    consts = None
    if kind in ("jordan", "companion", "mixed"):
        blocks = []
        d = 0
        target = r.randint(2, dmax)
        while d < target:
            if kind != "jordan" and (r.random() < 0.6 or not blocks) and d + 2 <= target:
                b, c = r.choice(QUADS)
                blocks.append(companion(b, c))
                d += 2
            else:
                k = min(r.choice([1, 1, 2, 2, 3]), target - d)
                blocks.append(jordan(r.choice(EIGS), k))
                d += k
        J = block_diag(blocks)
        p, q = unimodular(r, d, r.randint(0, 2 * d))
        A = mat_mul(mat_mul(p, J), q)
        A = [[H.fr_str(x) for x in row] for row in A]
        if r.random() < 0.3:
            consts = [H.fr_str(r.choice([Fr(0), Fr(1), Fr(-2), Fr(1, 2)])) for _ in range(d)]
    elif kind in ("triangular", "chain0", "param"):
        d = r.randint(2, dmax)
        perm = list(range(d))
        r.shuffle(perm)
        A = [["0"] * d for _ in range(d)]
        for a in range(d):
            i = perm[a]
            diag = r.choice([Fr(0), Fr(0), Fr(1), Fr(2), Fr(1, 2), Fr(-1)]) if kind != "chain0" else \
                r.choice([Fr(0), Fr(0), Fr(0), Fr(1), Fr(1, 2)])
            A[i][i] = H.fr_str(diag)
            for b in range(a):
                if r.random() < 0.6:
                    A[i][perm[b]] = H.fr_str(r.choice([Fr(1), Fr(-1), Fr(2), Fr(1, 2), Fr(3)]))
        if kind == "param":
            i = r.randrange(d)
            A[i][i] = "p"
            subs["p"] = H.fr_str(r.choice([Fr(1, 2), Fr(1, 3), Fr(2), Fr(-1, 2), Fr(3, 4)]))
            if r.random() < 0.5 and d > 1:
                a, b = sorted(r.sample(range(d), 2))
                A[perm[b]][perm[a]] = "q"
                subs["q"] = H.fr_str(r.choice([Fr(2), Fr(-1), Fr(1, 2)]))
        if r.random() < 0.6:
            consts = [H.fr_str(r.choice([Fr(0), Fr(1), Fr(-2), Fr(1, 2), Fr(3)])) for _ in range(d)]
    v = [H.fr_str(r.choice([Fr(0), Fr(1), Fr(-1), Fr(2), Fr(5), Fr(1, 2), Fr(7), Fr(-3)])) for _ in range(d)]
    if r.random() < 0.15:
        v[r.randrange(d)] = "a"
        subs["a"] = H.fr_str(r.choice([Fr(3), Fr(-2), Fr(1, 3)]))
    return {"kind": kind, "A": A, "v": v, "consts": consts, "subs": subs}


def numeric_matrix(sysm):
    """(augmented) rational matrix and vector at the parameter point"""
    import re

    def val(s):
        s = str(s)
        if s in sysm["subs"]:
            return Fr(sysm["subs"][s])
        return Fr(s)
    A = [[val(x) for x in row] for row in sysm["A"]]
    v = [val(x) for x in sysm["v"]]
    if sysm["consts"] and any(Fr(val(c)) != 0 for c in sysm["consts"]):
        d = len(A)
        A = [row + [val(c)] for row, c in zip(A, sysm["consts"])] + [[Fr(0)] * d + [Fr(1)]]
        v = v + [Fr(1)]
    return [[H.fr_str(x) for x in row] for row in A], [H.fr_str(x) for x in v]


def run(tier):
    chk = Check(PROP, tier)
    lean_ok = lean_gate(chk, THEOREMS)
    quick = tier == "quick"
    n_sys = 180 if quick else 1500
    dmax = 4 if quick else 6
    r = rng(f"{PROP}-{tier}")
    systems = []
    fixed = [
        # the two repaired defects (F1, F2) stay in the corpus
        {"kind": "corpus-F1", "A": [["0", "1"], ["0", "0"]], "v": ["0", "5"], "consts": ["0", "1"], "subs": {}},
        {"kind": "corpus-F2", "A": [["0", "1", "0", "1", "0"], ["0", "0", "1", "0", "0"], ["0", "0", "0", "0", "0"],
                                    ["0", "0", "0", "0", "1"], ["0", "0", "0", "1", "0"]],
         "v": ["0", "5", "7", "1", "2"], "consts": None, "subs": {}},
        {"kind": "corpus-fib", "A": [["0", "1"], ["1", "1"]], "v": ["0", "1"], "consts": None, "subs": {}},
        # characteristic polynomial (x - 2)(x^3 - 3x + 1): an irreducible cubic with three real roots (CRootOf) next to a larger
        # rational eigenvalue; with numeric_croots the result is rounded and must be flagged so (seeded change C04_D)
        {"kind": "corpus-croots-cubic", "A": [["0", "1", "0", "0"], ["0", "0", "1", "0"], ["-1", "3", "0", "0"], ["1", "0", "0", "2"]],
         "v": ["1", "0", "2", "1"], "consts": None, "subs": {}},
        {"kind": "corpus-croots-cubic2", "A": [["3", "1", "0", "0"], ["0", "0", "1", "0"], ["0", "0", "0", "1"], ["0", "1", "-3", "0"]],
         "v": ["1", "1", "0", "2"], "consts": None, "subs": {}},
        {"kind": "corpus-nilpotent3", "A": [["0", "1", "0"], ["0", "0", "1"], ["0", "0", "0"]], "v": ["1", "2", "3"],
         "consts": ["1", "0", "2"], "subs": {}},
    ]
    systems += fixed
    for _ in range(n_sys):
        systems.append(gen_system(r, dmax))
    jobs = []
    for s in systems:
        d = len(s["A"])
        nvals = 3 * (d + 1) + 8
        s["nvals"] = nvals
        jobs.append((s, False, None))
        jobs.append((s, True, None))
        if s["kind"].startswith("corpus-croots"):
            jobs.append((s, True, {"numeric_croots": True}))
            jobs.append((s, False, {"numeric_croots": True}))
        if len(jobs) % 5 == 0 and not s["subs"]:
            jobs.append((s, True, r.choice([{"numeric_roots": True, "numeric_eps": 1e-12}, {"numeric_croots": True},
                                            {"numeric_roots": True, "numeric_eps": 1e-30}])))
    tasks = [{"fn": "harness.tasks.solve:solve_system",
              "args": {"A": s["A"], "v": s["v"], "consts": s["consts"], "force_cyclic": fc, "nvals": s["nvals"],
                       "subs": s["subs"], "numeric": num}} for s, fc, num in jobs]
    outs = run_tasks(tasks, timeout=50 if quick else 200, progress=100) if lean_ok else []
    reqs, meta = [], []
    for (s, fc, num), out in zip(jobs, outs):
        chk.evaluations += 1
        if num:
            chk.count("numeric-option-jobs")
        if out["status"] == "timeout":
            chk.count("timeout")
            continue
        if out["status"] != "ok":
            chk.count("harness-error")
            chk.obligation("harness:task", False, out)
            continue
        res = out["result"]
        if "error" in res:
            chk.count("refused-setup:" + res["error"]["etype"])
            continue
        A, v = numeric_matrix(s)
        chk.count("solver:" + res.get("solver", "?"))
        chk.count("kind:" + s["kind"])
        for comp in res["components"]:
            comp["_numeric"] = num
            if not comp.get("ok"):
                chk.count("refused-solve:" + comp["error"]["etype"])
                continue
            n0 = max(comp["max_case"] + 1, 0)
            base = {"op": "cfinite_check", "A": A, "v": v, "i": comp["i"], "n0": n0}
            vals = comp["values"]
            numeric_vals = all(t == "q" for t, _ in vals)
            mode = None
            if comp.get("terms") is not None and comp.get("exact"):
                req = dict(base, terms=comp["terms"])
                mode = "terms"
            elif comp.get("terms_qd") is not None and comp.get("exact"):
                req = dict(base, terms=comp["terms_qd"], D=comp["D"])
                mode = "terms_qd"
            elif comp.get("shape_ok") and numeric_vals and comp.get("exact"):
                W = len(A) + sum(comp["degs"])
                if n0 + W <= len(vals):
                    req = dict(base, values=[Fr(x).numerator.__str__() if Fr(x).denominator == 1 else x
                                             for _, x in vals[n0:n0 + W]], degs=comp["degs"])
                    mode = "values"
            # special cases and a plain N-point comparison are always made
            reqs.append({"op": "matpow_seq", "A": A, "v": v, "nmax": len(vals) - 1})
            meta.append((s, fc, comp, "seq", n0))
            if mode:
                reqs.append(req)
                meta.append((s, fc, comp, mode, n0))
            else:
                chk.count("unvalidated-shape" if comp.get("exact") else "rounded-result")
    answers = model_batch_parallel(reqs) if reqs else []
    validated = 0
    for (s, fc, comp, mode, n0), ans in zip(meta, answers):
        key = json.dumps([s["A"], s["v"], s["consts"], fc, comp["i"]])
        if not ans.get("ok"):
            chk.count("model-refused:" + str(ans.get("error"))[:40])
            continue
        bad = None
        singular = False
        if mode == "seq":
            for n, (tag_val, row) in enumerate(zip(comp["values"], ans["seq"])):
                tag, sv = tag_val
                want = Fr(row[comp["i"]])
                exact = bool(comp.get("exact"))
                if not exact and n > 8:
                    # rounded roots: the deviation grows with n and with the condition of the fit; the property only bounds it
                    # by "what the requested precision allows", so rounded results are judged on the first iterates only
                    break
                if tag == "undefined-limit":
                    # 0/0 at the parameter point of a symbolic entry; sv is the limit of the closed form there
                    if Fr(sv) == want:
                        singular = True
                        continue
                    bad = (n, sv, H.fr_str(want), "undefined-at-parameter-point-and-limit-wrong")
                    break
                if tag == "q" and exact:
                    if Fr(sv) != want:
                        bad = (n, sv, H.fr_str(want), "wrong-value")
                        break
                elif tag in ("q", "float", "irrational"):
                    if exact and tag == "float":
                        bad = (n, sv, H.fr_str(want), "float-in-result-flagged-exact")
                        break
                    try:
                        if tag == "q":
                            z = complex(float(Fr(sv)))
                        else:
                            z = complex(sv.replace("*I", "j").replace(" ", "")) if "I" in sv else complex(float(sv))
                        tol = (1e-25 if exact else 1e-5) * max(1.0, abs(float(want)))
                        numopt = comp.get("_numeric") or {}
                        if not exact and numopt.get("numeric_eps") == 1e-30 and n <= 5:
                            # the requested root precision bounds the deviation of the first iterates (ten orders of margin)
                            import mpmath
                            mpmath.mp.dps = 60
                            zz = mpmath.mpf(Fr(sv).numerator) / mpmath.mpf(Fr(sv).denominator) if tag == "q" else None
                            if zz is not None:
                                ww = mpmath.mpf(want.numerator) / mpmath.mpf(want.denominator)
                                if abs(zz - ww) > mpmath.mpf(10) ** -20 * max(1, abs(ww)):
                                    bad = (n, sv, H.fr_str(want), "rounded-result-far-beyond-the-requested-precision(1e-30)")
                                    break
                        if abs(z - float(want)) > max(tol, 1e-12 * max(1.0, abs(float(want)))):
                            bad = (n, sv, H.fr_str(want), "wrong-value-" + tag + ("" if exact else "-rounded-beyond-tolerance"))
                            break
                    except Exception:
                        bad = (n, sv, H.fr_str(want), "unparseable-value")
                        break
                else:
                    bad = (n, sv, H.fr_str(want), "value-" + tag)
                    break
        else:
            chk.count("validated-for-all-n:" + mode)
            if not ans["agree"]:
                fb = ans["first_bad"]
                bad = (fb["n"], fb["got"], fb["expected"], "general-solution-wrong")
            else:
                validated += 1
                chk.nontrivial.add(key)
                chk.sample({"A": s["A"], "v": s["v"], "consts": s["consts"], "force_cyclic": fc, "component": comp["i"],
                            "closed_form": comp["closed_form"][:300], "window": ans["window"], "n0": n0, "mode": mode}, limit=4)
        if singular and not bad:
            rec = {"system": s, "mismatches": [{"kind": "removable-singularity"}]}
            fid = attribute(PROP, rec)
            if fid:
                chk.known(fid[0], fid[1])
                chk.count("removable-singularity-at-parameter-point")
            else:
                bad = (0, "0/0", "", "closed form undefined at the parameter point")
        if bad:
            rec = {"system": s, "force_cyclic": fc, "component": comp, "bad": bad}
            fid = attribute(PROP, rec)
            if fid:
                chk.known(fid[0], fid[1])
            else:
                n, got, want, kind = bad
                chk.violation(f"{'CyclicSolver' if fc else 'default solver'}: component {comp['i']} at n={n}: closed form {got}, (A^n v)_i = {want} ({kind})",
                              {"system": s, "force_cyclic": fc, "component": comp["i"], "closed_form": comp["closed_form"],
                               "n": n, "closed_form_value": got, "matrix_power_value": want, "kind": kind,
                               "exact_flag": comp.get("exact"),
                               "how": "harness.tasks.solve:solve_system(A, v, consts, force_cyclic) builds Recurrences + RecurrenceSolver; "
                                      "compare solver.get(x_i) at n with the exact matrix power"})
    chk.obligation("correspondence:closed-forms-vs-matrix-powers", lean_ok and validated > 0 and
                   chk.counts.get("harness-error", 0) == 0, {"validated_for_all_n": validated})
    chk.assumptions = ["symbolic entries are checked at one rational parameter point (Schwartz-Zippel)",
                       "mode=values: sympy's exact evaluation of the closed form on the window and the extracted term shape are trusted",
                       "rounded (numeric-root) results are only compared with a tolerance"]
    return chk.finish(level="proof",
                      rule="seeded systems by Jordan structure x both solver strategies; distinct = (A, v, c, strategy, component); "
                           "non-trivial = validated for all n by the Lean window check",
                      trusted_base=["Lean kernel; theorems CFin.cfinite_ext, Polar.LinAlg cfiniteCheck_sound / cfiniteCheckQD_sound_alg / cfiniteCheckValues_sound",
                                    "term-shape extraction from sympy expressions (harness/tasks/solve.py)"])


def replay(path):
    with open(os.path.join(ROOT, path) if not os.path.isabs(path) else path) as fh:
        blob = json.load(fh)
    s = blob["system"]
    out = run_tasks([{"fn": "harness.tasks.solve:solve_system",
                      "args": {"A": s["A"], "v": s["v"], "consts": s["consts"], "force_cyclic": blob["force_cyclic"],
                               "nvals": 20, "subs": s["subs"]}}], timeout=300)[0]
    print(json.dumps(out, indent=1)[:3000])
    return 1
