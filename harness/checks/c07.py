"""C07 — the reported invariant basis generates all polynomial relations among the goals.

Decided **per instance and up to a degree bound k** (k = max(3, max degree in the reported basis), +2 in
the thorough tier) by exact linear algebra inside Lean: with `monos` = all monomials of total degree
<= k in the goals and M = their exact values on the window of the union of their formal shapes
(starting after the special cases), every relation of degree <= k is a kernel vector of M.  The worker
proposes a kernel basis B with pivot rows/columns and, for each b in B read as a polynomial, cofactors
w.r.t. the reported basis (sympy `reduced`); polar-model `relations_check` recomputes M itself and
decides (`Polar.Inv.checkKernel_sound`, `checkMember_sound`, `c07_validator_sound`).  A kernel vector
without cofactors is validated as a genuine relation for all n >= n0 (`invariant_check`) and then
reported: a polynomial that vanishes on the goal sequences and is not in the reported ideal.  The
Groebner / elimination step of Polar is modelled, not verified."""
from .. import c0607_check as C
from ..common import Check, lean_gate
from ..findings import attribute
from ..theorems import THEOREMS as _T

PROP = "C07"
THEOREMS = _T.get(PROP, [])

TRUSTED = [
    "Lean 4.33 kernel; axioms propext, Classical.choice, Quot.sound only",
    "compiled polar-model agrees with the kernel semantics of Polar.Inv.relationsCheck / checkInvariant",
    "harness: extraction of the term lists from sympy closed forms (guarded by exact re-evaluation)",
    "negative membership (witness not in the reported ideal): sympy Groebner basis of the reported basis",
    "completeness is decided up to total degree k only (k recorded per instance)",
]


def run(tier):
    chk = Check(PROP, tier)
    lean_ok = lean_gate(chk, THEOREMS)
    quick = tier == "quick"
    n_tuples = 40 if quick else 800
    n_prog = 4 if quick else 80
    timeout = 90 if quick else 400
    k_extra = 0 if quick else 2
    caps = {"cols": 60, "window": 160, "kernel": 45} if quick else {"cols": 130, "window": 400, "kernel": 100}
    cases = C.tuple_cases(tier, f"{PROP}-{tier}", n_tuples) + C.program_cases(tier, f"{PROP}-{tier}-prog", n_prog)
    if not lean_ok:
        cases = []
    outs = C.run_cases(cases, True, k_extra, caps, timeout, progress=200)
    verdicts = C.judge(cases, outs, True, model_timeout=120 if quick else 400)

    suspects = [i for i, v in enumerate(verdicts) if v["c07"].get("status") == "violation"
                and C.f4_signature(v.get("res") or {})]
    repaired = C.attribution_runs(
        cases, verdicts, suspects, True, k_extra, caps, timeout,
        clean=lambda w: w["c07"].get("status") in ("validated", "validated-sympy-membership")) if suspects else {}
    latv = C.lattice_verdicts({i: verdicts[i]["res"] for i in suspects})

    validated = 0
    for ci, (case, v) in enumerate(zip(cases, verdicts)):
        chk.evaluations += 1
        st = v["status"] or "?"
        chk.count("status:" + st)
        chk.count("kind:" + case["kind"])
        if st == "harness-error":
            chk.obligation("harness:task", False, str(v.get("detail"))[:600])
            continue
        if st != "ok":
            continue
        res = v["res"]
        c = v["c07"]
        chk.count("c07:" + c["status"])
        if v.get("model_errors"):
            chk.obligation("harness:model-request", False, v["model_errors"][:2])
        if c["status"] == "harness-error":
            chk.obligation("harness:certificates", False, {"case": case["id"], "detail": c.get("detail"),
                                                           "closed_forms": res.get("closed_forms")})
            continue
        if c["status"] in ("validated", "validated-sympy-membership"):
            validated += 1
            chk.count("k:" + str(c["k"]))
            if not res["basis"]:
                chk.count("validated-no-invariants")
            chk.nontrivial.add(case["id"] + "|" + ";".join(res["basis_str"]) + f"|k={c['k']}")
            chk.sample({"id": case["id"], "closed_forms": res.get("closed_forms"), "basis": res["basis_str"],
                        "k": c["k"], "monomials": c["ncols"], "window": c["window"], "kernel_dim": c["kernel_dim"]},
                       limit=5)
        if c["status"] == "violation":
            w = c["witness"]
            r2 = repaired.get(ci) or {}
            rec = {"case": case["id"], "bases_q": res.get("bases_q"), "lattice": res.get("lattice"),
                   "signature": C.f4_signature(res), "witness": w, "need": "not-a-basis",
                   "lattice_verdict": latv.get(ci), "repair_kind": r2.get("kind"),
                   "repaired_clean": bool(r2.get("clean")),
                   "repaired_basis": ((r2.get("verdict") or {}).get("res") or {}).get("basis_str")}
            if r2 and not r2.get("clean") and (r2.get("verdict") or {}).get("status") == "timeout":
                chk.count("attribution-repair-timeout")
            fid = attribute(PROP, rec)
            if fid:
                chk.count("known:" + fid[0])
                chk.known(fid[0], f"bases {res.get('bases')}: {w['poly_str']} vanishes for all n >= {res['n0']} but is not "
                                  f"in the ideal of the reported basis {res['basis_str']}")
            else:
                chk.violation(f"{case['id']}: {w['poly_str']} = 0 holds on the goal sequences for all n >= {res['n0']} "
                              f"(validated) but is not in the ideal generated by the reported basis {res['basis_str']}; "
                              f"closed forms {res.get('closed_forms')}",
                              dict(C.replay_blob(case, v, {"witness": w, "k": c["k"]})))
    chk.obligation("correspondence:relation-space-certified-inside-reported-ideal", lean_ok and validated > 0 and
                   chk.counts.get("status:harness-error", 0) == 0, {"validated_instances": validated})
    chk.assumptions = [
        "decided per instance and up to total degree k (recorded); larger instances are counted as skipped-large",
        "instances whose reported basis has irrational coefficients or whose closed forms have symbolic parameters "
        "are not decided (counted)"]
    return chk.finish(
        level="proof",
        rule="fixed + seeded closed-form tuples and programs; distinct = (case id, reported basis, k); non-trivial = "
             "kernel basis and all memberships accepted by relations_check (no invariants: trivial kernel certified)",
        trusted_base=TRUSTED,
        explanation="proof of the validator; the property is decided per instance and up to degree k by exact linear "
                    "algebra inside Lean; Polar's Groebner/elimination step is modelled, not verified")


def replay(path):
    return C.replay(PROP, path, True)
