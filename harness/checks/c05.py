"""C05 — inferred finite types contain every value a variable can ever take.

The real pipeline's `program.typedefs` after `normalize_program` (for several fixed-point budgets)
versus the values every variable of the *normalised* program takes at the iteration boundaries
n = 0..N under the Lean reference semantics (op `reach`).  After MultiAssignTransformer every
variable has one assignment per iteration, so the boundary values are all values it ever holds."""
import json
import os
from fractions import Fraction as Fr

from .. import pipeline, hast as H
from ..common import Check, lean_gate, ROOT, model_batch_parallel
from ..oracle import case_text, lean_sigma0, polar_subs
from ..pool import run_tasks
from ..findings import attribute
from ..theorems import THEOREMS as _T
from .c02 import _walk_vars

PROP = "C05"
THEOREMS = _T.get(PROP, [])
ARB = "97/13"
FP_ITERS = [100, 1, 3, 0, 2]


def _val(s):
    try:
        return Fr(s)
    except Exception:
        return None


def run(tier):
    chk = Check(PROP, tier)
    lean_ok = lean_gate(chk, THEOREMS)
    quick = tier == "quick"
    n_gen = 180 if quick else 1500
    nmax = 5 if quick else 6
    cases = pipeline.load_corpus(PROP) + pipeline.generate_cases(
        n_gen, f"{PROP}-{tier}", families=["guarded", "finite", "branchy", "guarded", "choice", "param", "poly", "simult"])
    jobs = []
    for ci, c in enumerate(cases):
        c["text_used"] = c.get("text") or case_text(c)
        its = FP_ITERS if (not quick or c.get("corpus")) else [FP_ITERS[0]] + ([FP_ITERS[1 + ci % 4]] if ci % 2 == 0 else [])
        for it in its:
            jobs.append((c, it))
    tasks = [{"fn": "harness.tasks.normalize:recurrences",
              "args": {"text": c["text_used"], "goals": [], "subs": polar_subs(c), "settings": {"type_fp_iterations": it}}}
             for c, it in jobs]
    outs = run_tasks(tasks, timeout=60 if quick else 180, progress=50) if lean_ok else []
    reqs, meta = [], []
    vreqs, vmeta = [], []
    for (c, it), out in zip(jobs, outs):
        chk.evaluations += 1
        if out["status"] == "timeout":
            chk.count("timeout")
            continue
        if out["status"] != "ok":
            chk.count("harness-error")
            chk.obligation("harness:task", False, out)
            continue
        res = out["result"]
        if not res["accepted"]:
            chk.count("refused:" + res["error"]["etype"])
            continue
        if res.get("abstracted"):
            chk.count("skipped:bernoulli-abstraction")
            continue
        if res["program"] is None:
            chk.count("unconvertible")
            continue
        types = res["typedefs"]
        declared = {v for v, _ in c["program"].get("types", [])}
        tvars = sorted(v for v in types if v not in declared)
        if not tvars:
            chk.count("no-inferred-types")
            continue
        s0 = dict(lean_sigma0(c))
        names = set()
        _walk_vars(res["program"], names)
        init_assigned = {s[1] for s in res["program"]["init"] if s[0] == "assign"}
        for v in names:
            if v not in s0:
                s0[v] = ARB
        # variables without an initial assignment hold an arbitrary (symbolic) value at n = 0
        v_init = [v for v in tvars if v in init_assigned]
        v_noinit = [v for v in tvars if v not in init_assigned]
        for vs, nmin in ((v_init, 0), (v_noinit, 1)):
            if vs:
                reqs.append({"op": "reach", "program": res["program"], "sigma0": s0, "vars": vs, "nmax": nmax,
                             "nmin": nmin, "budget": 3000})
                meta.append((c, it, vs, types, res))
        # V1: the inferred types as an inductive invariant, decided for ALL n by the verified validator
        # (theorem Polar.VP.checkInductive_sound); parameters enter at the numeric point
        vtypes = {}
        ok_types = True
        for v in tvars:
            try:
                vtypes[v] = [H.fr_str(Fr(x)) for x in types[v]]
            except Exception:
                ok_types = False
        if ok_types and it == 100:
            prog = json.loads(json.dumps(res["program"]))
            base = lean_sigma0(c)
            for pz in [z for z in res.get("symbols", []) if z in base]:
                prog["init"].insert(0, ["assign", pz, ["expr", ["num", base[pz]]], ["tt"], pz])
                vtypes[pz] = [base[pz]]
            # user-declared types are hypotheses of the property: they are part of the invariant candidate
            for v in types:
                if v in declared:
                    try:
                        vtypes[v] = [H.fr_str(Fr(x)) for x in types[v]]
                    except Exception:
                        pass
            vreqs.append({"op": "types_inductive", "program": prog, "types": vtypes, "cap": 4096})
            vmeta.append((c, it, types, declared))
    answers = model_batch_parallel(reqs) if reqs else []
    ok_jobs = 0
    for ri, ((c, it, vs, types, res), ans) in enumerate(zip(meta, answers)):
        if not ans.get("ok"):
            chk.count("oracle-refused:" + str(ans.get("error"))[:30])
            continue
        bad = None
        for v, s in zip(vs, ans["sets"]):
            if s is None:
                bad = (v, "non-constant (draw-dependent) value", None)
                break
            tv = {_val(x) for x in types[v]}
            if None in tv:
                chk.count("symbolic-type-values")
                continue
            extra = sorted(Fr(x) for x in s if Fr(x) not in tv)
            if extra and v.startswith("_"):
                # Auxiliaries introduced by the normalisation have no initial value; this harness gives them the placeholder ARB.  When
                # the loop guard is false from the start their guarded first assignment never happens, and unguarded auxiliaries
                # computed from them (`_r2 = _old0 + g - 3`) inherit the placeholder.  Such values are artefacts of the placeholder, not
                # values the variable holds in an execution of the source program: they are recognised by re-running with a second
                # placeholder for the auxiliaries only (source variables keep theirs) -- a value that survives both runs is real.
                s0b = dict(reqs[ri]["sigma0"])
                for nm in list(s0b):
                    if nm.startswith("_") and s0b[nm] == ARB:
                        s0b[nm] = "89/7"
                from ..common import model_one
                second = model_one(dict(reqs[ri], sigma0=s0b), timeout=60)
                if second.get("ok"):
                    s2 = second["sets"][list(vs).index(v)]
                    keep = [x for x in extra if s2 is not None and any(Fr(y) == x for y in s2)]
                    if len(keep) < len(extra):
                        chk.count("auxiliary-placeholder-artefact")
                    extra = keep
            if extra:
                bad = (v, "value outside the inferred type", [H.fr_str(x) for x in extra])
                break
        chk.count("typed-variables", len(vs))
        if bad:
            rec = {"case": c, "fp_iterations": it, "variable": bad[0], "kind": bad[1], "values": bad[2],
                   "type": types.get(bad[0]), "normalized": res["program"]}
            fid = attribute(PROP, rec)
            if fid:
                chk.known(fid[0], fid[1])
            else:
                chk.violation(f"variable {bad[0]} : Finite({', '.join(types[bad[0]])}) takes {bad[2]} ({bad[1]}; type_fp_iterations={it})",
                              {"case": pipeline.case_to_json(c), "text": c["text_used"], "fp_iterations": it,
                               "variable": bad[0], "inferred_type": types[bad[0]], "reachable_outside": bad[2],
                               "how": "normalize_program(Parser().parse_string(text)).typedefs versus the values of the variable "
                                      "at iteration boundaries under the Lean semantics of the normalised program (op reach)"})
        else:
            ok_jobs += 1
            if any(len(types[v]) > 1 for v in vs):
                chk.nontrivial.add(c["text_used"] + str(it))
            chk.sample({"text": c["text_used"], "fp_iterations": it, "types": {v: types[v] for v in vs}}, limit=3)
    vans = model_batch_parallel(vreqs, timeout=60) if vreqs else []
    n_ind = 0
    for (c, it, types, declared), a in zip(vmeta, vans):
        if not a.get("ok"):
            chk.count("V1:error:" + str(a.get("error"))[:30])
            continue
        if a.get("inductive") is None:
            chk.count("V1:refused:" + str(a.get("refused"))[:40])
            continue
        if a["inductive"]:
            n_ind += 1
            chk.count("V1:types-inductive-for-all-n")
            continue
        why = a.get("why") or {}
        v = why.get("var")
        if v in declared:
            chk.count("V1:declared-type-not-inductive")
            continue
        if why.get("stage") == "step" and isinstance(why.get("assign"), dict) and why["assign"]:
            # The validator quantifies over ALL combinations of typed values; the property speaks about reachable states only.  A
            # witness that starts from an unreachable combination (two variables on different points of a finite orbit) is an
            # incompleteness of the product-of-types abstraction, not a defect: the witness counts only if its start state occurs
            # in the exact joint law of the typed variables at some n <= 6.
            from ..common import model_one
            vi = vmeta.index((c, it, types, declared))
            tv_names = sorted(why["assign"])
            s0v = dict(lean_sigma0(c))
            nm_ = set()
            _walk_vars(vreqs[vi]["program"], nm_)
            for x_ in nm_:
                s0v.setdefault(x_, ARB)
            want = [Fr(why["assign"][x_]) for x_ in tv_names]
            reachable = None
            for n_ in range(0, 7):
                dans = model_one({"op": "dist", "program": vreqs[vi]["program"], "n": n_, "vars": tv_names, "sigma0": s0v}, timeout=60)
                if not dans.get("ok"):
                    reachable = None
                    break
                reachable = False
                if any(Fr(w_) != 0 and [Fr(y_) for y_ in vals_] == want for w_, vals_ in dans["dist"]):
                    reachable = True
                    break
            if reachable is not True:
                chk.count("V1:not-inductive-from-unreachable-state" if reachable is False else "V1:not-inductive-reachability-undecided")
                continue
        rec = {"case": c, "fp_iterations": it, "variable": v, "kind": "not-inductive", "why": why, "type": types.get(v)}
        fid = attribute(PROP, rec)
        if fid:
            chk.known(fid[0], fid[1])
        else:
            chk.violation(f"inferred types are not an inductive invariant: {v} : Finite({', '.join(types.get(v, []))}) leaves its type "
                          f"({why.get('stage')}: value {why.get('value')} from the typed state {why.get('assign')})",
                          {"case": pipeline.case_to_json(c), "text": c["text_used"], "variable": v, "inferred_type": types.get(v),
                           "why": why, "all_types": types,
                           "how": "polar-model op types_inductive on the normalised program and program.typedefs; the witness is a "
                                  "typed state and a path of one iteration that leaves the types"})
    chk.obligation("validator:V1-types-inductive", lean_ok and (n_ind > 0 or not vreqs), {"instances_inductive_for_all_n": n_ind})
    chk.obligation("correspondence:types-contain-reachable-values", lean_ok and ok_jobs > 0 and
                   chk.counts.get("harness-error", 0) == 0, {"jobs_ok": ok_jobs, "jobs": len(jobs)})
    chk.assumptions = [f"reachable values enumerated for n = 0..{nmax} (frozen iterations included)",
                       "user-declared types are taken as given"]
    return chk.finish(level="proof",
                      rule="seeded generator weighted towards guarded/finite/branchy; job = (program, type_fp_iterations); "
                           "non-trivial iff some inferred type has more than one value",
                      trusted_base=["Lean kernel/compiler (Polar/Sem.lean)", "harness AST conversion (harness/tasks/convert.py)"])


def replay(path):
    with open(os.path.join(ROOT, path) if not os.path.isabs(path) else path) as fh:
        blob = json.load(fh)
    print(json.dumps({k: blob.get(k) for k in ("variable", "inferred_type", "reachable_outside", "fp_iterations")}, indent=1))
    print(blob.get("text"))
    return 1
