"""C17 — strategy and representation options do not change any reported result.

Every case is analysed by the real pipeline under the option matrix (cond2arithm, categorical
expansion, forced cyclic solver, declared types instead of inference, small fixed-point budget,
numeric root options); wherever a goal succeeds under a setting its values must equal the exact
expectations of the Lean reference semantics (hence agree pairwise); results flagged exact must be
exactly equal, results computed with numeric roots may deviate within a tolerance but must then
be flagged rounded."""
import json
import os
from fractions import Fraction as Fr

from .. import pipeline, hast as H
from ..common import Check, lean_gate, ROOT, model_batch_parallel
from ..oracle import case_text, polar_subs, moments_request
from ..pool import run_tasks
from ..findings import attribute
from ..theorems import THEOREMS as _T

PROP = "C17"
THEOREMS = _T.get(PROP, [])

SETTINGS = [
    ("baseline", {}, False, False),
    ("cond2arithm", {"cond2arithm": True}, False, False),
    ("transform_categoricals", {"transform_categoricals": True}, False, False),
    ("both", {"cond2arithm": True, "transform_categoricals": True}, False, False),
    ("force_cyclic", {}, True, False),
    ("declared_types", {"disable_type_inference": True}, False, True),
    ("fp_iterations_1", {"type_fp_iterations": 1}, False, False),
    ("numeric_croots", {"numeric_croots": True}, True, False),
    ("numeric_roots", {"numeric_roots": True, "numeric_eps": 1e-12}, True, False),
]


def with_declared_types(case):
    p = dict(case["program"])
    types = list(p.get("types", []))
    have = {v for v, _ in types}
    for f, dom in case.get("fin", {}).items():
        if f not in have:
            vals = sorted(Fr(d) for d in dom)
            if len(vals) >= 2 and all(v.denominator == 1 for v in vals) and vals == [vals[0] + i for i in range(len(vals))] \
                    and (ord(f[0]) + len(vals)) % 3 != 0:
                # the other documented way to declare a finite type
                types.append((f, f"FiniteRange({vals[0]}, {vals[-1]})"))
            else:
                types.append((f, "Finite(" + ", ".join(H.fr_str(Fr(d)) for d in dom) + ")"))
    p["types"] = types
    c = dict(case)
    c["program"] = p
    return c


def approx_equal(tag, s, want, tol):
    try:
        if tag == "q":
            return abs(float(Fr(s)) - float(want)) <= tol * max(1.0, abs(float(want)))
        z = complex(s.replace("*I", "j").replace(" ", "")) if "I" in s else complex(float(s))
        return abs(z - float(want)) <= tol * max(1.0, abs(float(want)))
    except Exception:
        return False


def run(tier):
    chk = Check(PROP, tier)
    lean_ok = lean_gate(chk, THEOREMS)
    quick = tier == "quick"
    n_gen = 22 if quick else 260
    nmax = 5
    cases = pipeline.load_corpus(PROP) + pipeline.generate_cases(
        n_gen, f"{PROP}-{tier}", families=["branchy", "finite", "choice", "guarded", "poly", "simult", "param", "cont"])
    jobs = []
    for c in cases:
        for name, st, fc, decl in SETTINGS:
            cc = with_declared_types(c) if decl else c
            text = cc.get("text") if (cc.get("text") and not decl) else case_text(cc)
            jobs.append((c, name, st, fc, text))
    tasks = [{"fn": "harness.tasks.analyze:analyze",
              "args": {"text": text, "goals": [[[x, k] for x, k in g] for g in c["goals"]], "subs": polar_subs(c),
                       "nmax": nmax, "settings": st, "force_cyclic": fc}} for c, name, st, fc, text in jobs]
    outs = run_tasks(tasks, timeout=45 if quick else 150, progress=50) if lean_ok else []
    oracle = model_batch_parallel([moments_request(c, nmax) for c in cases]) if lean_ok else []
    per_case = {}
    for (c, name, st, fc, text), out in zip(jobs, outs):
        per_case.setdefault(id(c), []).append((name, st, fc, text, out))
    n_compared = 0
    for c, o in zip(cases, oracle):
        entries = per_case.get(id(c), [])
        c["text_used"] = case_text(c)
        succeeded = {}
        for name, st, fc, text, out in entries:
            chk.evaluations += 1
            if out["status"] == "timeout":
                chk.count(f"{name}:timeout")
                continue
            if out["status"] != "ok":
                chk.count("harness-error")
                chk.obligation("harness:task", False, out)
                continue
            res = out["result"]
            if not res["accepted"]:
                chk.count(f"{name}:refused-{res['error']['stage']}")
                continue
            if res.get("abstracted"):
                # the tool replaced a condition it could not normalise by a Bernoulli draw with an unknown probability symbol and
                # reports the results in terms of that symbol (with a legend): a different, parametrised answer, not comparable here
                chk.count(f"{name}:condition-abstracted-by-unknown-probability")
                continue
            for gi, g in enumerate(res["goals"]):
                if not g.get("ok"):
                    chk.count(f"{name}:refused-solve")
                    continue
                succeeded.setdefault(gi, []).append((name, g, text))
        for gi, lst in succeeded.items():
            want = [Fr(x) for x in o["values"][gi]] if o.get("ok") else None
            ref = None
            for name, g, text in lst:
                vals = [tuple(v) for v in g["values"]]
                numeric = name.startswith("numeric")
                bad = None
                if want is not None:
                    for n, ((tag, s), w) in enumerate(zip(vals, want)):
                        if g["exact"]:
                            if not (tag == "q" and Fr(s) == w):
                                # an exact result may still print radicals that are numerically right: accept only exact
                                if tag in ("irrational",) and approx_equal(tag, s, w, 1e-30):
                                    continue
                                bad = (n, tag, s, H.fr_str(w), "flagged exact but not equal")
                                break
                        else:
                            if not approx_equal(tag, s, w, 1e-6):
                                bad = (n, tag, s, H.fr_str(w), "rounded result outside tolerance")
                                break
                    n_compared += 1
                else:
                    if ref is None:
                        ref = (name, vals)
                    elif not numeric and g["exact"] and ref[1] != vals:
                        n_ = next(i for i, (a, b) in enumerate(zip(ref[1], vals)) if a != b)
                        bad = (n_, vals[n_][0], vals[n_][1], ref[1][n_][1], f"differs from setting {ref[0]}")
                if numeric and g["exact"] and any(t == "float" for t, _ in vals):
                    bad = bad or (0, "float", vals[0][1], "", "float result flagged exact")
                chk.count(f"{name}:goal-ok")
                if bad:
                    rec = {"case": c, "setting": name, "goal": g["mono"], "bad": bad}
                    fid = attribute(PROP, rec)
                    if fid:
                        chk.known(fid[0], fid[1])
                    else:
                        n, tag, s, w, why = bad
                        chk.violation(f"setting {name}: E({g['mono']}) at n={n}: {s} vs exact {w} ({why})",
                                      {"case": pipeline.case_to_json(c), "text": text, "setting": name,
                                       "settings": dict(next(st for nm, st, _, _ in SETTINGS if nm == name)),
                                       "goal": g["mono"], "n": n, "value": s, "exact": w, "why": why,
                                       "closed_form": g.get("closed_form"), "exact_flag": g.get("exact")})
                else:
                    if len(lst) >= 3:
                        chk.nontrivial.add(c["text_used"] + json.dumps(g["mono"]))
        if succeeded:
            chk.sample({"text": c["text_used"], "settings_ok": sorted({nm for l in succeeded.values() for nm, _, _ in l})}, limit=3)
    # ---- exactness flag of derived goals (central moments, cumulants) under the numeric-root options: a goal built from several
    #      raw moments must be reported rounded as soon as one of them is
    flag_cases = [c for c in cases if c.get("corpus", "").startswith(("c17_", "c04_", "f02_"))][:10] + cases[-4:]
    ftasks = []
    fmeta = []
    for c in flag_cases:
        body_vars = sorted(H.stmts_assigned(c["program"]["body"]))
        v = next((x for x in ("x", "a", "y", "b", "c") if x in body_vars), None)
        if not v:
            continue
        for opt in (["--numeric_roots"], ["--numeric_croots"]):
            ftasks.append({"fn": "harness.tasks.analyze:cli_goals",
                           "args": {"text": case_text(c), "goal_strs": [f"E({v})", f"E({v}**2)", f"c2({v})", f"k2({v})"], "at_n": 4,
                                    "extra_args": opt}})
            fmeta.append((c, v, opt))
    fouts = run_tasks(ftasks, timeout=60 if quick else 150) if (lean_ok and ftasks) else []
    n_flags = 0
    for (c, v, opt), out in zip(fmeta, fouts):
        if out["status"] != "ok" or out["result"].get("error"):
            chk.count("flags:" + (out["status"] if out["status"] != "ok" else "refused"))
            continue
        lines = out["result"]["lines"]
        flags = {}
        cur = None
        for l in lines:
            for key in (f"E({v})", f"E({v}**2)", f"c2({v})", f"k2({v})", f"{v} =", f"{v}**2 ="):
                if l.startswith(key + " =") or l.startswith(key):
                    if "| n=" not in l:
                        cur = key.replace(" =", "")
            if l.startswith("Solution is") and cur:
                flags.setdefault(cur, "exact" if "exact" in l else "rounded")
        raw = [flags.get(f"E({v})", flags.get(v)), flags.get(f"E({v}**2)", flags.get(f"{v}**2"))]
        if None in raw:
            chk.count("flags:unparsed")
            continue
        n_flags += 1
        for derived in (f"c2({v})", f"k2({v})"):
            fl = flags.get(derived)
            if fl is None:
                continue
            if "rounded" in raw and fl == "exact":
                chk.violation(f"{' '.join(opt)}: {derived} is reported as exact although a raw moment it is built from is rounded "
                              f"(E({v}): {raw[0]}, E({v}**2): {raw[1]})",
                              {"case": pipeline.case_to_json(c), "text": case_text(c), "options": opt, "flags": flags, "lines": lines[:40]})
    chk.obligation("correspondence:exactness-flag-of-derived-goals", lean_ok and (n_flags > 0 or not ftasks), {"runs": n_flags})
    chk.obligation("correspondence:option-matrix-agrees-with-exact-moments", lean_ok and n_compared > 0 and
                   chk.counts.get("harness-error", 0) == 0, {"goal_setting_pairs_compared": n_compared})
    chk.assumptions = ["'one side refuses' is recorded, not a violation (the property is conditional on both succeeding)",
                       "numeric-root results: tolerance 1e-6 relative at n <= 5; precision clause is partial"]
    return chk.finish(level="proof",
                      rule="seeded generator x 9 settings; non-trivial = goal that succeeded under at least 3 settings",
                      trusted_base=["Lean kernel/compiler (reference semantics)", "sympy exact evaluation of closed forms"])


def replay(path):
    with open(os.path.join(ROOT, path) if not os.path.isabs(path) else path) as fh:
        blob = json.load(fh)
    print(json.dumps({k: blob.get(k) for k in ("setting", "settings", "goal", "n", "value", "exact", "why")}, indent=1))
    print(blob.get("text"))
    return 1
