"""C19 — texts that denote the same loop yield the same analysis.

(a) every generated AST is printed in several spellings (whitespace / comments / blank lines,
redundant parentheses, decimals vs fractions, explicit vs omitted last probability, simultaneous
assignment vs explicit temporaries, elif chains vs nested else-if); the real parser's result for
each spelling is executed by the Lean reference semantics and must have the law of the generator
AST (this pins Python operator precedence), and the closed forms of the full pipeline must agree
with the exact expectations for every spelling; (b) texts made ill-formed by a single edit must be
rejected with an error at the parse stage; (c) choices with invalid constant probability vectors
must be rejected."""
import json
import os
import random
from fractions import Fraction as Fr

from .. import pipeline, hast as H, gen
from ..common import Check, lean_gate, ROOT, model_batch_parallel, rng
from ..oracle import case_text, polar_subs, moments_request, lean_sigma0
from ..pool import run_tasks
from ..findings import attribute
from ..theorems import THEOREMS as _T
from .c02 import _walk_vars, source_monos

PROP = "C19"
THEOREMS = _T.get(PROP, [])


def styles(r):
    return [
        ("canonical", H.Style()),
        ("trivia", H.Style(rnd=r, trivia=True)),
        ("parens", H.Style(rnd=r, extra_parens=True)),
        ("decimals", H.Style(rnd=r, decimals=True)),
        ("explicit-last-prob", H.Style(explicit_last_prob=True)),
        ("simult-temporaries", H.Style(simult_temps=True)),
        ("nested-else-if", H.Style(elif_nested=True)),
        ("all", H.Style(rnd=r, trivia=True, extra_parens=True, decimals=True, explicit_last_prob=True,
                        elif_nested=True)),
    ]


def arith_stress_case(r, i):
    """a deterministic program whose right-hand sides mix operators without redundant parentheses"""
    vs = ["x", "y", "z"]

    def rnd_expr(depth):
        k = r.random()
        if depth <= 0 or k < 0.25:
            return r.choice([H.var(r.choice(vs)), H.num(r.choice([1, 2, 3, Fr(1, 2), 5]))])
        op = r.choice(["add", "sub", "sub", "mul", "neg", "pow", "divc"])
        if op == "neg":
            return H.neg(rnd_expr(depth - 1))
        if op == "pow":
            if r.random() < 0.35:
                # a signed atom in parentheses as the base of a power: (-x)**2 is x**2, -x**2 is not
                base = r.choice([H.neg(H.var(r.choice(vs))), H.num(-r.choice([1, 2, 3])), H.neg(H.num(r.choice([2, Fr(1, 2)])))])
                return H.pw(base, r.choice([2, 2, 3, 4]))
            return H.pw(r.choice([H.var(r.choice(vs)), rnd_expr(depth - 1)]), r.choice([2, 2, 3]))
        if op == "divc":
            return H.div(rnd_expr(depth - 1), H.num(r.choice([2, 3, 4])))
        return (op, rnd_expr(depth - 1), rnd_expr(depth - 1))
    init = [H.assign(v, H.ex(H.num(r.choice([1, 2, -1, Fr(1, 2)])))) for v in vs]
    # acyclic: each variable only reads variables, degree grows -> evaluate for n <= 2 only
    body = [H.assign("w", H.ex(rnd_expr(3))), H.assign("x", H.ex(H.add(H.var("x"), H.num(1))))]
    return {"family": "arith", "program": {"init": init + [H.assign("w", H.ex(H.num(0)))], "guard": H.TT, "body": body},
            "goals": [[("w", 1)]], "params": {}, "sigma0": {}, "features": ["arith-stress"], "id": f"arith-{i}"}


def malformed(text, r):
    """single edits that certainly leave the grammar; returns list of (kind, text)"""
    lines = text.split("\n")
    out = []
    body_idx = [i for i, l in enumerate(lines) if "=" in l and "while" not in l and "==" not in l and "<=" not in l and ">=" not in l]
    widx = next(i for i, l in enumerate(lines) if l.startswith("while "))
    last_end = max(i for i, l in enumerate(lines) if l.strip() == "end")
    out.append(("missing-final-end", "\n".join(lines[:last_end] + lines[last_end + 1:])))
    out.append(("missing-colon-after-guard", "\n".join(lines[:widx] + [lines[widx].rstrip().rstrip(":")] + lines[widx + 1:])))
    out.append(("missing-while", "\n".join(lines[:widx] + [lines[widx].replace("while ", "", 1)] + lines[widx + 1:])))
    if body_idx:
        i = r.choice(body_idx)
        l = lines[i]
        out.append(("stray-close-paren", "\n".join(lines[:i] + [l + ")"] + lines[i + 1:])))
        out.append(("modulo-operator", "\n".join(lines[:i] + [l + " % 2"] + lines[i + 1:])))
        out.append(("two-atoms", "\n".join(lines[:i] + [l + " y"] + lines[i + 1:])))
        out.append(("uppercase-variable", "\n".join(lines[:i] + [l.split("=")[0] + "= Qq + 1"] + lines[i + 1:])))
        out.append(("unknown-distribution", "\n".join(lines[:i] + [l.split("=")[0] + "= Foo(1, 2)"] + lines[i + 1:])))
        out.append(("dangling-probability", "\n".join(lines[:i] + [l.split("=")[0] + "= 1 {1/2}"] + lines[i + 1:])))
        out.append(("double-assign-op", "\n".join(lines[:i] + [l.replace("=", "= =", 1)] + lines[i + 1:])))
        out.append(("unary-minus-paren", "\n".join(lines[:i] + [l.split("=")[0] + "= -(1 + 2)"] + lines[i + 1:])))
    out.append(("extra-end", text + "end\n"))
    out.append(("unclosed-if", "\n".join(lines[:widx + 1] + ["    if true:", "        qq = 1"] + lines[widx + 1:])))
    return out


INVALID_PROBS = ["1 {0.7} 2 {0.7}", "1 {3/2} 2", "1 {-1/2} 2", "1 {1/2} 2 {1/2} 3 {1/4}", "1 {0.5} 2 {0.6} 3",
                 "1 {p} 2 {2}", "x + 1 {-0.1} x", "1 {1.5}  2 {-0.5}", "1 {2/3} 2 {2/3} 3"]


def run(tier):
    chk = Check(PROP, tier)
    lean_ok = lean_gate(chk, THEOREMS)
    quick = tier == "quick"
    n_gen = 14 if quick else 200
    n_arith = 40 if quick else 600
    nmax = 4
    r = rng(f"{PROP}-{tier}-styles")
    cases = pipeline.load_corpus(PROP) + pipeline.generate_cases(n_gen, f"{PROP}-{tier}",
                                    families=["simult", "choice", "branchy", "param", "finite", "poly", "cont", "guarded"])
    ar = [arith_stress_case(r, i) for i in range(n_arith)]
    # long decimals (7+ places, tiny constants): decimal and fraction notation must denote the same rational
    def long_decimal_case(i):
        d1 = Fr(r.choice([3333333, 7142857, 1234567, 9999988, 6666667]), 10**7)
        d2 = Fr(r.choice([1, 3, 25]), 10**r.choice([7, 8, 9]))
        d3 = Fr(r.choice([14285714, 11111111, 27182818]), 10**8)
        init = [H.assign("x", H.ex(H.num(0))), H.assign("y", H.ex(H.num(1)))]
        body = [H.assign("x", ("choice", [(H.add(H.var("x"), H.num(1)), H.num(d1)), (H.sub(H.var("x"), H.num(1)), H.sub(H.num(1), H.num(d1)))])),
                H.assign("y", H.ex(H.add(H.mul(H.num(d3), H.var("y")), H.num(d2))))]
        if i % 2 == 0:
            body.append(H.assign("u", ("dist", "Normal", [H.num(d3), H.num(1)])))
            init.append(H.assign("u", H.ex(H.num(0))))
        return {"family": "long-decimal", "program": {"init": init, "guard": H.TT, "body": body},
                "goals": [[("x", 1)], [("y", 1)], [("x", 2)]] + ([[("u", 2)]] if i % 2 == 0 else []),
                "params": {}, "sigma0": {}, "features": ["long-decimals"], "id": f"longdec-{i}"}
    cases += [long_decimal_case(i) for i in range(4 if quick else 40)]

    def decimal_expression_case(i):
        """probabilities written as arithmetic over decimals: the decimal as divisor, as base of a power, in a difference"""
        forms = [
            H.div(H.num(1), H.num(Fr(5, 2))),                                   # 1/2.5
            H.div(H.num(Fr(1, 10)), H.num(Fr(2, 5))),                           # 0.1/0.4
            H.pw(H.num(Fr(3, 4)), 2),                                           # 0.75**2
            H.sub(H.num(1), H.pw(H.num(Fr(1, 2)), 2)),                          # 1 - 0.5**2
            H.mul(H.num(Fr(1, 2)), H.div(H.num(1), H.num(Fr(5, 4)))),           # 0.5*(1/1.25) printed with precedence
            H.div(H.num(Fr(3, 10)), H.num(3)),                                  # 0.3/3
            H.div(H.num(1), H.mul(H.num(Fr(5, 2)), H.num(2))),                  # 1/(2.5*2)
            H.sub(H.num(Fr(9, 10)), H.div(H.num(1), H.num(Fr(5, 2)))),          # 0.9 - 1/2.5
        ]
        pr = forms[i % len(forms)]
        init = [H.assign("x", H.ex(H.num(0))), H.assign("y", H.ex(H.num(1)))]
        body = [H.assign("x", ("choice", [(H.add(H.var("x"), H.num(1)), pr), (H.var("x"), H.sub(H.num(1), pr))])),
                H.assign("y", H.ex(H.add(H.var("y"), H.mul(H.div(H.num(1), H.num(Fr(5, 2))), H.var("x")))))]
        return {"family": "decimal-expression", "program": {"init": init, "guard": H.TT, "body": body},
                "goals": [[("x", 1)], [("x", 2)], [("y", 1)]], "params": {}, "sigma0": {},
                "features": ["decimal-expression-probability"], "id": f"decexpr-{i}"}
    cases += [decimal_expression_case(i) for i in range(8 if quick else 24)]
    # ---- (a) spellings: parse-level law + full pipeline
    parse_jobs, full_jobs = [], []
    for c in cases:
        for name, st in styles(r):
            text = H.program_str(c["program"], st)
            parse_jobs.append((c, name, text))
            full_jobs.append((c, name, text))
    for c in ar:
        for name, st in [("canonical", H.Style()), ("parens", H.Style(rnd=r, extra_parens=True))]:
            parse_jobs.append((c, name, H.program_str(c["program"], st)))
    ptasks = [{"fn": "harness.tasks.parse:parse_only", "args": {"text": t}} for _, _, t in parse_jobs]
    ftasks = [{"fn": "harness.tasks.analyze:analyze",
               "args": {"text": t, "goals": [[[x, k] for x, k in g] for g in c["goals"]], "subs": polar_subs(c), "nmax": nmax}}
              for c, _, t in full_jobs]
    # ---- (b) malformed, (c) invalid probabilities
    mal = []
    for c in cases[: (6 if quick else 60)] + ar[: (4 if quick else 40)]:
        mal += [(k, t) for k, t in malformed(H.program_str(c["program"]), r)]
    inv = [("invalid-probabilities", f"x = 0\nwhile true:\n    x = {rhs}\nend\n") for rhs in INVALID_PROBS]
    # a variable whose name the expression reader takes for a mathematical constant cannot denote a program variable (F68)
    inv += [("reserved-constant-as-variable", f"{nm} = 2\ns = 0\nwhile true:\n    {nm} = 2 {{1/2}} 4\n    s = s + {nm}\nend\n")
            for nm in ("e", "pi", "oo", "nan", "inf", "zoo")]
    mtasks = [{"fn": "harness.tasks.parse:parse_only", "args": {"text": t}} for _, t in mal + inv]
    outs = run_tasks(ptasks + ftasks + mtasks, timeout=45 if quick else 150, progress=100) if lean_ok else []
    pouts, fouts, mouts = outs[:len(ptasks)], outs[len(ptasks):len(ptasks) + len(ftasks)], outs[len(ptasks) + len(ftasks):]

    # (a1) parse-level: law of the parsed program == law of the AST
    reqs, meta = [], []
    for (c, name, text), out in zip(parse_jobs, pouts):
        chk.evaluations += 1
        if out["status"] != "ok":
            chk.count("parse-task:" + out["status"])
            if out["status"] == "error":
                chk.obligation("harness:parse-task", False, out)
            continue
        res = out["result"]
        if not res["accepted"]:
            rec = {"case": c, "style": name, "text": text, "error": res["error"]}
            fid = attribute(PROP, rec)
            if fid:
                chk.known(fid[0], fid[1])
            else:
                chk.violation(f"spelling '{name}' of a well-formed program is rejected: {res['error']['etype']}: {res['error']['message'][:100]}",
                              {"text": text, "style": name, "error": res["error"], "case": pipeline.case_to_json(c)})
            continue
        if res["program"] is None:
            chk.count("parsed-unconvertible")
            continue
        body_vars, monos = source_monos(c)
        n_eval = 2 if c["family"] == "arith" else 3
        s0 = dict(lean_sigma0(c))
        names = set()
        _walk_vars(res["program"], names)
        for v in names:
            if v not in s0:
                s0[v] = "97/13"
        reqs.append({"op": "moments", "program": H.program_json(c["program"]), "sigma0": s0,
                     "monos": [[[x, k] for x, k in m] for m in monos], "nmax": n_eval, "budget": 2000})
        reqs.append({"op": "moments", "program": res["program"], "sigma0": s0,
                     "monos": [[[x, k] for x, k in m] for m in monos], "nmax": n_eval, "budget": 2000})
        meta.append((c, name, text, monos))
    answers = model_batch_parallel(reqs) if reqs else []
    ok_parse = 0
    for i, (c, name, text, monos) in enumerate(meta):
        a, b = answers[2 * i], answers[2 * i + 1]
        if not a.get("ok") or not b.get("ok"):
            chk.count("parse-oracle-refused:" + str((a if not a.get("ok") else b).get("error"))[:30])
            continue
        if a["values"] != b["values"]:
            mi = next(j for j, (x, y) in enumerate(zip(a["values"], b["values"])) if x != y)
            chk.violation(f"spelling '{name}': the parsed program has a different law than the AST it was printed from "
                          f"(E({monos[mi]}): {a['values'][mi]} vs {b['values'][mi]})",
                          {"text": text, "style": name, "mono": monos[mi], "ast_values": a["values"][mi],
                           "parsed_values": b["values"][mi], "case": pipeline.case_to_json(c)})
        else:
            ok_parse += 1
            chk.count("parse-law-equal:" + name)
            if c["family"] == "arith":
                chk.nontrivial.add(text)
    # (a2) full pipeline per spelling vs oracle
    oracle = model_batch_parallel([moments_request(c, nmax) for c in cases]) if lean_ok else []
    omap = {id(c): o for c, o in zip(cases, oracle)}
    ok_full = 0
    for (c, name, text), out in zip(full_jobs, fouts):
        chk.evaluations += 1
        cc = dict(c)
        cc["text_used"] = text
        rec = pipeline.judge(cc, out, omap[id(c)])
        chk.count(f"pipeline:{rec['status']}")
        if rec["status"] == "mismatch":
            fid = attribute(PROP, rec)
            if fid:
                chk.known(fid[0], fid[1])
            else:
                m = rec["mismatches"][0]
                chk.violation(f"spelling '{name}': E({m['goal']}) at n={m['n']}: polar={m['polar']} exact={m['oracle']}",
                              dict(pipeline.replay_blob(rec), style=name))
        elif rec["status"] == "agree":
            ok_full += 1
            chk.nontrivial.add(text)
            chk.sample({"style": name, "text": text}, limit=4)
    # (b), (c)
    rejected = 0
    for (kind, text), out in zip(mal + inv, mouts):
        chk.evaluations += 1
        if out["status"] != "ok":
            chk.count("malformed-task:" + out["status"])
            continue
        res = out["result"]
        if res["accepted"]:
            rec = {"kind": kind, "text": text, "printed": res.get("printed")}
            fid = attribute(PROP, rec)
            if fid:
                chk.known(fid[0], fid[1])
            else:
                chk.violation(f"ill-formed text ({kind}) is accepted and read as: {str(res.get('printed'))[:160]!r}",
                              {"kind": kind, "text": text, "parsed_as": res.get("printed")})
        else:
            rejected += 1
            chk.count("rejected:" + kind)
    chk.obligation("correspondence:spellings-parse-to-the-same-law", lean_ok and ok_parse > 0, {"equal": ok_parse})
    chk.obligation("correspondence:spellings-same-closed-forms", lean_ok and ok_full > 0, {"agree": ok_full})
    chk.obligation("correspondence:ill-formed-texts-rejected", lean_ok and rejected > 0, {"rejected": rejected})
    chk.assumptions = ["the lark grammar / symengine front end is tied differentially only (no model parser yet)",
                       "ill-formed stream: 13 edit kinds that leave the grammar by construction"]
    return chk.finish(level="proof",
                      rule="generated ASTs x 8 spellings (+ arithmetic-precedence stress programs x 2); malformed = single edits; "
                           "non-trivial = spelling whose pipeline result agreed with the exact moments, or arithmetic stress text",
                      trusted_base=["Lean kernel/compiler (reference semantics)", "harness pretty-printer (harness/hast.py)"])


def replay(path):
    with open(os.path.join(ROOT, path) if not os.path.isabs(path) else path) as fh:
        blob = json.load(fh)
    print(json.dumps({k: v for k, v in blob.items() if k not in ("case",)}, indent=1)[:3000])
    return 1
