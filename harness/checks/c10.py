"""C10 — reported sensitivities are the parameter derivatives of the exact moments.

For generated parametric programs both methods of the real tool (differentiating the closed form;
solving the sensitivity recurrences of DiffRecBuilder) are evaluated at n = 0..N and compared with
the exact derivative of E(M)(n) with respect to the parameter at the parameter point.  The exact
derivative comes from the Lean reference semantics: E(M)(n) is a polynomial in the parameter, it is
evaluated exactly at D+3 parameter values and the derivative of the interpolating polynomial is
taken (the two spare points verify that D bounds the degree)."""
import json
import os
from fractions import Fraction as Fr

from .. import pipeline, hast as H
from ..common import Check, lean_gate, ROOT, model_batch_parallel
from ..oracle import case_text, polar_subs, lean_sigma0
from ..pool import run_tasks
from ..findings import attribute
from ..theorems import THEOREMS as _T

PROP = "C10"
THEOREMS = _T.get(PROP, [])


def interp_derivative(xs, ys):
    """derivative at xs[0] of the polynomial through (xs[i], ys[i])"""
    x0, y0 = xs[0], ys[0]
    tot = Fr(0)
    for j in range(1, len(xs)):
        w = (ys[j] - y0) / (xs[j] - x0)
        for k in range(1, len(xs)):
            if k != j:
                w *= (x0 - xs[k]) / (xs[j] - xs[k])
        tot += w
    return tot


def interp_value(xs, ys, x):
    tot = Fr(0)
    for j in range(len(xs)):
        w = ys[j]
        for k in range(len(xs)):
            if k != j:
                w *= (x - xs[k]) / (xs[j] - xs[k])
        tot += w
    return tot


def run(tier):
    chk = Check(PROP, tier)
    lean_ok = lean_gate(chk, THEOREMS)
    quick = tier == "quick"
    n_gen = 30 if quick else 180
    nmax = 3
    D = 10
    cases = pipeline.load_corpus(PROP) + pipeline.generate_cases(n_gen, f"{PROP}-{tier}", families=["param"])
    cases = [c for c in cases if c["params"]]
    jobs = []
    for c in cases:
        c["text_used"] = c.get("text") or case_text(c)
        for p in sorted(c["params"]):
            jobs.append((c, p))
    tasks = [{"fn": "harness.tasks.sens:sensitivity",
              "args": {"text": c["text_used"], "goals": [[[x, k] for x, k in g] for g in c["goals"][:3]], "param": p,
                       "subs": polar_subs(c), "nmax": nmax}} for c, p in jobs]
    outs = run_tasks(tasks, timeout=80 if quick else 240, progress=25) if lean_ok else []
    cli_tasks = [{"fn": "harness.tasks.sens:sensitivity_cli",
                  "args": {"text": c["text_used"], "goals": [[[x, k] for x, k in g] for g in c["goals"][:3]], "param": p,
                           "subs": polar_subs(c), "nmax": nmax}} for c, p in jobs]
    cli_outs = run_tasks(cli_tasks, timeout=80 if quick else 240, progress=None) if lean_ok else []
    reqs = []
    for c, p in jobs:
        p0 = Fr(c["params"][p])
        xs = [p0 + Fr(j, 7) for j in range(D + 3)]
        for x in xs:
            s0 = dict(lean_sigma0(c))
            s0[p] = H.fr_str(x)
            reqs.append({"op": "moments", "program": H.program_json(c["program"]), "sigma0": s0,
                         "monos": [[[v, k] for v, k in g] for g in c["goals"][:3]], "nmax": nmax, "budget": 1500})
    answers = model_batch_parallel(reqs) if lean_ok else []
    per = D + 3
    n_ok = 0
    for ji, ((c, p), out) in enumerate(zip(jobs, outs)):
        chk.evaluations += 1
        if out["status"] == "timeout":
            chk.count("timeout")
            continue
        if out["status"] != "ok":
            chk.count("harness-error")
            chk.obligation("harness:task", False, out)
            continue
        res = out["result"]
        if not res["accepted"]:
            chk.count("refused:" + res["error"]["etype"])
            continue
        ans = answers[ji * per:(ji + 1) * per]
        if not all(a.get("ok") for a in ans):
            chk.count("oracle-refused")
            continue
        p0 = Fr(c["params"][p])
        xs = [p0 + Fr(j, 7) for j in range(per)]
        for gi, g in enumerate(res["goals"]):
            nn = min(len(a["values"][gi]) for a in ans)
            exact_d = []
            degree_ok = True
            for n in range(nn):
                ys = [Fr(a["values"][gi][n]) for a in ans]
                # the two spare points must lie on the degree-D interpolant
                for extra in (D + 1, D + 2):
                    if interp_value(xs[:D + 1], ys[:D + 1], xs[extra]) != ys[extra]:
                        degree_ok = False
                exact_d.append(interp_derivative(xs[:D + 1], ys[:D + 1]))
            if not degree_ok:
                chk.count("degree-bound-exceeded")
                continue
            results = {}
            for method in ("diff_closed_form", "diff_recurrences"):
                m = g[method]
                if "error" in m:
                    chk.count(f"{method}:refused:{m['error']['etype']}")
                    continue
                bad = None
                mism = []
                for n, (pv, want) in enumerate(zip(m["values"], exact_d)):
                    tag, s = pv
                    if tag == "undefined-limit" and Fr(s) == want:
                        mism.append({"kind": "removable-singularity", "n": n})
                        continue
                    if tag != "q" or Fr(s) != want:
                        bad = (n, s, H.fr_str(want), tag)
                        mism.append({"kind": "wrong", "n": n})
                        break
                chk.count(f"{method}:compared")
                results[method] = m["values"][:nn]
                if mism and not bad:
                    bad = (mism[0]["n"], "0/0", H.fr_str(exact_d[mism[0]["n"]]), "undefined at the parameter point (limit is exact)")
                if bad:
                    rec = {"case": c, "param": p, "goal": g["mono"], "method": method, "bad": bad, "mismatches": mism}
                    fid = attribute(PROP, rec)
                    if fid:
                        chk.known(fid[0], fid[1])
                    else:
                        n, s, want, tag = bad
                        chk.violation(f"{method}: d/d{p} E({g['mono']}) at n={n}: reported {s} ({tag}), exact {want}",
                                      {"case": pipeline.case_to_json(c), "text": c["text_used"], "param": p, "goal": g["mono"],
                                       "method": method, "n": n, "reported": s, "exact": want, "expression": m.get("str"),
                                       "how": "harness.tasks.sens:sensitivity; exact = derivative of the interpolating polynomial of the "
                                              "Lean-semantics moments at 11 parameter values"})
                else:
                    n_ok += 1
                    if any(d != 0 for d in exact_d):
                        chk.nontrivial.add(c["text_used"] + p + json.dumps(g["mono"]) + method)
                    chk.sample({"text": c["text_used"], "param": p, "goal": g["mono"], "method": method,
                                "derivative": [H.fr_str(d) for d in exact_d]}, limit=4)
            if len(results) == 2 and results["diff_closed_form"] != results["diff_recurrences"]:
                chk.count("methods-disagree")
            # the same two methods through the real SensitivityAction (printed lines)
            co = cli_outs[ji] if ji < len(cli_outs) else None
            if co and co["status"] == "ok":
                for method in ("cli_sens_diff", "cli_sens"):
                    m = co["result"].get(method, {})
                    if "error" in m:
                        chk.count(f"{method}:refused:{m['error'].get('etype')}")
                        continue
                    rows = m.get("rows", [])
                    if gi >= len(rows) or "values" not in rows[gi]:
                        chk.count(f"{method}:unparsed")
                        continue
                    bad = None
                    for n, (pv, want) in enumerate(zip(rows[gi]["values"], exact_d)):
                        tag, sv = pv
                        if tag == "undefined-limit" and Fr(sv) == want:
                            continue
                        if tag != "q" or Fr(sv) != want:
                            bad = (n, sv, H.fr_str(want), tag)
                            break
                    chk.count(f"{method}:compared")
                    if bad:
                        n, sv, want, tag = bad
                        chk.violation(f"{method} (printed by the sensitivity action): d/d{p} E({g['mono']}) at n={n}: printed {sv} ({tag}), exact {want}",
                                      {"case": pipeline.case_to_json(c), "text": c["text_used"], "param": p, "goal": g["mono"],
                                       "method": method, "n": n, "printed_line": rows[gi]["raw"], "reported": sv, "exact": want})
                    else:
                        n_ok += 1
    # ---- per-instance for-all-n chain of the recurrence method (Polar.Sens.sens_pruned_sound / sens_unique / aug_solution_is_derivative):
    #   delta rows = formal derivative of the moment rows up to justified pruning  ∧  delta initial values = derivative of the initial
    #   values  ∧  reported closed form solves the augmented linear system for all n (window validator)
    #   ⇒  reported sensitivity(n) = d/dp E(M)(n) for all n (moment rows themselves: C03's V2)
    chain_jobs = [(c, p) for c, p in jobs][: (40 if quick else 150)]
    ctasks = [{"fn": "harness.tasks.sens:sens_chain",
               "args": {"text": c["text_used"], "goal": [[x, k] for x, k in c["goals"][0]], "param": p, "subs": polar_subs(c)}}
              for c, p in chain_jobs]
    couts = run_tasks(ctasks, timeout=80 if quick else 240, progress=None) if lean_ok else []
    creqs, cmeta = [], []
    for (c, p), out in zip(chain_jobs, couts):
        if out["status"] != "ok":
            chk.count("chain:" + out["status"])
            continue
        res = out["result"]
        if not res.get("accepted") or "chain_error" in res:
            chk.count("chain:refused")
            continue
        if res["problems"]:
            chk.count("chain:LINK-FAILED(system)")
            chk.violation(f"sensitivity recurrences for d/d{p} E({c['goals'][0]}) are not the derivative of the moment recurrences: "
                          + res["problems"][0],
                          {"case": pipeline.case_to_json(c), "text": c["text_used"], "param": p, "goal": c["goals"][0],
                           "problems": res["problems"], "monomials": res.get("monomials"),
                           "how": "harness.tasks.sens:sens_chain (product rule on RecBuilder's rows vs DiffRecBuilder's rows)"})
            continue
        cl = res.get("closed") or {}
        A, v0 = res.get("matrix"), res.get("init_vector")
        if not cl or not cl.get("exact") or A is None or any(x is None for rw in A for x in rw) or any(x is None for x in v0):
            chk.count("chain:closed-form-or-matrix-unavailable")
            continue
        n0 = max(cl["max_case"] + 1, 0)
        basereq = {"op": "cfinite_check", "A": A, "v": v0, "i": cl["index"], "n0": n0}
        if cl.get("terms") is not None:
            req = dict(basereq, terms=cl["terms"])
        elif cl.get("terms_qd") is not None:
            req = dict(basereq, terms=cl["terms_qd"], D=cl["D"])
        elif cl.get("degs") and all(t == "q" for t, _ in cl["values"]) and n0 + len(A) + sum(cl["degs"]) <= len(cl["values"]):
            W = len(A) + sum(cl["degs"])
            req = dict(basereq, values=[x for _, x in cl["values"][n0:n0 + W]], degs=cl["degs"])
        else:
            chk.count("chain:closed-form-shape-unavailable")
            continue
        creqs += [req, {"op": "matpow_seq", "A": A, "v": v0, "nmax": max(n0, 1)}]
        cmeta.append((c, p, res))
    cans = model_batch_parallel(creqs, timeout=60) if creqs else []
    n_chain = 0
    for k, (c, p, res) in enumerate(cmeta):
        a_cf, a_seq = cans[2 * k], cans[2 * k + 1]
        if not (a_cf.get("ok") and a_seq.get("ok")):
            chk.count("chain:model-refused")
            continue
        cl = res["closed"]
        n0 = max(cl["max_case"] + 1, 0)
        special_ok = all(cl["values"][n][0] == "q" and Fr(cl["values"][n][1]) == Fr(a_seq["seq"][n][cl["index"]])
                         for n in range(min(n0, len(a_seq["seq"]), len(cl["values"]))))
        if a_cf.get("agree") and special_ok:
            n_chain += 1
            chk.count("chain:sensitivity-proved-for-all-n")
        else:
            chk.count("chain:LINK-FAILED(closed-form)")
            chk.violation(f"sensitivity closed form for d/d{p} E({c['goals'][0]}) does not solve the sensitivity recurrences "
                          f"(general solution: {a_cf.get('agree')}, first bad n: {a_cf.get('first_bad')}; special cases: {special_ok})",
                          {"case": pipeline.case_to_json(c), "text": c["text_used"], "param": p, "goal": c["goals"][0],
                           "closed_form": cl.get("str"), "matrix": res["matrix"], "init_vector": res["init_vector"], "cfinite": a_cf})
    chk.obligation("validator-chain:sensitivities-proved-for-all-n", lean_ok and (n_chain > 0 or not cmeta),
                   {"instances": n_chain, "of": len(cmeta)})
    chk.obligation("correspondence:sensitivities-vs-exact-derivative", lean_ok and n_ok > 0 and
                   chk.counts.get("harness-error", 0) == 0, {"method_goal_pairs_equal": n_ok})
    chk.assumptions = ["E(M)(n) is a polynomial of degree <= 10 in the parameter (verified per case by two spare points)",
                       "derivatives compared at n = 0..3 at one parameter point"]
    return chk.finish(level="proof",
                      rule="generated parametric programs x parameters x goals x two methods; non-trivial = exact derivative not identically 0",
                      trusted_base=["Lean kernel/compiler (reference semantics)", "exact Lagrange interpolation in the harness"])


def replay(path):
    with open(os.path.join(ROOT, path) if not os.path.isabs(path) else path) as fh:
        blob = json.load(fh)
    print(json.dumps({k: v for k, v in blob.items() if k != "case"}, indent=1)[:3000])
    return 1
