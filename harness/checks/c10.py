"""C10 — reported sensitivities are the parameter derivatives of the exact moments.

For generated parametric programs both methods of the real tool (differentiating the closed form;
solving the sensitivity recurrences of DiffRecBuilder) are evaluated at n = 0..N and compared with
the exact derivative of E(M)(n) with respect to the parameter at the parameter point.  The exact
derivative comes from the Lean reference semantics: E(M)(n) is a polynomial in the parameter, it is
evaluated exactly at D+3 parameter values and the derivative of the interpolating polynomial is
taken (the two spare points verify that D bounds the degree)."""
import json
import os
from fractions import Fraction as Fr

from .. import pipeline, hast as H
from ..common import Check, lean_gate, ROOT, model_batch_parallel
from ..oracle import case_text, polar_subs, lean_sigma0
from ..pool import run_tasks
from ..findings import attribute
from ..theorems import THEOREMS as _T

PROP = "C10"
THEOREMS = _T.get(PROP, [])


def interp_derivative(xs, ys):
    """derivative at xs[0] of the polynomial through (xs[i], ys[i])"""
    x0, y0 = xs[0], ys[0]
    tot = Fr(0)
    for j in range(1, len(xs)):
        w = (ys[j] - y0) / (xs[j] - x0)
        for k in range(1, len(xs)):
            if k != j:
                w *= (x0 - xs[k]) / (xs[j] - xs[k])
        tot += w
    return tot


def interp_value(xs, ys, x):
    tot = Fr(0)
    for j in range(len(xs)):
        w = ys[j]
        for k in range(len(xs)):
            if k != j:
                w *= (x - xs[k]) / (xs[j] - xs[k])
        tot += w
    return tot


def run(tier):
    chk = Check(PROP, tier)
    lean_ok = lean_gate(chk, THEOREMS)
    quick = tier == "quick"
    n_gen = 30 if quick else 500
    nmax = 3
    D = 10
    cases = pipeline.load_corpus(PROP) + pipeline.generate_cases(n_gen, f"{PROP}-{tier}", families=["param"])
    cases = [c for c in cases if c["params"]]
    jobs = []
    for c in cases:
        c["text_used"] = c.get("text") or case_text(c)
        for p in sorted(c["params"]):
            jobs.append((c, p))
    tasks = [{"fn": "harness.tasks.sens:sensitivity",
              "args": {"text": c["text_used"], "goals": [[[x, k] for x, k in g] for g in c["goals"][:3]], "param": p,
                       "subs": polar_subs(c), "nmax": nmax}} for c, p in jobs]
    outs = run_tasks(tasks, timeout=80 if quick else 240, progress=25) if lean_ok else []
    cli_tasks = [{"fn": "harness.tasks.sens:sensitivity_cli",
                  "args": {"text": c["text_used"], "goals": [[[x, k] for x, k in g] for g in c["goals"][:3]], "param": p,
                           "subs": polar_subs(c), "nmax": nmax}} for c, p in jobs]
    cli_outs = run_tasks(cli_tasks, timeout=80 if quick else 240, progress=None) if lean_ok else []
    reqs = []
    for c, p in jobs:
        p0 = Fr(c["params"][p])
        xs = [p0 + Fr(j, 7) for j in range(D + 3)]
        for x in xs:
            s0 = dict(lean_sigma0(c))
            s0[p] = H.fr_str(x)
            reqs.append({"op": "moments", "program": H.program_json(c["program"]), "sigma0": s0,
                         "monos": [[[v, k] for v, k in g] for g in c["goals"][:3]], "nmax": nmax, "budget": 1500})
    answers = model_batch_parallel(reqs) if lean_ok else []
    per = D + 3
    n_ok = 0
    for ji, ((c, p), out) in enumerate(zip(jobs, outs)):
        chk.evaluations += 1
        if out["status"] == "timeout":
            chk.count("timeout")
            continue
        if out["status"] != "ok":
            chk.count("harness-error")
            chk.obligation("harness:task", False, out)
            continue
        res = out["result"]
        if not res["accepted"]:
            chk.count("refused:" + res["error"]["etype"])
            continue
        ans = answers[ji * per:(ji + 1) * per]
        if not all(a.get("ok") for a in ans):
            chk.count("oracle-refused")
            continue
        p0 = Fr(c["params"][p])
        xs = [p0 + Fr(j, 7) for j in range(per)]
        for gi, g in enumerate(res["goals"]):
            nn = min(len(a["values"][gi]) for a in ans)
            exact_d = []
            degree_ok = True
            for n in range(nn):
                ys = [Fr(a["values"][gi][n]) for a in ans]
                # the two spare points must lie on the degree-D interpolant
                for extra in (D + 1, D + 2):
                    if interp_value(xs[:D + 1], ys[:D + 1], xs[extra]) != ys[extra]:
                        degree_ok = False
                exact_d.append(interp_derivative(xs[:D + 1], ys[:D + 1]))
            if not degree_ok:
                chk.count("degree-bound-exceeded")
                continue
            results = {}
            for method in ("diff_closed_form", "diff_recurrences"):
                m = g[method]
                if "error" in m:
                    chk.count(f"{method}:refused:{m['error']['etype']}")
                    continue
                bad = None
                mism = []
                for n, (pv, want) in enumerate(zip(m["values"], exact_d)):
                    tag, s = pv
                    if tag == "undefined-limit" and Fr(s) == want:
                        mism.append({"kind": "removable-singularity", "n": n})
                        continue
                    if tag != "q" or Fr(s) != want:
                        bad = (n, s, H.fr_str(want), tag)
                        mism.append({"kind": "wrong", "n": n})
                        break
                chk.count(f"{method}:compared")
                results[method] = m["values"][:nn]
                if mism and not bad:
                    bad = (mism[0]["n"], "0/0", H.fr_str(exact_d[mism[0]["n"]]), "undefined at the parameter point (limit is exact)")
                if bad:
                    rec = {"case": c, "param": p, "goal": g["mono"], "method": method, "bad": bad, "mismatches": mism}
                    fid = attribute(PROP, rec)
                    if fid:
                        chk.known(fid[0], fid[1])
                    else:
                        n, s, want, tag = bad
                        chk.violation(f"{method}: d/d{p} E({g['mono']}) at n={n}: reported {s} ({tag}), exact {want}",
                                      {"case": pipeline.case_to_json(c), "text": c["text_used"], "param": p, "goal": g["mono"],
                                       "method": method, "n": n, "reported": s, "exact": want, "expression": m.get("str"),
                                       "how": "harness.tasks.sens:sensitivity; exact = derivative of the interpolating polynomial of the "
                                              "Lean-semantics moments at 11 parameter values"})
                else:
                    n_ok += 1
                    if any(d != 0 for d in exact_d):
                        chk.nontrivial.add(c["text_used"] + p + json.dumps(g["mono"]) + method)
                    chk.sample({"text": c["text_used"], "param": p, "goal": g["mono"], "method": method,
                                "derivative": [H.fr_str(d) for d in exact_d]}, limit=4)
            if len(results) == 2 and results["diff_closed_form"] != results["diff_recurrences"]:
                chk.count("methods-disagree")
            # the same two methods through the real SensitivityAction (printed lines)
            co = cli_outs[ji] if ji < len(cli_outs) else None
            if co and co["status"] == "ok":
                for method in ("cli_sens_diff", "cli_sens"):
                    m = co["result"].get(method, {})
                    if "error" in m:
                        chk.count(f"{method}:refused:{m['error'].get('etype')}")
                        continue
                    rows = m.get("rows", [])
                    if gi >= len(rows) or "values" not in rows[gi]:
                        chk.count(f"{method}:unparsed")
                        continue
                    bad = None
                    for n, (pv, want) in enumerate(zip(rows[gi]["values"], exact_d)):
                        tag, sv = pv
                        if tag == "undefined-limit" and Fr(sv) == want:
                            continue
                        if tag != "q" or Fr(sv) != want:
                            bad = (n, sv, H.fr_str(want), tag)
                            break
                    chk.count(f"{method}:compared")
                    if bad:
                        n, sv, want, tag = bad
                        chk.violation(f"{method} (printed by the sensitivity action): d/d{p} E({g['mono']}) at n={n}: printed {sv} ({tag}), exact {want}",
                                      {"case": pipeline.case_to_json(c), "text": c["text_used"], "param": p, "goal": g["mono"],
                                       "method": method, "n": n, "printed_line": rows[gi]["raw"], "reported": sv, "exact": want})
                    else:
                        n_ok += 1
    chk.obligation("correspondence:sensitivities-vs-exact-derivative", lean_ok and n_ok > 0 and
                   chk.counts.get("harness-error", 0) == 0, {"method_goal_pairs_equal": n_ok})
    chk.assumptions = ["E(M)(n) is a polynomial of degree <= 10 in the parameter (verified per case by two spare points)",
                       "derivatives compared at n = 0..3 at one parameter point"]
    return chk.finish(level="proof",
                      rule="generated parametric programs x parameters x goals x two methods; non-trivial = exact derivative not identically 0",
                      trusted_base=["Lean kernel/compiler (reference semantics)", "exact Lagrange interpolation in the harness"])


def replay(path):
    with open(os.path.join(ROOT, path) if not os.path.isabs(path) else path) as fh:
        blob = json.load(fh)
    print(json.dumps({k: v for k, v in blob.items() if k != "case"}, indent=1)[:3000])
    return 1
