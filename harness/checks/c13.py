"""C13 — Sin/Cos/Exp moments of random variables are the true expectations.

Decision:
  * Lean theorems (PolarProofs/TrigMoment.lean): the product-to-sum identity with the model's
    coefficient table, the finite-law moment formulas for get_trig_moment / get_exp_moment, the
    guard of get_func_moment (coded = documented, Sin/Cos + Exp rejected, every returned value sound).
  * structural correspondence (exact): the real `get_func_moment` on a stub distribution with
    uninterpreted transforms; the coefficient table of its result is diffed against polar-model.
  * numeric oracle (evidence, not proof): `get_func_moment` on real distributions, exact and rounded
    mode, against mpmath quadrature of the defining integral; existence boundary of exponential
    moments; Sin/Cos/Exp of constants.
  * whole programs: six suite benchmarks and seeded generated programs through the real pipeline,
    against an independent interpreter (harness/c13_lib.py) whose only transcendental inputs are
    per-draw quadrature values.
"""
import json
import os
import sys
from fractions import Fraction as Fr

from .. import c13_lib as L
from ..common import Check, lean_gate, model_batch, rng, ROOT, REPO
from ..findings import attribute
from ..pool import run_tasks
from ..theorems import THEOREMS as _T

PROP = "C13"
THEOREMS = _T[PROP]
T = "harness.tasks.c13:"

TRUSTED = [
    "Lean 4.33 kernel; axioms propext, Classical.choice, Quot.sound only",
    "Mathlib definitions: Complex.exp, Real.sin/cos/exp, iteratedDeriv, Finset.sum",
    "compiled polar-model agrees with the kernel semantics of Polar/TrigMoment.lean",
    "the stub distribution (hermitian uninterpreted transforms with the derivative order as an argument) and the "
    "sympy expansion that reads the coefficient table off the result",
    "mpmath quadrature (Gauss-Legendre on pieces, two subdivisions, 42 digits) of the textbook densities — the "
    "numeric oracle for transcendental values; evidence, not proof",
    "harness/c13_lib.py: mini-parser and interpreter for the program subset; expectation over independent draws "
    "factorises",
    "passage from finitely supported laws (Lean theorems) to laws with a density: linearity/dominated convergence, "
    "paper mathematics",
]

BENCHMARKS = ["mixed_trigonometric", "mixed_exponential", "exp_functional_assignments", "turning_vehicle_model",
              "uncertain_underwater_vehicle", "mobile_robotic_arm"]

REFUSAL_ERRORS = ("AssertionError", "ZeroDivisionError", "NotImplementedError", "FunctionalAssignmentException",
                  "TransformException", "EvaluationException")


# ------------------------------------------------------------------------------------------------
# expected coefficient table of the stub result from the model's answer
# ------------------------------------------------------------------------------------------------

def expected_stub_table(a, merged, norm):
    """model table (frequency, coefficient), divisor i^m 2^s, derivative order a ->
    (real-part table over A/B as sorted [[kind,k,w,"p/q"]], imaginary part is zero?)"""
    m, s = norm
    re_acc, im_acc = {}, {}

    def add(acc, kind, w, co):
        # fold negative frequencies by the parity of the a-th derivative of a hermitian function
        if w < 0:
            sign = (-1) ** a if kind == "A" else (-1) ** (a + 1)
            w, co = -w, co * sign
        if w == 0 and ((kind == "A" and a % 2 == 1) or (kind == "B" and a % 2 == 0)):
            return
        key = (kind, a, w)
        acc[key] = acc.get(key, 0) + co

    for w, k in merged:
        c = Fr(k, 2 ** s)
        # c * (A + iB) * (-i)^m
        if m == 0:
            add(re_acc, "A", w, c); add(im_acc, "B", w, c)
        elif m == 1:
            add(re_acc, "B", w, c); add(im_acc, "A", w, -c)
        elif m == 2:
            add(re_acc, "A", w, -c); add(im_acc, "B", w, -c)
        else:
            add(re_acc, "B", w, -c); add(im_acc, "A", w, c)
    table = sorted([k[0], k[1], k[2], f"{v.numerator}/{v.denominator}"] for k, v in re_acc.items() if v != 0)
    return table, all(v == 0 for v in im_acc.values())


def powers_of(a, b, c, d=0):
    pw = {}
    if a:
        pw["Id"] = a
    if b:
        pw["Sin"] = b
    if c:
        pw["Cos"] = c
    if d:
        pw["Exp"] = d
    return pw


_KNOWN_SEEN = set()


def known_once(chk, fid, kind):
    """print one KNOWN-FINDING line per (finding, kind of input); every hit is counted"""
    key = (fid[0], kind)
    if key not in _KNOWN_SEEN:
        _KNOWN_SEEN.add(key)
        chk.known(fid[0], fid[1])


_PENDING = []
MAX_REPORTED = 25


def defer(record, what, tag, kind):
    """a failing input: attribution (re-runs of the real code with one repair) is done for all of them in parallel"""
    _PENDING.append((record, what, tag, kind))


def resolve_pending(chk):
    from concurrent.futures import ThreadPoolExecutor
    if not _PENDING:
        return
    with ThreadPoolExecutor(max_workers=10) as ex:
        fids = list(ex.map(lambda item: attribute(PROP, item[0]), _PENDING))
    nviol = 0
    for (record, what, tag, kind), fid in zip(_PENDING, fids):
        if fid:
            known_once(chk, fid, kind)
            chk.count(f"{tag}:known:{fid[0]}")
        else:
            nviol += 1
            chk.count(f"{tag}:violation")
            if nviol <= MAX_REPORTED:
                chk.violation(what, record)
    if nviol > MAX_REPORTED:
        print(f"  ({nviol - MAX_REPORTED} further violations counted in the evidence, not listed)", flush=True)
    del _PENDING[:]


def chunks(lst, n):
    return [lst[i:i + n] for i in range(0, len(lst), n)]


# ------------------------------------------------------------------------------------------------
# input distribution of the numeric part
# ------------------------------------------------------------------------------------------------

def fs(r):
    r = Fr(r)
    return str(r.numerator) if r.denominator == 1 else f"{r.numerator}/{r.denominator}"


def dist_cases(R, quick):
    fixed = [
        ("Normal", ["0", "1"]), ("Normal", ["1", "2"]), ("Normal", ["-1/2", "1/4"]),
        ("Uniform", ["2", "4"]), ("Uniform", ["-1", "1"]),
        ("Exponential", ["2"]), ("Exponential", ["1/2"]),
        ("Gamma", ["1", "1/2"]), ("Gamma", ["1/2", "1/2"]), ("Gamma", ["3", "2"]),
        ("Laplace", ["1", "1/2"]), ("Laplace", ["0", "1/4"]),
        ("Beta", ["3", "1"]), ("Beta", ["2", "3", "2"]),
        ("Bernoulli", ["1/3"]), ("DiscreteUniform", ["1", "3"]), ("DiscreteUniform", ["-2", "2"]),
        ("Categorical", ["1/3", "2/3"]),
        ("TruncNormal", ["0", "1", "-1", "2"]),
    ]
    half = [Fr(k, 2) for k in range(-4, 5)]
    gens = {
        "Normal": lambda: [fs(R.choice(half)), fs(R.choice([Fr(1, 4), Fr(1, 2), 1, 2, 3]))],
        "Uniform": lambda: (lambda a, w: [fs(a), fs(a + w)])(R.choice(half), R.choice([Fr(1, 2), 1, 2, 3])),
        "Exponential": lambda: [fs(R.choice([Fr(1, 2), 1, Fr(3, 2), 2, 3, 5]))],
        "Gamma": lambda: [fs(R.choice([Fr(1, 2), 1, Fr(3, 2), 2, 3])), fs(R.choice([Fr(1, 4), Fr(1, 3), Fr(1, 2), 1]))],
        "Laplace": lambda: [fs(R.choice(half)), fs(R.choice([Fr(1, 4), Fr(1, 3), Fr(1, 2), 1]))],
        "Beta": lambda: [fs(R.choice([Fr(1, 2), 1, Fr(3, 2), 2, 3])), fs(R.choice([Fr(1, 2), 1, 2, 3]))],
        "Bernoulli": lambda: [fs(R.choice([Fr(1, 10), Fr(1, 3), Fr(1, 2), Fr(9, 10)]))],
        "DiscreteUniform": lambda: (lambda a, n: [str(a), str(a + n)])(R.randint(-3, 3), R.randint(0, 4)),
        # truncation window overlapping [mu - 2 sd, mu + 2 sd] (far tails make sympy's erf algebra take minutes)
        "TruncNormal": lambda: (lambda mu, s2, lo, w: [fs(mu), fs(s2), fs(mu + lo), fs(mu + lo + w)])(
            R.choice(half), R.choice([Fr(1, 4), 1, 2]), R.choice([Fr(-3, 2), -1, Fr(-1, 2), 0]), R.choice([1, 2, 3])),
    }
    nrand = 1 if quick else 4
    out = list(fixed)
    for fam in sorted(gens):
        if quick and fam in ("Beta", "TruncNormal"):
            continue        # sympy needs up to a minute per case for these; the fixed parameter sets stay
        for _ in range(nrand):
            c = (fam, gens[fam]())
            if c not in out:
                out.append(c)
    return out


SLOW = ("Beta", "TruncNormal", "DiscreteUniform")


def exponent_cases(R, fam, quick):
    hi = 3
    allt = [(a, b, c) for a in range(hi + 1) for b in range(hi + 1) for c in range(hi + 1) if b + c > 0]
    must = [(0, 1, 0), (0, 0, 1), (1, 1, 1), (0, 2, 0), (1, 0, 2), (2, 1, 0), (3, 3, 3), (2, 2, 2)]
    if quick:
        k = (2 if fam == "TruncNormal" else 4) if fam in SLOW else 12
        rest = [t for t in allt if t not in must]
        R.shuffle(rest)
        trig = (must[:4] if fam in SLOW else must) + rest[:k]
    else:
        trig = allt + [(a, b, c) for (a, b, c) in [(4, 1, 1), (0, 5, 0), (0, 0, 5), (5, 2, 1), (1, 4, 4), (2, 5, 3)]]
        if fam in SLOW:
            R.shuffle(trig)
            trig = trig[:30]
    amax = 2 if quick else 3
    exps = [(a, d) for a in range(amax + 1) for d in (1, 2, 3)]
    if fam in SLOW and quick:
        exps = exps[:2]
    mix = [(0, 1, 0, 1), (1, 0, 2, 1)] if fam in ("Normal", "Uniform") else []
    return trig, exps, mix


# ------------------------------------------------------------------------------------------------
# the check
# ------------------------------------------------------------------------------------------------

def run(tier):
    chk = Check(PROP, tier)
    _KNOWN_SEEN.clear()
    lean_ok = lean_gate(chk, THEOREMS)
    quick = tier == "quick"
    del _PENDING[:]
    if lean_ok:
        import time
        t0 = time.time()
        structural(chk, quick)
        t1 = time.time()
        numeric_and_programs(chk, quick)
        t2 = time.time()
        resolve_pending(chk)
        chk.coverage["phase_secs"] = {"structural": round(t1 - t0, 1), "numeric+programs": round(t2 - t1, 1),
                                      "attribution": round(time.time() - t2, 1)}
    chk.assumptions = [
        "values of transcendental expectations are compared numerically with mpmath quadrature (tolerances: exact "
        "mode %s, rounded mode %s, relative to the scale of the expectation) — evidence, not proof" % (L.TOL["exact"], L.TOL["rounded"]),
        "AssertionError / ZeroDivisionError / NotImplementedError / FunctionalAssignmentException are refusals, "
        "not wrong answers (e.g. DiscreteUniform with Id >= 1: im(result) is not syntactically 0; Categorical has no cf)",
        "the Lean moment theorems are stated for finitely supported (signed) laws; the passage to laws with a "
        "density is paper mathematics",
        "time-outs are counted and never a verdict",
    ]
    return chk.finish(
        level="proof",
        rule="structural: every exponent triple (a,b,c) up to the tier's bound, non-trivial iff the merged table has "
             ">= 2 terms; numeric: distinct (family, parameters, exponents) with both sides numbers; programs: distinct "
             "source texts with a non-constant expected sequence",
        trusted_base=TRUSTED,
        explanation="partial: the combination formulas (coefficient table, divisor, derivative order, guard) are "
                    "proved in Lean and tied to the code by an exact structural diff; the values of the transcendental "
                    "expectations themselves are only compared numerically against quadrature")


# ---------------------------------------------------------------------------------- structural

def structural(chk, quick):
    hi = 4 if quick else 6
    triples = [(a, b, c) for a in range(hi + 1) for b in range(hi + 1) for c in range(hi + 1) if b + c > 0]
    reqs = [{"op": "trig_table", "a": a, "b": b, "c": c} for a, b, c in triples]
    guard_sets = [{"Sin": 1}, {"Cos": 2, "Id": 1}, {"Exp": 1}, {"Exp": 2, "Id": 3}, {"Id": 2}, {}, {"Tan": 1},
                  {"Sin": 1, "Exp": 1}, {"Cos": 1, "Exp": 2, "Id": 1}, {"Sin": 2, "Cos": 1, "Exp": 1},
                  {"Sin": 1, "Expt": 1}, {"Expt": 1}, {"Exp": 1, "Expt": 1}, {"Sin": 1, "Exp": 1, "Expt": 1},
                  {"Sin": 0, "Id": 2}]
    greqs = [{"op": "func_plan", "powers": [[k, v] for k, v in sorted(g.items())]} for g in guard_sets]
    answers = model_batch(reqs + greqs)
    tab_ans, guard_ans = answers[:len(reqs)], answers[len(reqs):]
    bad_model = [a for a in answers if not a.get("ok")]
    chk.obligation("model:answers", not bad_model, bad_model[:3] or None)
    if bad_model:
        return

    exp_cases = [(a, d) for a in range(hi + 1) for d in range(1, 5)]
    cases = [powers_of(a, b, c) for a, b, c in triples] + [powers_of(a, 0, 0, d) for a, d in exp_cases] + guard_sets
    tasks = [{"fn": T + "stub_tables", "args": {"cases": ch}, "timeout": 240} for ch in chunks(cases, 12)]
    tasks.append({"fn": T + "stub_tables", "args": {"cases": [{"Exp": 2}, {"Exp": 1, "Id": 2}], "mgf_exists": False}})
    res = run_tasks(tasks, timeout=240)
    flat = []
    for ch, r in zip(chunks(cases, 12), res[:-1]):
        if r.get("status") == "ok":
            flat += r["result"]
        else:
            flat += [{"ok": False, "kind": r.get("status", "crash")}] * len(ch)
    diffs = []
    # trig tables
    for (a, b, c), ans, got in zip(triples, tab_ans, flat):
        chk.evaluations += 1
        merged = [tuple(x) for x in ans["merged"]]
        exp_table, im_zero = expected_stub_table(a, merged, ans["norm"])
        if got.get("kind") in ("timeout", "crash", "error"):
            chk.count("structural:" + got["kind"])
            continue
        if not im_zero:
            ok = (not got.get("ok")) and got.get("error", {}).get("etype") == "AssertionError"
        else:
            ok = got.get("ok") and got["table"] == exp_table
        if ok and got.get("ok"):
            # where each term's transform value comes from (cf / raw moment at frequency 0 / derivative of cf)
            calls = [tuple(x) for x in got["calls"]]
            src = ans["sources"]
            ok = (calls.count(("get_moment", str(a))) == src.count("moment")
                  and sum(1 for x in calls if x[0] == "get_moment") == src.count("moment")
                  and sum(1 for x in calls if x[0] == "cf") == src.count("cf") + src.count("cf_deriv"))
            if not ok:
                chk.count("structural:trig:source-DIFF")
        chk.count("structural:trig:" + ("agree" if ok else "DIFF"))
        if ok and len(merged) >= 2:
            chk.nontrivial.add(("table", a, b, c))
        if ok and (a, b, c) in ((1, 2, 1), (2, 3, 2)):
            chk.sample({"kind": "stub-table", "powers": powers_of(a, b, c), "model_merged": ans["merged"],
                        "model_norm": ans["norm"], "code_table": got["table"]})
        if not ok:
            diffs.append({"powers": powers_of(a, b, c), "model": exp_table, "code": got})
    # exp tables
    off = len(triples)
    for (a, d), got in zip(exp_cases, flat[off:off + len(exp_cases)]):
        chk.evaluations += 1
        ok = got.get("ok") and got["table"] == [["M", a, d, "1/1"]] and ["mgf_exists_at", str(d)] in [list(x) for x in got["calls"]]
        chk.count("structural:exp:" + ("agree" if ok else "DIFF"))
        if ok and a > 0:
            chk.nontrivial.add(("exptable", a, d))
        if not ok:
            diffs.append({"powers": powers_of(a, 0, 0, d), "model": [["M", a, d, "1/1"]], "code": got})
    # guard routes: the model of the code as coded must predict the real outcome
    off += len(exp_cases)
    route_diffs, unintended = [], []
    for g, ans, got in zip(guard_sets, guard_ans, flat[off:]):
        chk.evaluations += 1
        rc = ans["route_coded"]
        if got.get("ok"):
            kinds = {row[0] for row in got["table"]}
            real = "exp" if kinds == {"M"} else "trig"
        elif got.get("kind") == "raise" and got["error"]["etype"] == "FunctionalAssignmentException":
            real = "error:mixed" if "cannot be mixed" in got["error"]["message"] else "error:unknown"
        else:
            real = "other:" + str(got.get("kind"))
        ok = real == rc
        if ok and rc == "trig":
            plan = ans["plan"]
            exp_table, _ = expected_stub_table(plan["a"], [tuple(x) for x in plan["merged"]], plan["norm"])
            ok = got["table"] == exp_table
        chk.count("structural:guard:" + ("agree" if ok else "DIFF"))
        if not ok:
            route_diffs.append({"powers": g, "model_route": rc, "code": got})
        if rc != ans["route_intended"]:
            unintended.append({"powers": g, "coded": rc, "intended": ans["route_intended"]})
    chk.coverage["guard_routes_differing_from_documentation"] = unintended
    chk.obligation("correspondence:guard-as-documented(model)", not unintended, unintended[:3] or None)
    # mgf_exists_at = False must be honoured
    r = res[-1]
    honoured = r.get("status") == "ok" and all(
        (not x.get("ok")) and x.get("error", {}).get("etype") == "FunctionalAssignmentException" and "does not exist" in x["error"]["message"]
        for x in r["result"])
    chk.evaluations += 2
    chk.obligation("correspondence:mgf_exists_at-false-is-refused", honoured, None if honoured else r)
    chk.obligation("correspondence:coefficient-tables(a,b,c<=%d)" % hi, not diffs,
                   {"compared": len(triples) + len(exp_cases), "diffs": diffs[:3]})
    chk.obligation("correspondence:guard-routes-as-coded", not route_diffs, route_diffs[:3] or None)
    chk.coverage["structural_diffs"] = diffs[:10]
    # a table diff is not yet a violation: look for a real distribution on which the code's value is wrong
    if diffs or route_diffs:
        search_failing_input(chk, [d["powers"] for d in (diffs + route_diffs)[:6]])


def search_failing_input(chk, powers_list):
    """numeric search on a few real laws for the exponents whose structural diff is non-empty"""
    dists = [("Normal", ["1", "2"]), ("Exponential", ["5"]), ("Laplace", ["1", "1/4"]), ("Bernoulli", ["1/3"])]
    jobs = []
    for pw in powers_list:
        if any(k not in ("Id", "Sin", "Cos", "Exp") for k in pw):
            continue
        for fam, ps in dists:
            jobs.append((fam, ps, pw))
    if not jobs:
        return
    tasks = []
    for fam, ps, pw in jobs:
        e = [pw.get("Id", 0), pw.get("Sin", 0), pw.get("Cos", 0), pw.get("Exp", 0)]
        tasks.append({"fn": T + "polar_moments", "args": {"family": fam, "params": ps, "powers_list": [pw]}, "timeout": 120})
        tasks.append({"fn": T + "quad_moments", "args": {"family": fam, "params": ps, "exps": [e]}, "timeout": 120})
    res = run_tasks(tasks, timeout=120)
    found = False
    for i, (fam, ps, pw) in enumerate(jobs):
        rp, rq = res[2 * i], res[2 * i + 1]
        if rp.get("status") != "ok" or rq.get("status") != "ok":
            continue
        found |= compare_moment(chk, fam, ps, pw, rp["result"][0], rq["result"][0], tag="search")
    if not found:
        chk.count("structural:diff-without-failing-input")


# ---------------------------------------------------------------------------------- numeric

def compare_moment(chk, fam, ps, pw, polar, oracle, tag="numeric"):
    """returns True iff a violation / known finding was reported"""
    mp = L._mp()
    reported = False
    missing = oracle.get("missing", False)
    if not missing:
        exp = mp.mpf(oracle["value"])
        err = mp.mpf(oracle["err"])
        if err > mp.mpf("1e-30") * max(1, abs(exp)):
            chk.count(f"{tag}:oracle-unreliable")
            return False
    for mode, rec in polar.items():
        chk.evaluations += 1
        if not rec.get("ok") and rec.get("kind") == "raise":
            et = rec["error"]["etype"]
            if et == "FunctionalAssignmentException" and "cannot be mixed" in rec["error"]["message"] and \
                    ("Sin" in pw or "Cos" in pw) and "Exp" in pw:
                chk.count(f"{tag}:mix-refused")
                chk.nontrivial.add(("mix-refused", fam, tuple(ps), tuple(sorted(pw.items()))))
                continue
            if missing and et == "FunctionalAssignmentException" and "does not exist" in rec["error"]["message"]:
                chk.count(f"{tag}:nonexistent-refused")
                chk.nontrivial.add(("refused", fam, tuple(ps), tuple(sorted(pw.items()))))
                continue
            if et in REFUSAL_ERRORS:
                chk.count(f"{tag}:refusal:{fam}:{et}")
                if not missing and "does not exist" in rec["error"].get("message", ""):
                    # an existing moment is refused: allowed by the property (rejecting is never wrong)
                    chk.count(f"{tag}:existing-moment-refused")
                continue
            chk.count(f"{tag}:raise-other:{et}")
            record = {"kind": "moment", "family": fam, "params": ps, "powers": pw, "mode": mode,
                      "expected": oracle.get("value"), "actual": "raise " + et, "detail": rec["error"]}
            chk.violation(f"get_func_moment({fam}({', '.join(ps)}), {pw}) [{mode}] raised unexpected {et}", record)
            reported = True
            continue
        record = {"kind": "moment", "family": fam, "params": ps, "powers": pw, "mode": mode,
                  "expected": None if missing else oracle["value"], "actual": rec.get("re") or rec.get("text"),
                  "text": rec.get("text")}
        if missing:
            what = (f"get_func_moment({fam}({', '.join(ps)}), {pw}) [{mode}] answers {record['actual']} although the "
                    f"exponential moment does not exist")
            bad = True
        elif not rec.get("ok"):
            what = f"get_func_moment({fam}({', '.join(ps)}), {pw}) [{mode}] returns a non-number: {rec.get('text')}"
            bad = True
        else:
            act = (mp.mpf(rec["re"]), mp.mpf(rec["im"]))
            bad = not L.close(act, exp, abs(exp), mode)
            what = (f"get_func_moment({fam}({', '.join(ps)}), {pw}) [{mode}] = {rec['re']} but the defining "
                    f"integral is {oracle['value']}")
        if bad:
            defer(record, what, tag, "moment")
            reported = True
        else:
            chk.count(f"{tag}:agree:{mode}")
            if abs(exp) > mp.mpf("1e-9"):
                chk.nontrivial.add((fam, tuple(ps), tuple(sorted(pw.items()))))
            if mode == "rounded" and pw.get("Id", 0) >= 1 and pw.get("Sin", 0) + pw.get("Cos", 0) >= 2:
                chk.sample({"kind": "moment", "dist": f"{fam}({', '.join(ps)})", "powers": pw,
                            "polar_rounded": rec.get("rational"), "quadrature": oracle["value"]}, limit=5)
    return reported


def build_program_cases(R, quick):
    cases = []
    for b in BENCHMARKS:
        path = os.path.join(REPO, "tests", "benchmarks", b + ".prob")
        try:
            with open(path) as fh:
                text = fh.read()
        except OSError:
            continue
        goals = L.benchmark_goals(text)
        if quick and b == "mobile_robotic_arm":
            goals = [g for g in goals if sum(k for _, k in g) <= 2]
        cases.append(dict(text=text, goals=goals, shape="benchmark:" + b, expect="value"))
    fixed_mix = ("y = 0\nwhile true:\n    u = Normal(0, 1)\n    s = Sin(u)\n    f = Exp(u)\n    y = s*f\nend\n")
    cases.append(dict(text=fixed_mix, goals=[[["y", 1]]], shape="mix", expect="mix"))
    n_gen = 50 if quick else 450
    shapes = list(L.SHAPES)
    for i in range(n_gen):
        shape = shapes[i % len(shapes)]
        cases.append(L.gen_program(R, shape))
    seen, out = set(), []
    for c in cases:
        if c["text"] not in seen:
            seen.add(c["text"])
            out.append(c)
    return out


def numeric_and_programs(chk, quick):
    mp = L._mp()
    R = rng(f"{PROP}-{chk.tier}")
    tasks, meta = [], []

    # ---- moments of real distributions
    for fam, ps in dist_cases(R, quick):
        trig, exps, mix = exponent_cases(R, fam, quick)
        quads = [(a, b, c, 0) for a, b, c in trig] + [(a, 0, 0, d) for a, d in exps] + list(mix)
        per = 1 if fam == "TruncNormal" else (3 if fam in SLOW else 12)
        for ch in chunks(quads, per):
            pws = [powers_of(*e) for e in ch]
            tasks.append({"fn": T + "polar_moments", "args": {"family": fam, "params": ps, "powers_list": pws},
                          "timeout": (60 if fam in SLOW else 150) if quick else 600})
            meta.append(("polar", fam, ps, ch))
            tasks.append({"fn": T + "quad_moments", "args": {"family": fam, "params": ps, "exps": [list(e) for e in ch]},
                          "timeout": 150 if quick else 600})
            meta.append(("quad", fam, ps, ch))

    # ---- Sin/Cos/Exp of constants
    const_cases = [(f, a, k) for f in L.FUNCS for a in ["0", "1", "2", "3", "10", "0.5", "0.25"] for k in (1, 2, 3)]
    if quick:
        R.shuffle(const_cases)
        const_cases = const_cases[:24]
    for f, a, k in const_cases:
        for mode in ("exact", "rounded"):
            tasks.append({"fn": T + "const_moment", "args": {"func": f, "arg": a, "k": k, "exact": mode == "exact"}, "timeout": 60})
            meta.append(("const", f, a, k, mode))
        tasks.append({"fn": T + "func_const_value", "args": {"func": f, "arg": a, "k": k}, "timeout": 60})
        meta.append(("constval", f, a, k))

    # ---- model of mgf_exists_at against the families that restrict it
    ex_reqs, ex_meta = [], []
    for fam, ps in dist_cases(rng(f"{PROP}-{chk.tier}"), quick):
        if fam in ("Exponential", "Gamma", "Laplace"):
            for d in (1, 2, 3):
                ex_reqs.append({"op": "mgf_exists", "family": fam, "params": ps, "t": str(d)})
                ex_meta.append((fam, tuple(ps), d))
    model_exists = {k: a.get("exists") for k, a in zip(ex_meta, model_batch(ex_reqs))}

    # ---- whole programs
    nmax = 2 if quick else 3
    prog_cases = build_program_cases(R, quick)
    needed = {}
    for ci, c in enumerate(prog_cases):
        try:
            prog = L.parse_prob(c["text"])
            it = L.Interp(prog)
            c["expectations"] = it.run(c["goals"], nmax)
            for k in L.moment_keys(c["expectations"]):
                needed.setdefault(k, None)
            c["const_keys"] = L.const_keys(c["expectations"])
        except L.Unsupported as e:
            c["unsupported"] = str(e)
        for mode in ("exact", "rounded"):
            tasks.append({"fn": "harness.tasks.analyze:analyze",
                          "args": {"text": c["text"], "goals": c["goals"], "nmax": nmax,
                                   "settings": {"exact_func_moments": mode == "exact"}},
                          "timeout": 90 if quick else 400})
            meta.append(("prog", ci, mode))
    by_dist = {}
    for (fam, params, e) in needed:
        by_dist.setdefault((fam, params), []).append(e)
    for (fam, params), es in sorted(by_dist.items()):
        for ch in chunks(sorted(es), 8):
            tasks.append({"fn": T + "quad_moments", "args": {"family": fam, "params": list(params), "exps": [list(e) for e in ch]},
                          "timeout": 150 if quick else 600})
            meta.append(("pquad", fam, params, ch))

    results = run_tasks(tasks, timeout=150 if quick else 600, progress=100)

    # ---- evaluate: moments
    polar_res, quad_res = {}, {}
    constval = {}
    for m, r in zip(meta, results):
        if m[0] in ("polar", "quad"):
            key = (m[1], tuple(m[2]), tuple(m[3]))
            (polar_res if m[0] == "polar" else quad_res)[key] = r
        elif m[0] == "constval" and r.get("status") == "ok":
            constval[(m[1], m[2], m[3])] = r["result"]
        elif m[0] == "pquad":
            if r.get("status") == "ok":
                for e, q in zip(m[3], r["result"]):
                    needed[(m[1], m[2], e)] = q
            else:
                chk.count("programs:oracle-" + r.get("status", "crash"))
    n_cmp = 0
    exist_diffs = []
    for key, rp in polar_res.items():
        fam, ps, ch = key
        rq = quad_res.get(key, {})
        if rp.get("status") != "ok" or rq.get("status") != "ok":
            chk.count("numeric:polar-" + rp.get("status", "?") if rp.get("status") != "ok" else "numeric:oracle-" + rq.get("status", "?"))
            if rp.get("status") == "error" or rq.get("status") == "error":
                chk.count("harness-error")
                print("  task error:", (rp if rp.get("status") == "error" else rq).get("message"), file=sys.stderr)
            continue
        for e, pol, orc in zip(ch, rp["result"], rq["result"]):
            n_cmp += 1
            compare_moment(chk, fam, list(ps), powers_of(*e), pol, orc)
            if e[1] == 0 and e[2] == 0 and e[3] > 0 and (fam, ps, e[3]) in model_exists:
                real_refused = all((not rec.get("ok")) and rec.get("kind") == "raise" and
                                   "does not exist" in rec["error"].get("message", "") for rec in pol.values())
                if model_exists[(fam, ps, e[3])] == real_refused:
                    exist_diffs.append({"family": fam, "params": list(ps), "t": e[3],
                                        "model_exists": model_exists[(fam, ps, e[3])], "code_refused": real_refused})
    chk.obligation("correspondence:mgf_exists_at(model=code)", not exist_diffs, exist_diffs[:3] or {"compared": len(model_exists)})

    # ---- evaluate: constants
    for m, r in zip(meta, results):
        if m[0] != "const":
            continue
        _, f, a, k, mode = m
        chk.evaluations += 1
        if r.get("status") != "ok" or (f, a, k) not in constval:
            chk.count("const:" + r.get("status", "no-oracle"))
            continue
        rec = r["result"]
        exp = mp.mpf(constval[(f, a, k)])
        record = {"kind": "const", "func": f, "arg": a, "k": k, "mode": mode, "expected": constval[(f, a, k)],
                  "actual": rec.get("re") or rec.get("text")}
        if not rec.get("ok"):
            if rec.get("kind") == "raise" and rec["error"]["etype"] in REFUSAL_ERRORS:
                chk.count("const:refusal")
                continue
            chk.violation(f"get_const_moment {f}({a})**{k} [{mode}]: {rec}", record)
            continue
        if L.close((mp.mpf(rec["re"]), mp.mpf(rec["im"])), exp, abs(exp), mode):
            chk.count("const:agree:" + mode)
            chk.nontrivial.add(("const", f, a, k))
        else:
            defer(record, f"get_const_moment {f}({a})**{k} [{mode}] = {rec['re']}, true {constval[(f, a, k)]}", "const", "const")

    # ---- evaluate: programs
    mvals = {}
    for k, q in needed.items():
        if q is None:
            mvals[k] = "unknown"
        elif q.get("missing"):
            mvals[k] = None
        elif mp.mpf(q["err"]) > mp.mpf("1e-30") * max(1, abs(mp.mpf(q["value"]))):
            mvals[k] = "unknown"
        else:
            mvals[k] = mp.mpf(q["value"])
    fam_counts = {}
    for m, r in zip(meta, results):
        if m[0] != "prog":
            continue
        _, ci, mode = m
        c = prog_cases[ci]
        chk.evaluations += 1
        outcome = evaluate_program(chk, c, mode, r, mvals, nmax)
        fam_counts.setdefault(c["shape"].split(":")[0], {}).setdefault(outcome, 0)
        fam_counts[c["shape"].split(":")[0]][outcome] += 1
    chk.coverage["programs_by_shape"] = fam_counts
    n_prog_ok = sum(v.get("agree", 0) for v in fam_counts.values())
    chk.obligation("oracle:moments-compared", n_cmp > 0 and not chk.counts.get("harness-error"),
                   {"moment_cases": n_cmp, "programs_agree": n_prog_ok})
    chk.obligation("oracle:programs-compared", n_prog_ok > 0, fam_counts)


def evaluate_program(chk, c, mode, r, mvals, nmax):
    mp = L._mp()
    shape = c["shape"]
    if r.get("status") != "ok":
        chk.count("programs:" + r.get("status", "crash"))
        return r.get("status", "crash")
    res = r["result"]
    if "unsupported" in c:
        chk.count("programs:oracle-unsupported")
        return "oracle-unsupported"
    refused = (not res.get("accepted")) or any(not g.get("ok") for g in res.get("goals", []))
    if refused:
        err = res.get("error") or next((g["error"] for g in res["goals"] if not g.get("ok")), {})
        et = err.get("etype", "?")
        if c["expect"] == "refuse-nonexistent":
            if et == "FunctionalAssignmentException" and "does not exist" in err.get("message", ""):
                chk.count("programs:nonexistent-refused")
                chk.nontrivial.add(c["text"])
                return "agree"
        if c["expect"] == "mix":
            if et == "FunctionalAssignmentException" and "cannot be mixed" in err.get("message", ""):
                chk.count("programs:mix-refused")
                chk.nontrivial.add(c["text"])
                return "agree"
        chk.count(f"programs:refusal:{et}:{err.get('func')}")
        return "refusal"
    # expected values
    exp_rows, scale_rows = [], []
    missing = False
    for per_goal in c["expectations"]:
        er, sr = [], []
        for terms in per_goal:
            if any(mvals.get(k, "unknown") == "unknown" for _, mk, _ in terms for k in mk):
                chk.count("programs:oracle-unreliable")
                return "oracle-unreliable"
            cvals = {k: mp.mpf(constval_local(k)) for _, _, cs in terms for k in cs}
            v, sc = L.eval_expectation(terms, mvals, cvals)
            if v is None:
                missing = True
            er.append(v)
            sr.append(sc)
        exp_rows.append(er)
        scale_rows.append(sr)
    first = None
    for gi, (g, er, sr) in enumerate(zip(res["goals"], exp_rows, scale_rows)):
        for n, (v, e, sc) in enumerate(zip(g["values"], er, sr)):
            if e is None:
                first = first or (gi, n, v, None)
                continue
            act = L.value_of_tagged(v)
            if act is None or not L.close(act, e, sc, mode):
                first = first or (gi, n, v, e)
    if first is None and not missing:
        chk.count("programs:agree:" + mode)
        seq_nonconst = any(len({mp.nstr(e, 20) for e in er}) > 1 for er in exp_rows)
        if seq_nonconst:
            chk.nontrivial.add(c["text"])
        if shape.split(":")[0] in ("rot", "two", "cond", "benchmark") and mode == "exact":
            chk.sample({"kind": "program", "shape": shape, "text": c["text"], "goals": c["goals"],
                        "expected": [[mp.nstr(e, 25) for e in er] for er in exp_rows]}, limit=8)
        return "agree"
    gi, n, v, e = first
    record = {"kind": "program", "shape": shape, "text": c["text"], "goals": c["goals"], "mode": mode, "nmax": nmax,
              "expected": [[None if x is None else mp.nstr(x, 40) for x in er] for er in exp_rows],
              "scales": [[None if x is None else mp.nstr(x, 10) for x in sr] for sr in scale_rows],
              "actual": v[1] if isinstance(v, (list, tuple)) else str(v),
              "expected_at": None if e is None else mp.nstr(e, 30), "goal": c["goals"][gi], "n": n,
              "closed_form": res["goals"][gi].get("closed_form")}
    if e is None:
        what = (f"E({L._mono_txt(c['goals'][gi])})({n}) answered {record['actual']} although a needed exponential "
                f"moment does not exist [{mode}] in program:\n{c['text']}")
    else:
        what = (f"E({L._mono_txt(c['goals'][gi])})({n}) = {record['actual']} but the true value is "
                f"{record['expected_at']} [{mode}] in program:\n{c['text']}")
    defer(record, what, "programs", "program")
    return "mismatch"


_CONST_CACHE = {}


def constval_local(key):
    """f(arg)^k for the constant atoms of the interpreter (mpmath in the check process: cheap)"""
    if key not in _CONST_CACHE:
        mp = L._mp()
        f, arg, k = key
        fr = Fr(arg)
        x = mp.mpf(fr.numerator) / fr.denominator
        _CONST_CACHE[key] = {"Sin": mp.sin, "Cos": mp.cos, "Exp": mp.exp}[f](x) ** k
    return _CONST_CACHE[key]


# ------------------------------------------------------------------------------------------------
# replay
# ------------------------------------------------------------------------------------------------

def replay(path):
    with open(os.path.join(ROOT, path) if not os.path.isabs(path) else path) as fh:
        blob = json.load(fh)
    mp = L._mp()
    kind = blob.get("kind")
    if kind == "moment":
        pw = blob["powers"]
        e = [pw.get("Id", 0), pw.get("Sin", 0), pw.get("Cos", 0), pw.get("Exp", 0)]
        res = run_tasks([{"fn": T + "polar_moments", "args": {"family": blob["family"], "params": blob["params"], "powers_list": [pw]}},
                         {"fn": T + "quad_moments", "args": {"family": blob["family"], "params": blob["params"], "exps": [e]}}],
                        timeout=600)
        print("polar :", json.dumps(res[0].get("result", res[0]))[:600])
        print("oracle:", json.dumps(res[1].get("result", res[1]))[:300])
        if res[0].get("status") != "ok" or res[1].get("status") != "ok":
            return 2
        rec = res[0]["result"][0].get(blob["mode"], {})
        orc = res[1]["result"][0]
        if orc.get("missing"):
            bad = rec.get("ok", False)
        elif not rec.get("ok"):
            bad = rec.get("kind") != "raise" or rec["error"]["etype"] not in REFUSAL_ERRORS
        else:
            exp = mp.mpf(orc["value"])
            bad = not L.close((mp.mpf(rec["re"]), mp.mpf(rec["im"])), exp, abs(exp), blob["mode"])
    elif kind == "const":
        res = run_tasks([{"fn": T + "const_moment", "args": {"func": blob["func"], "arg": blob["arg"], "k": blob["k"],
                                                             "exact": blob["mode"] == "exact"}},
                         {"fn": T + "func_const_value", "args": {"func": blob["func"], "arg": blob["arg"], "k": blob["k"]}}],
                        timeout=120)
        print("polar :", res[0].get("result", res[0]))
        print("oracle:", res[1].get("result", res[1]))
        if res[0].get("status") != "ok" or res[1].get("status") != "ok":
            return 2
        rec = res[0]["result"]
        exp = mp.mpf(res[1]["result"])
        bad = (not rec.get("ok")) or not L.close((mp.mpf(rec["re"]), mp.mpf(rec["im"])), exp, abs(exp), blob["mode"])
    elif kind == "program":
        c = dict(text=blob["text"], goals=blob["goals"], shape=blob.get("shape", "replay"), expect="value")
        nmax = blob.get("nmax", 3)
        it = L.Interp(L.parse_prob(c["text"]))
        c["expectations"] = it.run(c["goals"], nmax)
        keys = sorted(L.moment_keys(c["expectations"]))
        tasks = [{"fn": "harness.tasks.analyze:analyze",
                  "args": {"text": c["text"], "goals": c["goals"], "nmax": nmax,
                           "settings": {"exact_func_moments": blob["mode"] == "exact"}}}]
        tasks += [{"fn": T + "quad_moments", "args": {"family": k[0], "params": list(k[1]), "exps": [list(k[2])]}} for k in keys]
        res = run_tasks(tasks, timeout=900)
        if any(r.get("status") != "ok" for r in res):
            print([r for r in res if r.get("status") != "ok"][:2])
            return 2
        mvals = {}
        for k, r in zip(keys, res[1:]):
            q = r["result"][0]
            mvals[k] = None if q.get("missing") else mp.mpf(q["value"])
        chk = Check(PROP, "quick")
        out = evaluate_program(chk, c, blob["mode"], res[0], mvals, nmax)
        print("outcome:", out)
        for g in res[0]["result"].get("goals", []):
            print("  ", g.get("mono"), g.get("values"), g.get("error"))
        del _PENDING[:]
        if out == "mismatch":
            print(f"VIOLATION property={PROP} replay={path}")
            return 1
        return 0
    else:
        print("replay without an input: failed obligations", blob.get("failed_obligations"))
        return 1
    if bad:
        print(f"VIOLATION property={PROP} replay={path}")
        return 1
    print("no violation on replay")
    return 0
