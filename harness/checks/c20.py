"""C20 — results are independent of process history, goal order and hash seed.

The same jobs (program, goals, settings) are run (a) each alone in a fresh process, (b) all in one
process in several random orders, interleaved with repeated runs and goal permutations, (c) under
different PYTHONHASHSEED values.  Canonical results (exact values of every goal at n = 0..4,
exactness flag, inferred types up to generated names, error outcomes) must coincide with (a)."""
import json
import os

from .. import pipeline, hast as H
from ..common import Check, lean_gate, ROOT, rng
from ..oracle import case_text, polar_subs
from ..pool import run_tasks
from ..findings import attribute
from ..theorems import THEOREMS as _T

PROP = "C20"
THEOREMS = _T.get(PROP, [])

FUNC_PROG = """u = 0
x = 0
while true:
    u = Normal(0, 1)
    s = Sin(u)
    x = x + s**2
end
"""


def run(tier):
    chk = Check(PROP, tier)
    lean_ok = lean_gate(chk, THEOREMS)
    quick = tier == "quick"
    n_jobs = 12 if quick else 48
    n_orders = 4 if quick else 14
    seeds = ["0", "1", "12345"] if quick else ["0", "1", "2", "12345", "random"]
    r = rng(f"{PROP}-{tier}")
    cases = pipeline.generate_cases(n_jobs, f"{PROP}-{tier}",
                                    families=["branchy", "finite", "choice", "guarded", "simult", "cont", "param", "poly"])
    jobs = []
    for i, c in enumerate(cases):
        jobs.append({"key": f"j{i}", "text": case_text(c), "goals": [[[x, k] for x, k in g] for g in c["goals"]],
                     "subs": polar_subs(c), "nmax": 4, "settings": {}})
        if i % 4 == 0:
            jobs.append({"key": f"j{i}c", "text": case_text(c), "goals": [[[x, k] for x, k in g] for g in c["goals"]],
                         "subs": polar_subs(c), "nmax": 4, "settings": {"cond2arithm": True}})
    for flag in (True, False):
        jobs.append({"key": f"func-exact-{flag}", "text": FUNC_PROG, "goals": [[["x", 1]]], "subs": {}, "nmax": 3,
                     "settings": {"exact_func_moments": flag}})
    # programs that reuse each other's variable names in different roles (functional variable vs ordinary variable,
    # draw vs counter): state that leaks between analyses is keyed on names
    reuse = [
        ("reuse-func", "u = 0\ns = 0\nx = 0\nwhile true:\n    u = Normal(0, 1)\n    s = Sin(u)\n    x = x + s\nend\n", [[["x", 1]], [["s", 2]]]),
        ("reuse-plain", "s = 1\nu = 0\nx = 0\nwhile true:\n    u = Normal(0, 1)\n    x = x + s*u\n    s = (-1)*s\nend\n", [[["x", 2]], [["s", 1], ["u", 1]], [["x", 1]]]),
        ("reuse-cos", "u = 0\nc = 0\nx = 0\nwhile true:\n    u = Uniform(0, 1)\n    c = Cos(u)\n    x = x + c*u\nend\n", [[["x", 1]]]),
        ("reuse-c-bernoulli", "c = 0\nu = 1\nx = 0\nwhile true:\n    c = Bernoulli(1/2)\n    u = u + c\n    x = x + c*u\nend\n", [[["x", 1]], [["c", 1], ["u", 1]]]),
    ]
    # the same draw written with a named constant whose value differs between the two programs (objects shared between analyses
    # would carry the folded constant over)
    for sv in ("1", "4"):
        jobs.append({"key": f"reuse-truncnormal-const-{sv}",
                     "text": f"s = {sv}\nt = 0\nx = 0\nwhile true:\n    t = TruncNormal(0, s, 0, 1)\n    x = x + t\nend\n",
                     "goals": [[["x", 1]], [["t", 2]]], "subs": {}, "nmax": 2, "settings": {}})
        jobs.append({"key": f"reuse-normal-const-{sv}",
                     "text": f"s = {sv}\nt = 0\nx = 0\nwhile true:\n    t = Normal(s, s)\n    x = x + t**2\nend\n",
                     "goals": [[["x", 1]], [["t", 2]]], "subs": {}, "nmax": 2, "settings": {}})
    for key, text, goals in reuse:
        for flag in (True, False):
            jobs.append({"key": f"{key}-{flag}", "text": text, "goals": goals, "subs": {}, "nmax": 3,
                         "settings": {"exact_func_moments": flag}})
    bykey = {j["key"]: j for j in jobs}
    # (a) baseline: every job alone in a fresh process
    base_out = run_tasks([{"fn": "harness.tasks.session:session", "args": {"jobs": [j]}} for j in jobs],
                         timeout=70 if quick else 200, recycle=1, env_extra={"PYTHONHASHSEED": "0"}) if lean_ok else []
    baseline = {}
    for j, o in zip(jobs, base_out):
        if o["status"] == "ok":
            baseline[j["key"]] = o["result"][0][1]
        else:
            chk.count("baseline:" + o["status"])
    usable = [j for j in jobs if j["key"] in baseline and "crash" not in baseline[j["key"]]]
    chk.count("jobs", len(usable))
    # (b)+(c) sessions
    sessions = []
    for seed in seeds:
        for k in range(n_orders):
            order = list(usable)
            r.shuffle(order)
            order = order[: max(4, len(order) * 2 // 3)]
            seq = []
            for j in order:
                jj = dict(j)
                if r.random() < 0.5:
                    g = list(jj["goals"])
                    r.shuffle(g)
                    jj["goals"] = g
                seq.append(jj)
                if r.random() < 0.25:
                    seq.append(dict(jj))          # the same analysis twice in a row
            sessions.append((seed, seq))
    outs = []
    for seed in seeds:
        ss = [s for sd, s in sessions if sd == seed]
        outs += run_tasks([{"fn": "harness.tasks.session:session", "args": {"jobs": s},
                            "timeout": (70 if quick else 200) * 6} for s in ss],
                          timeout=600, recycle=1, env_extra={"PYTHONHASHSEED": seed}) if lean_ok else []
    n_same = 0
    n_alpha = 0
    for (seed, seq), o in zip(sessions, outs):
        chk.evaluations += 1
        if o["status"] != "ok":
            chk.count("session:" + o["status"])
            continue
        for pos, (key, summ) in enumerate(o["result"]):
            prog_s, prog_b = summ.pop("program", None), baseline[key].get("program")
            if prog_s is not None and prog_b is not None:
                # equal canonical forms: the two normalised programs are renamings of each other that fix the source names, hence
                # (Polar.Ren.aux_names_irrelevant) every source moment agrees for ALL n, not only the compared ones
                if prog_s == prog_b:
                    n_alpha += 1
                    chk.count("normalised-programs-alpha-equal")
                else:
                    chk.count("normalised-programs-differ-beyond-renaming")
            if summ == {k_: v_ for k_, v_ in baseline[key].items() if k_ != "program"}:
                n_same += 1
                chk.nontrivial.add(f"{seed}:{[k for k, _ in o['result'][:pos + 1]]}")
                continue
            rec = {"key": key, "seed": seed, "history": [k for k, _ in o["result"][:pos]], "got": summ, "want": baseline[key]}
            fid = attribute(PROP, rec)
            if fid:
                chk.known(fid[0], fid[1])
                continue
            diff = "types" if summ.get("types") != baseline[key].get("types") else "goals/errors"
            chk.violation(f"job {key} after history {rec['history'][-4:]} (PYTHONHASHSEED={seed}) differs from its fresh-process result in {diff}",
                          {"job": bykey[key], "seed": seed, "history_jobs": [bykey[k] for k in rec["history"]],
                           "in_session": summ, "fresh_process": baseline[key],
                           "how": "run harness.tasks.session:session on history_jobs + [job] in one process with the given PYTHONHASHSEED; "
                                  "compare with the job alone in a fresh process"})
        chk.sample({"seed": seed, "order": [k for k, _ in o["result"]]}, limit=3)
    # ---- several benchmark files in ONE polar.py run (one action object, as polar.main does) versus each file alone
    cli_groups = []
    texts_all = [(j["key"], j["text"], j["goals"]) for j in usable if not j["key"].startswith(("func", "reuse"))]
    for gi in range(0, min(len(texts_all), 9), 3):
        grp = texts_all[gi:gi + 3]
        if len(grp) >= 2:
            cli_groups.append(grp)
    shared = [["x", 1]], [["x", 2]]
    gstrs = ["E(x)", "E(x**2)"]
    multi_tasks = [{"fn": "harness.tasks.analyze:cli_multi", "args": {"texts": [t for _, t, _ in g], "goal_strs": gstrs, "at_n": 3}}
                   for g in cli_groups]
    single_tasks = [{"fn": "harness.tasks.analyze:cli_multi", "args": {"texts": [t], "goal_strs": gstrs, "at_n": 3}}
                    for g in cli_groups for _, t, _ in g]
    # the same with --after_loop on guarded loops (the negated-guard polynomial shares monomials between programs)
    guarded_texts = [
        "c = 0\ns = 0\nwhile c == 0:\n    c = Bernoulli(1/2)\n    s = s + 1\nend\n",
        "c = 1\ns = 0\nwhile c == 1:\n    c = Bernoulli(3/4)\n    s = s + 3\nend\n",
        "c = 0\ns = 1\nwhile c < 2:\n    c = c + 1 {1/2} c\n    s = s + c\nend\n",
    ]
    const_texts = [f"s = {sv}\nt = 0\nx = 0\nwhile true:\n    t = TruncNormal(0, s, 0, 1)\n    x = x + t\nend\n" for sv in ("1", "4", "2")]
    cli_groups.append([(f"truncconst{i}", t, None) for i, t in enumerate(const_texts)])
    multi_tasks.append({"fn": "harness.tasks.analyze:cli_multi", "args": {"texts": const_texts, "goal_strs": ["E(x)", "E(t**2)"], "at_n": 2}})
    single_tasks += [{"fn": "harness.tasks.analyze:cli_multi", "args": {"texts": [t], "goal_strs": ["E(x)", "E(t**2)"], "at_n": 2}}
                     for t in const_texts]
    al_goals = ["E(s)", "c2(s)"]
    cli_groups.append([(f"guarded{i}", t, None) for i, t in enumerate(guarded_texts)])
    multi_tasks.append({"fn": "harness.tasks.analyze:cli_multi", "args": {"texts": guarded_texts, "goal_strs": al_goals,
                                                                        "extra_args": ["--after_loop"]}})
    single_tasks += [{"fn": "harness.tasks.analyze:cli_multi", "args": {"texts": [t], "goal_strs": al_goals,
                                                                     "extra_args": ["--after_loop"]}} for t in guarded_texts]
    mo = run_tasks(multi_tasks + single_tasks, timeout=(70 if quick else 200) * 3, recycle=1) if (lean_ok and cli_groups) else []
    multi_out, single_out = mo[:len(multi_tasks)], mo[len(multi_tasks):]
    si = 0
    n_cli = 0
    for g, o in zip(cli_groups, multi_out):
        singles = single_out[si:si + len(g)]
        si += len(g)
        if o["status"] != "ok" or any(s_["status"] != "ok" for s_ in singles):
            chk.count("cli-multi:" + o["status"])
            continue
        for fi, ((key, text, _), pf, s_) in enumerate(zip(g, o["result"], singles)):
            alone = s_["result"][0]
            keep = lambda ls: [l for l in ls if not l.startswith("Elapsed")]
            same = keep(pf["lines"]) == keep(alone["lines"]) and (pf["error"] is None) == (alone["error"] is None)
            if same:
                n_cli += 1
            else:
                chk.violation(f"polar.py with {len(g)} benchmark files: the output for file #{fi + 1} ({key}) differs from running it alone",
                              {"files": [t for _, t, _ in g], "goals": gstrs, "file_index": fi, "in_multi_run": pf, "alone": alone,
                               "how": "harness.tasks.analyze:cli_multi(texts, goal_strs, at_n=3): one ActionFactory action called for every file"})
    chk.obligation("correspondence:multi-file-cli-run-equals-single-file-runs", lean_ok and (n_cli > 0 or not cli_groups), {"files_equal": n_cli})
    chk.obligation("correspondence:session-results-equal-fresh-process-results", lean_ok and n_same > 0, {"equal": n_same})
    chk.obligation("validator:normalised-programs-equal-up-to-auxiliary-names", lean_ok and n_alpha > 0,
                   {"alpha_equal": n_alpha, "differ": chk.counts.get("normalised-programs-differ-beyond-renaming", 0)})
    chk.assumptions = ["CPython hashing, lru_cache internals and object-identity reuse are runtime behaviour the model cannot exhibit: partial"]
    return chk.finish(level="proof",
                      rule="jobs x random orders x hash seeds; distinct = (seed, history prefix) whose result equalled the fresh-process result",
                      trusted_base=["the canonicalisation of generated names (harness/tasks/session.py)"])


def replay(path):
    with open(os.path.join(ROOT, path) if not os.path.isabs(path) else path) as fh:
        blob = json.load(fh)
    seq = blob["history_jobs"] + [blob["job"]]
    o = run_tasks([{"fn": "harness.tasks.session:session", "args": {"jobs": seq}}], timeout=900, recycle=1,
                  env_extra={"PYTHONHASHSEED": blob["seed"]})[0]
    got = o["result"][-1][1] if o["status"] == "ok" else o
    got = {k: v for k, v in got.items() if k != "program"}
    blob["fresh_process"] = {k: v for k, v in blob["fresh_process"].items() if k != "program"}
    print(json.dumps({"in_session": got, "fresh_process": blob["fresh_process"]}, indent=1)[:3000])
    if got != blob["fresh_process"]:
        print(f"VIOLATION property={PROP} replay={path}")
        return 1
    return 0
