"""C09 — moments after termination equal the expectation at loop exit.

For generated guarded loops the real `get_moment_given_termination` / `transform_to_after_loop`
are compared with the Lean reference semantics: E(M·1[¬G])(n) and P(¬G)(n) (op `moments` with
`given`) give the exact conditional expectation E(M | T <= n) at every n; the value reported for
`--after_loop` is compared with the limit that the Lean rule `Polar.Limit.ratioLimit` derives from
the term shapes of numerator and denominator (whose values are tied to the exact ones at n <= N)."""
import json
import os
from fractions import Fraction as Fr

from .. import pipeline, hast as H
from ..common import Check, lean_gate, ROOT, model_batch_parallel
from ..oracle import case_text, polar_subs, lean_sigma0
from ..pool import run_tasks
from ..findings import attribute
from ..theorems import THEOREMS as _T

PROP = "C09"
THEOREMS = _T.get(PROP, [])


def run(tier):
    chk = Check(PROP, tier)
    lean_ok = lean_gate(chk, THEOREMS)
    quick = tier == "quick"
    n_gen = 40 if quick else 700
    nmax = 6
    cases = [c for c in pipeline.load_corpus(PROP)] + \
        pipeline.generate_cases(n_gen, f"{PROP}-{tier}", families=["guarded"])
    cases = [c for c in cases if c["program"]["guard"] != H.TT]
    tasks = []
    for c in cases:
        c["text_used"] = c.get("text") or case_text(c)
        # raw moments 1..3 of one numeric variable come first: central moments / cumulants after the loop are derived from them
        body_vars = sorted(H.stmts_assigned(c["program"]["body"]))
        xv = next((v for v in ("x", "y", "z") if v in body_vars), None)
        c["_extras_var"] = xv
        if xv:
            third = [[(xv, 3)]] if (not quick or c.get("corpus")) else []
            c["goals"] = [[(xv, 1)], [(xv, 2)]] + third + [g for g in c["goals"] if g not in ([(xv, 1)], [(xv, 2)], [(xv, 3)])][:2]
        tasks.append({"fn": "harness.tasks.afterloop:after_loop",
                      "args": {"text": c["text_used"], "goals": [[[x, k] for x, k in g] for g in c["goals"]],
                               "subs": polar_subs(c), "nmax": nmax, "extras_var": xv, "extras_third": (not quick) or bool(c.get("corpus")),
                               "extras_budget": 90 if c.get("corpus") else (30 if quick else 60)},
                      "timeout": 200 if c.get("corpus") else (90 if quick else 240)})
    outs = run_tasks(tasks, timeout=90 if quick else 240, progress=50) if lean_ok else []
    reqs = []
    for c in cases:
        reqs.append({"op": "moments", "program": H.program_json(c["program"]), "sigma0": lean_sigma0(c),
                     "monos": [[[x, k] for x, k in g] for g in c["goals"]], "nmax": nmax, "budget": 3000,
                     "given": H.cond_json(("not", c["program"]["guard"]))})
    oracle = model_batch_parallel(reqs) if lean_ok else []
    lim_reqs, lim_meta = [], []
    ok_seq = 0
    for c, out, o in zip(cases, outs, oracle):
        chk.evaluations += 1
        if out["status"] == "timeout":
            chk.count("timeout")
            continue
        if out["status"] != "ok":
            chk.count("harness-error")
            chk.obligation("harness:task", False, out)
            continue
        res = out["result"]
        if not res["accepted"]:
            chk.count("refused:" + res["error"]["etype"])
            continue
        if not o.get("ok"):
            chk.count("oracle-refused:" + str(o.get("error"))[:30])
            continue
        mass = [Fr(x) for x in o["mass"]]
        for gi, g in enumerate(res["goals"]):
            if not g.get("ok"):
                chk.count("refused-goal:" + g["error"]["etype"])
                continue
            num = [Fr(x) for x in o["values"][gi]]
            truth = [(a / m if m != 0 else None) for a, m in zip(num, mass)]
            polar = [tuple(v) for v in g["cond_values"]]
            bad = None
            for n, (pv, t) in enumerate(zip(polar, truth)):
                if t is None:
                    continue          # P(T <= n) = 0: the conditional expectation is undefined
                tag, s = pv
                if tag != "q" or Fr(s) != t:
                    bad = (n, s, H.fr_str(t), tag)
                    break
            chk.count("conditional-sequences")
            if bad:
                rec = {"case": c, "goal": g["mono"], "polar_cond": polar, "truth_cond": truth, "bad": bad}
                fid = attribute(PROP, rec)
                if fid:
                    chk.known(fid[0], fid[1])
                    chk.count("attributed:" + fid[0])
                else:
                    n, s, t, tag = bad
                    chk.violation(f"E({g['mono']} | terminated by n={n}) reported {s} ({tag}), exact {t}",
                                  {"case": pipeline.case_to_json(c), "text": c["text_used"], "goal": g["mono"], "n": n,
                                   "reported": s, "exact": t, "closed_form": g.get("cond_closed_form"),
                                   "exact_sequence": [None if x is None else H.fr_str(x) for x in truth],
                                   "how": "cli.common.get_moment_given_termination on normalize_program(parse(text)); exact: "
                                          "E(M 1[not guard])(n) / P(not guard)(n) under the Lean semantics"})
            else:
                ok_seq += 1
            # the after-loop value versus the limit of num/den (term shapes from the real closed forms,
            # whose values are tied to the exact ones: polar's num/den at n equal the exact ones at n or n-1)
            nv = [tuple(v) for v in g["num_values"]]
            dv = [tuple(v) for v in res["den_values"]]
            tied = False
            for shift in (0, 1):
                okk, pts = True, 0
                for n in range(shift + 1, min(len(nv), len(num) + shift)):
                    if nv[n][0] != "q" or dv[n][0] != "q" or Fr(nv[n][1]) != num[n - shift] or Fr(dv[n][1]) != mass[n - shift]:
                        okk = False
                        break
                    pts += 1
                if okk and pts >= 3:
                    tied = True
                    break
            if not tied:
                chk.count("after-loop:num-den-not-tied")
                continue
            if g.get("num_terms") is None or res.get("den_terms") is None:
                chk.count("after-loop:irrational-or-unshaped")
                continue
            lim_reqs.append({"op": "ratio_limit", "num": g["num_terms"], "den": res["den_terms"]})
            lim_meta.append((c, g))
    lim_ans = model_batch_parallel(lim_reqs) if lim_reqs else []
    ok_lim = 0
    raw_limits = {}
    INF = "infinite"
    for (c, g), a in zip(lim_meta, lim_ans):
        if a.get("ok") and a.get("kind") == "finite":
            raw_limits[(id(c), json.dumps(g["mono"]))] = Fr(a["value"])
        elif a.get("ok") and a.get("kind") == "infinite":
            raw_limits[(id(c), json.dumps(g["mono"]))] = INF
    # central moments / cumulants after the loop from the raw limits
    for c, out in zip(cases, outs):
        xv = c.get("_extras_var")
        if not xv or out["status"] != "ok" or not out["result"].get("accepted") or "extras" not in out["result"]:
            continue
        ex_ = out["result"]["extras"]
        if ex_.get("central2", ("missing",))[0] == "q" and ex_.get("cumulant2", ("missing",))[0] == "q":
            # the second central moment and the second cumulant are both the variance at loop exit
            chk.count("after-loop-extra:central2-vs-cumulant2")
            if Fr(ex_["central2"][1]) != Fr(ex_["cumulant2"][1]):
                chk.violation(f"after-loop c2({xv}) = {ex_['central2'][1]} but k2({xv}) = {ex_['cumulant2'][1]}: both are the variance at loop exit",
                              {"case": pipeline.case_to_json(c), "text": c["text_used"], "goal": f"c2({xv}) / k2({xv})",
                               "reported": ex_, "how": "GoalsAction.handle_central_moment_goal / handle_cumulant_goal with --after_loop"})
        L = [raw_limits.get((id(c), json.dumps([[xv, k]]))) for k in (1, 2, 3)]
        if L[0] is None or L[1] is None or L[0] == INF:
            continue
        want = {}
        if L[1] == INF:
            # finite mean, divergent second moment: the variance at loop exit is infinite and has to be reported as such
            want = {"central2": INF, "cumulant2": INF}
            if L[2] == INF:
                # the third raw moment dominates the divergent lower ones
                want["central3"] = INF
                want["cumulant3"] = INF
        else:
            want = {"central2": L[1] - L[0] ** 2, "cumulant2": L[1] - L[0] ** 2}
            if L[2] == INF:
                want["cumulant3"] = INF
                want["central3"] = INF
            elif L[2] is not None:
                k3 = L[2] - 3 * L[0] * L[1] + 2 * L[0] ** 3
                want["cumulant3"] = k3
                want["central3"] = k3
        for key, w in want.items():
            tag, val = out["result"]["extras"].get(key, ("missing", ""))
            if tag == "error":
                chk.count("after-loop-extra:refused:" + str(val))
                continue
            chk.count("after-loop-extra-goals")
            if w == INF:
                okv = tag == "infinite"
                wtxt = "infinite"
            else:
                okv = tag == "q" and Fr(val) == w
                wtxt = H.fr_str(w)
            if not okv:
                w = wtxt
                rec = {"case": c, "goal": key, "reported": (tag, val), "exact": wtxt}
                fid = attribute(PROP, rec)
                if fid:
                    chk.known(fid[0], fid[1])
                else:
                    chk.violation(f"after-loop {key}({xv}) reported {val} ({tag}), the exit-state value is {w}",
                                  {"case": pipeline.case_to_json(c), "text": c["text_used"], "goal": f"{key}({xv})",
                                   "reported": [tag, val], "exact": w,
                                   "raw_limits": [None if x is None else (x if x == INF else H.fr_str(x)) for x in L]})
    for (c, g), a in zip(lim_meta, lim_ans):
        if not a.get("ok"):
            chk.count("limit-model-refused")
            continue
        kind = a["kind"]
        rep_tag, rep = g["after_loop"]
        bad = None
        if kind == "finite":
            if g.get("after_loop_free_n"):
                bad = f"reported value still depends on n: {g['after_loop_str']}"
            elif rep_tag != "q" or Fr(rep) != Fr(a["value"]):
                bad = f"reported {rep} ({rep_tag}), limit of the conditional sequence is {a['value']}"
        elif kind == "infinite":
            if rep_tag == "divergent":
                chk.count("after-loop:divergence-reported-as-unbounded-range")
            elif rep_tag != "infinite":
                bad = f"reported {rep} ({rep_tag}) but the conditional sequence diverges"
        else:
            chk.count("after-loop:" + kind)
            continue
        chk.count("after-loop-values")
        if bad:
            rec = {"case": c, "goal": g["mono"], "after_loop": g["after_loop"], "limit": a}
            fid = attribute(PROP, rec)
            if fid:
                chk.known(fid[0], fid[1])
            else:
                chk.violation(f"after-loop value of E({g['mono']}): {bad}",
                              {"case": pipeline.case_to_json(c), "text": c["text_used"], "goal": g["mono"],
                               "reported": g["after_loop"], "reported_str": g["after_loop_str"], "limit": a,
                               "num_terms": g["num_terms"], "den_terms": None})
        else:
            ok_lim += 1
            chk.nontrivial.add(c["text_used"] + json.dumps(g["mono"]))
            chk.sample({"text": c["text_used"], "goal": g["mono"], "after_loop": g["after_loop_str"], "limit": a}, limit=4)
    chk.obligation("correspondence:conditional-sequence-vs-exact", lean_ok and (ok_seq > 0 or chk.known_hits != []) and
                   chk.counts.get("harness-error", 0) == 0, {"sequences_equal": ok_seq})
    chk.obligation("correspondence:after-loop-value-vs-limit", lean_ok and ok_lim > 0, {"values_equal": ok_lim})
    chk.assumptions = ["the limit is derived from the term shapes of Polar's own numerator/denominator closed forms, which are "
                       "tied to the exact sequences at n <= 6 (their for-all-n validity is C01/C04's subject)",
                       "oscillating dominant terms are only classified"]
    return chk.finish(level="proof",
                      rule="generated guarded loops x goal monomials; non-trivial = after-loop value compared with the Lean limit rule",
                      trusted_base=["Lean kernel/compiler (reference semantics, Polar.Limit.ratioLimit)",
                                    "term-shape extraction (harness/tasks/solve.py)"])


def replay(path):
    with open(os.path.join(ROOT, path) if not os.path.isabs(path) else path) as fh:
        blob = json.load(fh)
    print(json.dumps({k: v for k, v in blob.items() if k != "case"}, indent=1)[:3000])
    return 1
