"""C16 — exponent-lattice bases consist of, and generate, all multiplicative relations.

Rational lists (proof tier): `ExponentLattice(bs).compute_basis()` of the working tree is judged by the
Lean specification (polar-model op `lattice_check`): every returned row must satisfy ∏ bᵢ^eᵢ = 1
(`relationHolds`), the rows must be independent (`independent`) and every row of the verified basis
`latticeBasis bs` (theorem `c16_rational`) must lie in their integer span (`inIntSpan`); by theorem
`c16_check_iff` the verdicts are green iff the returned rows are a ℤ-basis of the exponent lattice.
Next to it the correspondence with the Lean model of the code (`latticeAsCoded`, op `lattice_model`): the
code's rows must equal the model's rows one for one; theorem `c16_code_correct` says the modelled algorithm
(shortcut + multiplicity/parity system + `_integer_kernel`) returns a ℤ-basis for every list of non-zero
rationals.  A wrong answer on a rational list is always a VIOLATION (F4 / F4b were repaired in /repo, commits
526383e, 41c095b; their inputs stay in the corpus as regression cases).

Constructed-relation lists (general/Kauers path, exact): bases sign·g^a·h^b for multiplicatively independent
generators (sqrt 2, 1+sqrt 2, golden ratio, 2+sqrt 3, 3, …) with exponents up to ±300; the lattice is the integer
kernel of the exponent rows (plus parity) by construction, and the code's rows are judged - soundness AND
completeness - by the verified `lattice_check` on the rational shadow list sign·2^a·3^b.  No enumeration bound.

Algebraic lists (test tier, labelled as such): bases in one quadratic field ℚ(√D) (exact pair
arithmetic in Lean, op `lattice_check_quad`): soundness exactly, completeness by enumeration of the box
|eᵢ| ≤ bound; bases from several fields: soundness and box enumeration by sympy `minimal_polynomial`
in the worker, span membership by Lean (`span_check`)."""
import json
import os
from fractions import Fraction as Fr

from ..common import Check, lean_gate, ROOT, model_batch, rng
from ..pool import run_tasks
from ..theorems import THEOREMS as _T

PROP = "C16"
THEOREMS = _T.get(PROP, [])

TRUSTED = [
    "Lean 4.33 kernel; axioms propext, Classical.choice, Quot.sound only",
    "Mathlib definitions: padicValRat, Nat.Prime, zpow on ℚ",
    "compiled polar-model agrees with the kernel semantics of the same definitions (relationHolds, latticeBasis, "
    "inIntSpan, independent, latticeAsCoded)",
    "harness: generator, conversion of rationals to sympy numbers, transport of integer rows as JSON",
    "constructed-relation tier: the chosen generator pairs are multiplicatively independent, positive and non-torsion "
    "(paper argument: unit of infinite order vs non-unit / coprime norms), so g -> 2, h -> 3 is an isomorphism of the "
    "generated groups; sympy expand builds the exact bases",
    "algebraic tier only: sympy minimal_polynomial / evalf(80) for mixed-field bases; for ℚ(√D) the pair arithmetic "
    "of Polar/Lattice.lean is proved exact (relationHoldsQuad_iff) but completeness there is bounded enumeration (a "
    "test), and the harness' translation a + b*sqrt(D) -> sympy expression is trusted",
]

# inputs of the repaired defects F4 (rational nullspace cast to int) and F4b (base 1 dropped): regression cases with
# the rows the repaired code must return (= `latticeAsCoded`, `decide`d in PolarProofs/Lattice.lean)
REGRESSION = {
    ("4", "8"): [[3, -2]],
    ("4", "1/2"): [[1, 2]],
    ("9", "27", "3"): [[1, 0, -2], [0, 1, -3]],
    ("1", "2"): [[1, 0]],
}

SUITE_RATIONAL = [["2", "1/2"], ["1", "-1"]]
CORPUS_RATIONAL = SUITE_RATIONAL + [list(k) for k in REGRESSION] + [
    ["-1"], ["1"], ["1", "1"], ["-1", "-1"], ["-2", "3", "6"], ["-2", "2"], ["-2", "2", "4"], ["-1", "2"],
    ["2", "3"], ["-2", "-3"], ["1", "4"], ["1", "2", "4"], ["-4", "2"], ["-4", "-2"], ["4", "-8"],
    ["2", "1/2", "1", "-1"], ["6", "10", "15"], ["2/3", "3/2"], ["2/3", "9/4"], ["1", "-1", "-1"],
    ["-1/2", "-2"], ["6", "2/3", "2"], ["4", "8", "2"], ["1/2", "1/3"], ["-3", "1"], ["12", "18", "-24"],
    ["5", "1", "7", "1"], ["-4", "-8"], ["-8", "4", "-2"], ["49/25", "125/343"], ["-1", "4", "8"],
]

HOWS = ["sympify", "Rational", "Integer", "div"]


# ------------------------------------------------------------------------------------------------
# generators
# ------------------------------------------------------------------------------------------------

def _fs(f):
    return f"{f.numerator}/{f.denominator}" if f.denominator != 1 else str(f.numerator)


def _mono(r, primes, lo, hi, density):
    v = Fr(1)
    for p in primes:
        if r.random() < density:
            v *= Fr(p) ** r.randint(lo, hi)
    return v


def gen_rational(r, family):
    k = r.choice([1, 2, 2, 3, 3, 3, 4, 4, 5, 6])
    small = [2, 3, 5, 7]
    if family == "powers":
        ps = r.sample(small, r.choice([1, 1, 2]))
        bs = [_mono(r, ps, -4, 4, 0.9) for _ in range(k)]
    elif family == "shared":
        ps = r.sample(small, r.choice([2, 3]))
        bs = [_mono(r, ps, -3, 3, 0.7) for _ in range(k)]
    elif family == "mult01":
        ps = r.sample(small + [11, 13], r.choice([2, 3, 4]))
        bs = [_mono(r, ps, -1, 1, 0.8) for _ in range(k)]
    elif family == "units":
        ps = r.sample(small, 2)
        bs = [_mono(r, ps, -2, 2, 0.7) for _ in range(k)]
        for _ in range(r.choice([1, 1, 2])):
            bs[r.randrange(k)] = Fr(r.choice([1, -1, 1]))
    elif family == "repeat":
        ps = r.sample(small, 2)
        base = [_mono(r, ps, -3, 3, 0.8) for _ in range(max(1, k // 2))]
        bs = []
        for _ in range(k):
            b = r.choice(base)
            c = r.random()
            bs.append(b if c < 0.4 else (1 / b if c < 0.7 else (b * b if c < 0.85 else -b)))
    elif family == "coprime":
        ps = r.sample([2, 3, 5, 7, 11, 13, 17, 19], min(8, 2 * k))
        bs = []
        for i in range(k):
            n = Fr(ps[2 * i % len(ps)]) ** r.randint(1, 3)
            d = Fr(ps[(2 * i + 1) % len(ps)]) ** r.randint(0, 2) if 2 * k <= len(ps) else Fr(1)
            bs.append(n / d if r.random() < 0.7 else n)
        c = r.random()
        if c < 0.45:
            bs[r.randrange(k)] = Fr(1)
        elif c < 0.55:
            bs[r.randrange(k)] = Fr(-1)
        elif c < 0.65 and k >= 2:
            bs[r.randrange(k)] = Fr(1)
            bs[r.randrange(k)] = Fr(1)
    elif family == "big":
        ps = r.sample([11, 13, 17, 19, 23, 29, 31, 37, 41, 43, 47, 53, 97, 101, 199], r.choice([2, 3]))
        bs = [_mono(r, ps, -2, 2, 0.8) for _ in range(k)]
    else:  # "signs"
        ps = r.sample(small, r.choice([1, 2, 3]))
        bs = [_mono(r, ps, -2, 3, 0.75) for _ in range(k)]
        bs = [-b if r.random() < 0.6 else b for b in bs]
    if family not in ("signs", "coprime", "units"):
        bs = [-b if r.random() < 0.2 else b for b in bs]
    return [_fs(b) for b in bs]


FAMILIES = ["powers", "shared", "mult01", "units", "repeat", "coprime", "big", "signs"]

# elements of quadratic fields: (a, b) = a + b√D
QUAD_POOL = {
    2: [("1", "1"), ("1", "-1"), ("-1", "1"), ("3", "2"), ("3", "-2"), ("0", "1"), ("0", "-1"), ("2", "0"),
        ("1/2", "0"), ("-1", "0"), ("1", "0"), ("3", "0"), ("0", "2"), ("0", "1/2"), ("2", "1"), ("7", "5"),
        ("4", "0"), ("3", "1"), ("5", "0")],
    3: [("2", "1"), ("2", "-1"), ("0", "1"), ("1", "1"), ("7", "4"), ("-1", "0"), ("3", "0"), ("2", "0"),
        ("-2", "-1"), ("1", "0"), ("0", "-1"), ("1", "-1")],
    5: [("1/2", "1/2"), ("1/2", "-1/2"), ("3/2", "1/2"), ("0", "1"), ("2", "1"), ("-1", "0"), ("5", "0"),
        ("1", "0"), ("2", "0"), ("-1/2", "1/2"), ("1/5", "0")],
    -1: [("0", "1"), ("0", "-1"), ("1", "1"), ("1", "-1"), ("2", "0"), ("1/2", "0"), ("-1", "0"), ("1", "0"),
         ("0", "2"), ("1", "2"), ("2", "1"), ("3", "4"), ("3/5", "4/5"), ("5", "0"), ("-1", "1"), ("4", "0")],
    -3: [("-1/2", "1/2"), ("-1/2", "-1/2"), ("1/2", "1/2"), ("1/2", "-1/2"), ("0", "1"), ("-1", "0"), ("3", "0"),
         ("1", "0"), ("2", "0"), ("3/2", "1/2"), ("1", "1")],
    -2: [("0", "1"), ("1", "1"), ("1", "-1"), ("-1", "0"), ("2", "0"), ("3", "0"), ("1", "0"), ("1/3", "0")],
}

CORPUS_QUAD = [
    (2, [("1", "1"), ("1", "-1"), ("3", "0"), ("5", "0")]),          # suite test 6
    (-1, [("0", "-1"), ("0", "1")]),                                   # suite test 3 (the two roots of x²+1)
    (2, [("0", "1")]), (2, [("0", "1"), ("2", "0")]), (-1, [("0", "1")]), (-1, [("0", "1"), ("-1", "0")]),
    (5, [("1/2", "1/2"), ("1/2", "-1/2")]), (2, [("0", "1"), ("0", "2")]),
    (-1, [("0", "1"), ("0", "-1"), ("2", "0"), ("1/2", "0")]), (-3, [("-1/2", "1/2")]),
    (-3, [("-1/2", "1/2"), ("-1/2", "-1/2")]), (-1, [("1", "1"), ("1", "-1"), ("2", "0")]),
    (2, [("0", "1"), ("4", "0"), ("8", "0")]), (2, [("3", "2"), ("1", "1")]), (2, [("0", "1"), ("0", "-1")]),
    (2, [("0", "1"), ("1", "0")]), (3, [("2", "1"), ("2", "-1"), ("7", "4")]), (-1, [("1", "1"), ("2", "0")]),
    (-1, [("1", "1"), ("0", "1"), ("2", "0")]), (-1, [("3/5", "4/5")]), (-1, [("3/5", "4/5"), ("3/5", "-4/5")]),
]

CORPUS_EXPR = [
    (["CRootOf(x**2 + 1, 0)", "CRootOf(x**2 + 1, 1)"], 6),                                   # suite test 3
    (["2", "1/2", "1", "-1", "CRootOf(x**2 + 1, 0)", "CRootOf(x**2 + 1, 1)"], 2),             # suite test 4
    (["sqrt(2)", "sqrt(3)"], 6),                                                              # suite test 5
    (["1 + sqrt(2)", "1 - sqrt(2)", "3", "5"], 3),                                            # suite test 6
    (["sqrt(2)", "sqrt(3)", "sqrt(6)"], 4),
    (["2**(1/3)", "4**(1/3)"], 6),
    (["sqrt(2) + sqrt(3)", "sqrt(3) - sqrt(2)"], 6),
    (["sqrt(2)", "sqrt(3)", "6"], 4),
    (["2**(1/3)", "2"], 6),
    (["sqrt(2)", "I"], 6),
    (["(1 + I)/sqrt(2)"], 8),
    (["(1 + I)/sqrt(2)", "I"], 8),
    (["sqrt(2)", "1 + I"], 6),
]


# constructed-relation family: bases sign_i * g^a_i * h^b_i with g, h positive real, non-torsion and
# multiplicatively independent (a unit of infinite order next to a non-unit, or elements with coprime norms), so the
# exponent lattice is exactly {e | a.e = 0, b.e = 0, sum_{sign_i<0} e_i even}: the exponent lattice of the rational
# "shadow" list sign_i * 2^a_i * 3^b_i, which the verified procedures decide exactly - for exponents of any size.
GEN_PAIRS = [("sqrt2", "3"), ("sqrt2", "1+sqrt2"), ("1+sqrt2", "3"), ("1+sqrt2", "sqrt2"), ("phi", "2"), ("phi", "sqrt5"),
             ("2+sqrt3", "5"), ("2+sqrt3", "sqrt3"), ("sqrt3", "2"), ("sqrt5", "3")]
BIG_OK = {"sqrt2", "sqrt3", "sqrt5", "2", "3", "5"}       # generators whose large powers stay small expressions

CORPUS_CONSTRUCTED = [
    ("sqrt2", None, [1, -200], None, [1, 1]),            # sqrt(2), 1/2^100: the only generator is (200, 1)
    ("sqrt2", None, [1, -256], None, [1, 1]),
    ("sqrt2", None, [1, -300], None, [1, 1]),
    ("sqrt2", None, [1, 200], None, [1, 1]),
    ("sqrt2", "3", [1, 0, -200], [0, 1, 5], [1, 1, 1]),
    ("sqrt2", "3", [1, -150, 0], [0, -150, 1], [1, 1, 1]),
    ("sqrt3", "2", [1, -180], [0, -7], [1, 1]),
    ("sqrt5", None, [3, -170], None, [1, -1]),
    ("sqrt2", None, [3, -90, 64], None, [1, 1, -1]),
    ("1+sqrt2", "3", [2, -3, 1], [0, 1, -1], [1, -1, 1]),
    ("phi", "2", [5, -4, 2, 0], [1, 0, -3, 2], [1, 1, 1, 1]),
    ("2+sqrt3", "5", [6, -5], [0, 1], [1, 1]),
    ("sqrt2", "3", [1, 0, -2], [0, 1, -190], [1, 1, 1]),   # sqrt(2), 3, 1/(2*3^190)
]


def gen_constructed(r):
    g, h = r.choice(GEN_PAIRS)
    two = r.random() < 0.5
    big = r.random() < 0.55 and g in BIG_OK and (not two or h in BIG_OK)
    k = r.choice([2, 2, 3]) if big else r.choice([2, 3, 3, 4])
    lim = 6 if not big else 12
    a = [r.randint(-lim, lim) for _ in range(k)]
    b = [r.randint(-lim, lim) if two and r.random() < 0.7 else 0 for _ in range(k)]
    if big:
        i = r.randrange(k)
        a[i] = r.choice([-1, 1]) * 2 * r.randint(45, 150) if g in ("sqrt2", "sqrt3", "sqrt5") else r.choice([-1, 1]) * r.randint(60, 200)
        if two and r.random() < 0.4:
            b[r.randrange(k)] = r.choice([-1, 1]) * r.randint(60, 200)
    # at least one base must be irrational (general path): an odd power of the irrational generator
    if g in ("sqrt2", "sqrt3", "sqrt5") and all(x % 2 == 0 for x in a):
        j = r.choice([i for i in range(k) if abs(a[i]) < 40] or [0])
        a[j] = r.choice([1, 3, -1, 5])
    if g in ("1+sqrt2", "phi", "2+sqrt3") and all(x == 0 for x in a):
        a[0] = r.choice([1, 2, -1])
    signs = [-1 if r.random() < 0.2 else 1 for _ in range(k)]
    return (g, h if two else None, a, b if two else None, signs)


def shadow(a, b, signs):
    """the rational list sign_i * 2^a_i * 3^b_i as "p/q" strings"""
    out = []
    for i in range(len(a)):
        v = Fr(2) ** a[i] * (Fr(3) ** b[i] if b else 1) * signs[i]
        out.append(_fs(v))
    return out


def analyse_constructed(cases, timeout):
    tasks = [{"fn": "harness.tasks.c16:constructed_case",
              "args": {"g": g, "h": h, "a": a, "b": b or [0] * len(a), "signs": sg}} for g, h, a, b, sg in cases]
    outs = run_tasks(tasks, timeout=timeout) if tasks else []
    recs, reqs = [], []
    for (g, h, a, b, sg), o in zip(cases, outs):
        out = o["result"] if o["status"] == "ok" else {"status": o["status"], "etype": o.get("etype"), "message": o.get("message")}
        sh = shadow(a, b, sg)
        recs.append({"kind": "constructed", "g": g, "h": h, "a": a, "b": b, "signs": sg, "bases": sh,
                     "exprs": out.get("exprs"), "out": out})
        reqs.append({"op": "lattice_check", "bases": sh, "rows": out.get("basis", []) if out.get("status") == "ok" else []})
    ans = model_batch_parallel(reqs)
    for x, v in zip(recs, ans):
        x["verdict"] = v
    return recs


def gen_quad(r):
    D = r.choice(list(QUAD_POOL))
    k = r.choice([1, 2, 2, 3, 3, 4])
    pool = QUAD_POOL[D]
    bs = [r.choice(pool) for _ in range(k)]
    if all(b[1] == "0" for b in bs):        # keep at least one irrational / complex element
        bs[r.randrange(k)] = pool[0]
    return D, bs


def quad_bound(k):
    return {1: 8, 2: 6, 3: 5}.get(k, 4)


# ------------------------------------------------------------------------------------------------
# running
# ------------------------------------------------------------------------------------------------

def model_batch_parallel(requests, chunks=12, timeout=900):
    """requests piped through a dozen polar-model processes (many requests per process), answers in order"""
    if len(requests) <= 8:
        return model_batch(requests, timeout)
    from concurrent.futures import ThreadPoolExecutor
    k = min(chunks, len(requests))
    parts = [requests[i::k] for i in range(k)]
    with ThreadPoolExecutor(max_workers=k) as ex:
        res = list(ex.map(lambda part: model_batch(part, timeout), parts))
    out = [None] * len(requests)
    for i, part in enumerate(res):
        for j, a in enumerate(part):
            out[i + j * k] = a
    return out


def _batches(items, n):
    return [items[i:i + n] for i in range(0, len(items), n)]


def _run_batched(fn, cases, size, timeout, extra=None):
    """cases -> outcomes (one per case); a timed-out or crashed batch yields that status for each member"""
    if not cases:
        return []
    groups = _batches(cases, size)
    tasks = [{"fn": fn, "args": dict({"cases": g}, **(extra or {}))} for g in groups]
    outs = run_tasks(tasks, timeout=timeout)
    res = []
    for g, o in zip(groups, outs):
        if o["status"] == "ok":
            res.extend(o["result"])
        else:
            res.extend([{"status": o["status"], "etype": o.get("etype"), "message": o.get("message")}] * len(g))
    return res


def analyse_rational(cases, timeout=90):
    """cases: [{"bases", "how", "family"}] -> records with the code's outcome and the Lean answers"""
    outs = _run_batched("harness.tasks.c16:rational_batch", cases, 25, timeout)
    reqs = []
    for c, o in zip(cases, outs):
        reqs.append({"op": "lattice_model", "bases": c["bases"]})
        reqs.append({"op": "lattice_check", "bases": c["bases"],
                     "rows": o["basis"] if o.get("status") == "ok" else []})
    ans = model_batch_parallel(reqs)
    recs = []
    for i, (c, o) in enumerate(zip(cases, outs)):
        recs.append({"kind": "rational", "bases": c["bases"], "how": c.get("how", "sympify"),
                     "family": c.get("family", "corpus"), "out": o, "model": ans[2 * i], "verdict": ans[2 * i + 1]})
    return recs


def passes(v):
    return bool(v.get("ok") and v.get("shape_ok") and all(v.get("sound", [False])) and v.get("independent")
                and v.get("complete"))


def failing_clauses(v):
    out = []
    if not v.get("shape_ok"):
        out.append("shape")
    if not all(v.get("sound", [])):
        out.append("soundness")
    if not v.get("independent"):
        out.append("independence")
    if not v.get("complete"):
        out.append("completeness")
    return out


def describe(rec):
    v = rec["verdict"]
    return (f"bases {rec['bases']}: compute_basis() = {rec['out'].get('basis')} fails {'+'.join(failing_clauses(v))}; "
            f"a correct basis is {v.get('spec_basis')}"
            + (f"; relation not generated: {v.get('witness')}" if v.get("witness") else ""))


def replay_blob(rec):
    return {"kind": rec["kind"], "bases": rec["bases"], "how": rec.get("how"), "D": rec.get("D"),
            "constructed": [rec.get("g"), rec.get("h"), rec.get("a"), rec.get("b"), rec.get("signs")] if rec["kind"] == "constructed" else None,
            "exprs": rec.get("exprs"), "bound": rec.get("bound"),
            "actual": rec["out"].get("basis"), "expected_lattice_basis": (rec.get("verdict") or {}).get("spec_basis"),
            "verdict": {k: v for k, v in (rec.get("verdict") or {}).items() if k != "spec_basis"},
            "code_outcome": {k: v for k, v in rec["out"].items() if k != "box_relations"}}


def minimise_rational(rec):
    """drop bases while the same clauses keep failing"""
    cur = rec
    want = failing_clauses(rec["verdict"])
    improved = True
    while improved and len(cur["bases"]) > 1:
        improved = False
        cands = [{"bases": cur["bases"][:i] + cur["bases"][i + 1:], "how": cur["how"]} for i in range(len(cur["bases"]))]
        rs = analyse_rational(cands)
        for r in rs:
            if r["out"].get("status") == "ok" and r["verdict"].get("ok") and not passes(r["verdict"]) \
                    and failing_clauses(r["verdict"]) == want:
                cur = r
                improved = True
                break
    return cur


# ------------------------------------------------------------------------------------------------

def run(tier):
    chk = Check(PROP, tier)
    lean_ok = lean_gate(chk, THEOREMS)
    quick = tier == "quick"
    r = rng(f"{PROP}-{tier}")
    n_rat = 3000 if quick else 80000
    n_quad = 200 if quick else 4000
    # ---------------- rational tier
    cases, seen = [], set()
    for i, bs in enumerate(CORPUS_RATIONAL):
        for how in (HOWS if i < 8 else [HOWS[i % 2]]):
            if how == "Integer" and any("/" in b for b in bs):
                continue
            cases.append({"bases": bs, "how": how, "family": "corpus"})
        seen.add(tuple(bs))
    tries = 0
    while len(cases) < n_rat + len(CORPUS_RATIONAL) and tries < 20 * n_rat:
        tries += 1
        fam = FAMILIES[tries % len(FAMILIES)]
        bs = gen_rational(r, fam)
        if tuple(bs) in seen:
            continue
        seen.add(tuple(bs))
        cases.append({"bases": bs, "how": r.choice(HOWS[:2] + ["div"]), "family": fam})
    recs = analyse_rational(cases) if lean_ok else []
    n_pass = n_viol = n_model_diff = n_exact = 0
    model_diffs = []
    fam_stats = {}
    reported = set()
    sampled = set()
    for x in recs:
        chk.evaluations += 1
        fs = fam_stats.setdefault(x["family"], {"n": 0, "pass": 0, "nontrivial": 0})
        fs["n"] += 1
        chk.count("branch:" + str(x["out"].get("branch")))
        chk.count("k=%d" % len(x["bases"]))
        if x["out"].get("status") in ("timeout", "crash"):
            chk.count("rational:" + x["out"]["status"])
            continue
        if not x["model"].get("ok") or not x["verdict"].get("ok"):
            chk.count("harness-error")
            chk.obligation("harness:polar-model", False, {"bases": x["bases"], "model": x["model"], "verdict": x["verdict"]})
            continue
        if x["out"].get("status") != "ok":
            # the model of the code never raises on non-zero rationals
            n_model_diff += 1
            model_diffs.append({"bases": x["bases"], "code": x["out"], "model": x["model"].get("basis")})
            chk.count("code-exception:" + str(x["out"].get("etype")))
            continue
        v = x["verdict"]
        ok = passes(v)
        if v.get("spec_basis"):
            fs["nontrivial"] += 1
            if ok:
                chk.nontrivial.add(tuple(x["bases"]))
        exact = x["out"]["basis"] == x["model"]["basis"]
        n_exact += exact
        # correspondence with the model of the code: the same rows in the same order
        if not exact:
            n_model_diff += 1
            model_diffs.append({"bases": x["bases"], "code": x["out"]["basis"], "model": x["model"]["basis"]})
        if ok:
            n_pass += 1
            fs["pass"] += 1
            if v.get("spec_basis") and tuple(x["bases"]) not in sampled and x["family"] != "corpus":
                sampled.add(tuple(x["bases"]))
                chk.sample({"bases": x["bases"], "family": x["family"], "compute_basis": x["out"]["basis"],
                            "verified_basis": v["spec_basis"], "verdict": "sound, independent, complete"}, limit=4)
            continue
        n_viol += 1
        if len(reported) < 5:
            m = minimise_rational(x)
            key = tuple(m["bases"])
            if key not in reported:
                reported.add(key)
                chk.violation(describe(m), replay_blob(m))
    chk.obligation("oracle:rational-lists-judged-by-lean-spec", lean_ok and n_pass > 0 and n_viol == 0,
                   {"cases": len(recs), "pass": n_pass, "violations": n_viol,
                    "by_family": fam_stats})
    chk.obligation("correspondence:code-vs-latticeAsCoded", lean_ok and n_model_diff == 0,
                   {"exactly_equal": n_exact, "differences": model_diffs[:5], "n_differences": n_model_diff,
                    "rule": "compute_basis() returns exactly the rows of the Lean model of the code (same order, same signs)"})
    # the inputs of the repaired defects F4 / F4b must stay right
    by_bases = {}
    for x in recs:
        by_bases.setdefault(tuple(x["bases"]), x)
    for bs, expect in REGRESSION.items():
        x = by_bases.get(bs)
        got = x["out"].get("basis") if x else None
        good = bool(x and x["out"].get("status") == "ok" and passes(x["verdict"]) and (expect is None or got == expect))
        chk.obligation("regression:" + ",".join(bs), lean_ok and good, {"bases": list(bs), "code": got, "expected": expect})
    # ---------------- quadratic tier (test)
    qcases = [{"D": D, "bases": [list(b) for b in bs]} for D, bs in CORPUS_QUAD]
    qseen = {(c["D"], tuple(map(tuple, c["bases"]))) for c in qcases}
    tries = 0
    while len(qcases) < n_quad + len(CORPUS_QUAD) and tries < 50 * n_quad:
        tries += 1
        D, bs = gen_quad(r)
        key = (D, tuple(bs))
        if key in qseen:
            continue
        qseen.add(key)
        qcases.append({"D": D, "bases": [list(b) for b in bs]})
    qrecs = analyse_quad(qcases, 120 if quick else 400) if lean_ok else []
    q_pass = q_fail = 0
    for x in qrecs:
        chk.evaluations += 1
        st = x["out"].get("status")
        if st != "ok":
            chk.count("quad:" + str(st) + (":" + str(x["out"].get("etype")) if st == "error" else ""))
            continue
        v = x["verdict"]
        if not v.get("ok"):
            chk.count("harness-error")
            chk.obligation("harness:polar-model", False, {"case": x["bases"], "verdict": v})
            continue
        chk.count("quad:branch:" + str(x["out"].get("branch")))
        ok = v["shape_ok"] and all(v["sound"]) and v["independent"] and v["complete_in_box"]
        if ok:
            q_pass += 1
            if v["box_nonzero"] > 0:
                chk.nontrivial.add(("quad", x["D"], tuple(map(tuple, x["bases"]))))
                chk.sample({"field": f"Q(sqrt({x['D']}))", "bases": x["exprs"], "compute_basis": x["out"]["basis"],
                            "box": x["bound"], "relations_in_box": v["box_relations"]},
                           limit=3 + sum(1 for q in chk.samples if "field" not in q))
        else:
            q_fail += 1
            if q_fail > 6:
                continue
            cl = [c for c, bad in (("shape", not v["shape_ok"]), ("soundness", not all(v["sound"])),
                                   ("independence", not v["independent"]), ("completeness", not v["complete_in_box"])) if bad]
            chk.violation(f"bases {x['exprs']} in Q(sqrt({x['D']})): compute_basis() = {x['out']['basis']} fails "
                          f"{'+'.join(cl)}" + (f"; relation not generated: {v.get('witness')}" if v.get("witness") else ""),
                          replay_blob(x))
    chk.obligation("test:quadratic-field-lists", lean_ok and q_fail == 0 and q_pass > 0,
                   {"cases": len(qrecs), "pass": q_pass, "fail": q_fail,
                    "note": "soundness exact (pair arithmetic); completeness only inside the box |e_i| <= bound"})
    # ---------------- constructed-relation tier: exact lattice known by construction, exponents up to +-300
    n_con = 60 if quick else 1500
    ccases = list(CORPUS_CONSTRUCTED)
    cseen = {json.dumps(c) for c in ccases}
    tries = 0
    while len(ccases) < n_con + len(CORPUS_CONSTRUCTED) and tries < 50 * n_con:
        tries += 1
        c = gen_constructed(r)
        if json.dumps(c) in cseen:
            continue
        cseen.add(json.dumps(c))
        ccases.append(c)
    crecs = analyse_constructed(ccases, 120 if quick else 400) if lean_ok else []
    c_pass = c_fail = c_long = 0
    for x in crecs:
        chk.evaluations += 1
        st = x["out"].get("status")
        if st != "ok":
            chk.count("constructed:" + str(st) + (":" + str(x["out"].get("etype")) if st == "error" else ""))
            continue
        v = x["verdict"]
        if not v.get("ok"):
            chk.count("harness-error")
            chk.obligation("harness:polar-model", False, {"case": x["exprs"], "verdict": v})
            continue
        chk.count("constructed:branch:" + str(x["out"].get("branch")))
        longest = max([abs(e) for row in v.get("spec_basis", []) for e in row] or [0])
        if passes(v):
            c_pass += 1
            if v.get("spec_basis"):
                chk.nontrivial.add(("constructed", x["g"], x["h"], tuple(x["a"]), tuple(x["b"] or ()), tuple(x["signs"])))
            if longest >= 40:
                c_long += 1
                chk.sample({"constructed": [x["g"], x["h"]], "exponents": [x["a"], x["b"]], "signs": x["signs"],
                            "bases": x["exprs"], "compute_basis": x["out"]["basis"], "kernel_basis": v["spec_basis"]},
                           limit=2 + sum(1 for q in chk.samples if "constructed" not in q))
        else:
            c_fail += 1
            if c_fail <= 6:
                chk.violation(f"bases {x['exprs']} (= sign*{x['g']}^a" + (f"*{x['h']}^b" if x["h"] else "") +
                              f", a={x['a']}" + (f", b={x['b']}" if x["h"] else "") + f", signs={x['signs']}): "
                              f"compute_basis() = {x['out']['basis']} fails {'+'.join(failing_clauses(v))}; the exponent lattice "
                              f"is the integer kernel of the exponent rows, basis {v.get('spec_basis')}"
                              + (f"; relation not generated: {v.get('witness')}" if v.get("witness") else ""), replay_blob(x))
    chk.obligation("oracle:constructed-relation-lists", lean_ok and c_fail == 0 and c_pass > 0,
                   {"cases": len(crecs), "pass": c_pass, "fail": c_fail, "pass_with_generator_entry_ge_40": c_long,
                    "note": "bases sign*g^a*h^b with multiplicatively independent generators: soundness AND completeness exactly "
                            "(verified lattice_check on the rational shadow 2^a*3^b), no enumeration bound"})
    # ---------------- mixed-field tier (test, sympy exact arithmetic)
    ecases = CORPUS_EXPR
    erecs = analyse_expr(ecases, 150 if quick else 600) if lean_ok else []
    e_pass = e_fail = 0
    for x in erecs:
        chk.evaluations += 1
        st = x["out"].get("status")
        if st != "ok":
            chk.count("expr:" + str(st) + (":" + str(x["out"].get("etype")) if st == "error" else ""))
            continue
        v = x["verdict"]
        if not v.get("ok"):
            chk.count("harness-error")
            chk.obligation("harness:polar-model", False, {"case": x["exprs"], "verdict": v})
            continue
        ok = v["shape_ok"] and all(x["out"]["sound"]) and v["independent"] and all(v["in_span"])
        if ok:
            e_pass += 1
            if any(any(e) for e in x["out"]["box_relations"]):
                chk.nontrivial.add(("expr", tuple(x["exprs"])))
                chk.sample({"bases": x["exprs"], "compute_basis": x["out"]["basis"], "box": x["bound"],
                            "relations_in_box": len(x["out"]["box_relations"]), "oracle": "sympy minimal_polynomial"},
                           limit=2 + sum(1 for q in chk.samples if "oracle" not in q))
        else:
            e_fail += 1
            if e_fail > 6:
                continue
            miss = [e for e, b in zip(x["out"]["box_relations"], v["in_span"]) if not b]
            chk.violation(f"bases {x['exprs']}: compute_basis() = {x['out']['basis']}: sound={x['out']['sound']} "
                          f"independent={v['independent']} relations not generated: {miss[:3]}", replay_blob(x))
    chk.obligation("test:mixed-field-lists", lean_ok and e_fail == 0 and (e_pass > 0 or not erecs),
                   {"cases": len(erecs), "pass": e_pass, "fail": e_fail,
                    "note": "soundness and box enumeration by sympy minimal_polynomial (trusted); span membership by Lean"})
    chk.assumptions = [
        "rational tier: bases are non-zero rationals with numerators/denominators below 4e6 and k <= 6",
        "algebraic tier: LLL on floating logarithms and Faccin's bound are not modelled; completeness is tested only for "
        "exponent vectors inside the stated box",
    ]
    return chk.finish(
        level="proof",
        rule="rational lists: corpus (suite inputs, counterexample theorems, edge cases) + seeded generator (8 families: "
             "powers, shared, mult01, units, repeat, coprime, big, signs); non-trivial iff the exponent lattice has rank >= 1 "
             "and the code's answer passes all three verdicts; distinct by input list.  Algebraic lists: non-trivial iff a "
             "non-zero relation exists in the box",
        trusted_base=TRUSTED,
        explanation="Proof part: theorems c16_rational (verified basis), c16_check_iff (the three verdicts of lattice_check hold "
                    "iff the returned rows are a Z-basis of the exponent lattice), relation_iff_valuations, intKernel_isBasis, "
                    "c16_code_correct (the algorithm as coded - shortcut, multiplicity/parity system, _integer_kernel - returns a "
                    "Z-basis for every list of non-zero rationals; model latticeAsCoded tied to the code row for row). "
                    "The tie to the code is sampled: every sampled rational list is judged by those verified procedures. "
                    "Irrational/complex lists are a test (sound exactly, complete within a box).",
        extra={"rational_by_family": fam_stats})


def analyse_quad(cases, timeout):
    outs = _run_batched("harness.tasks.c16:quad_batch", cases, 3, timeout)
    reqs = []
    for c, o in zip(cases, outs):
        reqs.append({"op": "lattice_check_quad", "D": c["D"], "bases": c["bases"],
                     "rows": o["basis"] if o.get("status") == "ok" else [], "bound": quad_bound(len(c["bases"]))})
    ans = model_batch_parallel(reqs)
    return [{"kind": "quad", "D": c["D"], "bases": c["bases"], "exprs": o.get("exprs"), "bound": quad_bound(len(c["bases"])),
             "out": o, "verdict": a} for c, o, a in zip(cases, outs, ans)]


def analyse_expr(cases, timeout):
    tasks = [{"fn": "harness.tasks.c16:expr_case", "args": {"exprs": e, "bound": b}} for e, b in cases]
    outs = run_tasks(tasks, timeout=timeout) if tasks else []
    recs = []
    reqs = []
    for (e, b), o in zip(cases, outs):
        out = o["result"] if o["status"] == "ok" else {"status": o["status"], "etype": o.get("etype"), "message": o.get("message")}
        recs.append({"kind": "expr", "exprs": e, "bases": e, "bound": b, "out": out})
        reqs.append({"op": "span_check", "k": len(e), "rows": out.get("basis", []) if out.get("status") == "ok" else [],
                     "vectors": out.get("box_relations", [])})
    ans = model_batch_parallel(reqs)
    for x, a in zip(recs, ans):
        x["verdict"] = a
    return recs


def replay(path):
    with open(os.path.join(ROOT, path) if not os.path.isabs(path) else path) as fh:
        blob = json.load(fh)
    kind = blob.get("kind", "rational")
    if kind == "rational":
        x = analyse_rational([{"bases": blob["bases"], "how": blob.get("how") or "sympify"}])[0]
        print("bases:", x["bases"], " compute_basis():", x["out"].get("basis", x["out"]))
        v = x["verdict"]
        print("verdict:", {k: v.get(k) for k in ("shape_ok", "sound", "independent", "complete", "witness", "spec_basis")})
        bad = x["out"].get("status") == "ok" and v.get("ok") and not passes(v)
    elif kind == "constructed":
        g, h, a, b, sg = blob["constructed"]
        x = analyse_constructed([(g, h, a, b, sg)], 900)[0]
        print("bases:", x["exprs"], " compute_basis():", x["out"].get("basis", x["out"]))
        v = x["verdict"]
        print("verdict:", {k: v.get(k) for k in ("shape_ok", "sound", "independent", "complete", "witness", "spec_basis")})
        bad = x["out"].get("status") == "ok" and v.get("ok") and not passes(v)
    elif kind == "quad":
        x = analyse_quad([{"D": blob["D"], "bases": blob["bases"]}], 600)[0]
        print("bases:", x["exprs"], " compute_basis():", x["out"].get("basis", x["out"]))
        v = x["verdict"]
        print("verdict:", v)
        bad = x["out"].get("status") == "ok" and v.get("ok") and not (
            v["shape_ok"] and all(v["sound"]) and v["independent"] and v["complete_in_box"])
    else:
        x = analyse_expr([(blob["exprs"], blob.get("bound") or 4)], 900)[0]
        print("bases:", x["exprs"], " outcome:", x["out"])
        v = x["verdict"]
        print("verdict:", v)
        bad = x["out"].get("status") == "ok" and v.get("ok") and not (
            v["shape_ok"] and all(x["out"]["sound"]) and v["independent"] and all(v["in_span"]))
    if bad:
        print(f"VIOLATION property={PROP} replay={path}")
        return 1
    print("not reproduced")
    return 0
