"""C03 — moment recurrences are exact one-step expectation identities and closed.

For every monomial M of every system the real RecBuilder produces:  E(M)(n+1) = Σ c_i E(M_i)(n) + c
for n = 0..N-1 and init(M) = E(M)(0), with all expectations taken under the Lean reference semantics
of the *normalised program the builder itself works on* (isolates this stage from C02/C05);
closure: every monomial on a right-hand side has its own equation; the recurrence matrix / initial
vector handed to the solvers carry exactly the coefficients of the recurrence dictionary."""
import json
import os
from fractions import Fraction as Fr

from .. import pipeline, hast as H
from ..common import Check, lean_gate, ROOT, model_batch_parallel
from ..oracle import case_text, lean_sigma0, polar_subs
from ..pool import run_tasks
from ..findings import attribute
from ..theorems import THEOREMS as _T
from .c02 import _walk_vars

PROP = "C03"
THEOREMS = _T.get(PROP, [])
ARB = "97/13"


def run(tier):
    chk = Check(PROP, tier)
    lean_ok = lean_gate(chk, THEOREMS)
    quick = tier == "quick"
    n_gen = 180 if quick else 1500
    nmax = 4 if quick else 5
    cases = pipeline.load_corpus(PROP) + pipeline.generate_cases(n_gen, f"{PROP}-{tier}")
    tasks = []
    for c in cases:
        c["text_used"] = c.get("text") or case_text(c)
        tasks.append({"fn": "harness.tasks.normalize:recurrences",
                      "args": {"text": c["text_used"], "goals": [[[x, k] for x, k in g] for g in c["goals"]],
                               "subs": polar_subs(c)}})
    outs = run_tasks(tasks, timeout=60 if quick else 200, progress=50) if lean_ok else []
    reqs, meta = [], []
    vreqs, vmeta, seen_prog = [], [], set()
    for c, out in zip(cases, outs):
        chk.evaluations += 1
        if out["status"] == "timeout":
            chk.count("timeout")
            continue
        if out["status"] != "ok":
            chk.count("harness-error")
            chk.obligation("harness:task", False, out)
            continue
        res = out["result"]
        if not res["accepted"]:
            chk.count("refused:" + res["error"]["etype"])
            continue
        if res.get("abstracted"):
            chk.count("skipped:bernoulli-abstraction")
            continue
        if res["program"] is None:
            chk.count("unconvertible-program")
            continue
        s0 = dict(lean_sigma0(c))
        names = set()
        _walk_vars(res["program"], names)
        for v in names:
            if v not in s0:
                s0[v] = ARB
        for sysm in res["systems"]:
            if not sysm.get("ok"):
                chk.count("refused-recurrences:" + sysm["error"]["etype"])
                continue
            if not sysm["numeric"]:
                chk.count("non-numeric-coefficients")
                continue
            rows = sysm["rows"]
            keys = [json.dumps(r["mono"]) for r in rows]
            # closure
            missing = [t[0] for r in rows for t in r["terms"] if t[0] and json.dumps(t[0]) not in keys]
            chk.count("systems")
            chk.count("equations", len(rows))
            if missing:
                chk.violation(f"recurrence system of {sysm['goal']} is not closed: {missing[:3]} has no equation",
                              {"case": pipeline.case_to_json(c), "text": c["text_used"], "goal": sysm["goal"],
                               "missing": missing[:5]})
                continue
            # matrix form == dictionary form
            mm = [json.dumps(m) for m in sysm["matrix_monomials"]]
            ok_matrix = True
            for ri, r in enumerate(rows):
                want = {}
                for mj, cv, _ in r["terms"]:
                    want[json.dumps(mj)] = want.get(json.dumps(mj), Fr(0)) + Fr(cv)
                got = {mm[j]: Fr(x) for j, x in enumerate(sysm["matrix"][ri]) if x is not None and Fr(x) != 0}
                want = {k: v for k, v in want.items() if v != 0}
                if got != want or sysm["init_vector"][ri] != r["init"]:
                    ok_matrix = False
                    chk.violation(f"recurrence matrix row of {r['mono']} differs from its recurrence",
                                  {"case": pipeline.case_to_json(c), "text": c["text_used"], "goal": sysm["goal"],
                                   "row": r, "matrix_row": sysm["matrix"][ri], "matrix_monomials": sysm["matrix_monomials"]})
                    break
            if not ok_matrix:
                continue
            monos = [r["mono"] for r in rows]
            reqs.append({"op": "moments", "program": res["program"], "sigma0": s0, "monos": monos,
                         "nmax": nmax, "budget": 3000})
            meta.append((c, sysm, res))
            # V2: every equation as a one-step identity on ALL states of the inferred types
            # (theorems Polar.VP.checkOneStep_sound / recurrence_holds_forall_n)
            vtypes, okt = {}, True
            for v, vals in res["typedefs"].items():
                try:
                    vtypes[v] = [H.fr_str(Fr(x)) for x in vals]
                except Exception:
                    okt = False
            if okt:
                prog = json.loads(json.dumps(res["program"]))
                base = lean_sigma0(c)
                for pz in [z for z in res.get("symbols", []) if z in base]:
                    prog["init"].insert(0, ["assign", pz, ["expr", ["num", base[pz]]], ["tt"], pz])
                    vtypes[pz] = [base[pz]]
                if id(res) not in seen_prog:
                    seen_prog.add(id(res))
                    vreqs.append({"op": "types_inductive", "program": prog, "types": vtypes, "cap": 4096})
                    vmeta.append((c, sysm, None))
                for r in rows:
                    vreqs.append({"op": "onestep_check", "program": prog, "types": vtypes, "mono": r["mono"],
                                  "terms": [[t[0], t[1]] for t in r["terms"]], "cap": 4096})
                    vmeta.append((c, sysm, r))
    answers = model_batch_parallel(reqs) if reqs else []
    ok_sys = 0
    for (c, sysm, res), ans in zip(meta, answers):
        if not ans.get("ok"):
            chk.count("oracle-refused:" + str(ans.get("error"))[:30])
            continue
        rows = sysm["rows"]
        vals = {json.dumps(r["mono"]): [Fr(x) for x in v] for r, v in zip(rows, ans["values"])}
        bad = None
        for r in rows:
            seq = vals[json.dumps(r["mono"])]
            if seq and (r["init"] is None or Fr(r["init"]) != seq[0]):
                # a recorded initial value that is not a number at the parameter point still contains a program variable
                bad = (r, "initial-value", 0, r["init"] if r["init"] is not None else r.get("init_expr"), H.fr_str(seq[0]))
                break
            for n in range(len(seq) - 1):
                rhs = Fr(0)
                for mj, cv, _ in r["terms"]:
                    rhs += Fr(cv) * (vals[json.dumps(mj)][n] if mj else 1)
                if rhs != seq[n + 1]:
                    bad = (r, "one-step", n, H.fr_str(rhs), H.fr_str(seq[n + 1]))
                    break
            if bad:
                break
        if bad:
            r, kind, n, got, want = bad
            rec = {"case": c, "row": r, "kind": kind, "n": n, "goal": sysm["goal"]}
            fid = attribute(PROP, rec)
            if fid:
                chk.known(fid[0], fid[1])
            else:
                chk.violation(f"{kind} identity fails for E({r['mono']}) at n={n}: recurrence gives {got}, exact {want}",
                              {"case": pipeline.case_to_json(c), "text": c["text_used"], "goal": sysm["goal"], "row": r,
                               "kind": kind, "n": n, "recurrence_value": got, "exact": want,
                               "how": "RecBuilder(normalize_program(parse(text))).get_recurrences(goal); expectations of the "
                                      "normalised program under the Lean semantics (op moments)"})
        else:
            ok_sys += 1
            if len(rows) > 1:
                chk.nontrivial.add(c["text_used"] + json.dumps(sysm["goal"]))
            chk.sample({"text": c["text_used"], "goal": sysm["goal"],
                        "equations": [{"mono": r["mono"], "terms": [[t[0], t[1]] for t in r["terms"]], "init": r["init"]}
                                      for r in rows[:4]]}, limit=3)
    vans = model_batch_parallel(vreqs, timeout=60) if vreqs else []
    n_rows_all_n = 0
    for (c, sysm, r), a in zip(vmeta, vans):
        if not a.get("ok"):
            chk.count("V:error:" + str(a.get("error"))[:30])
            continue
        if r is None:
            chk.count("V1:" + ("inductive" if a.get("inductive") else ("refused" if a.get("inductive") is None else "NOT-inductive")))
            continue
        if a.get("holds") is None:
            chk.count("V2:refused:" + str(a.get("refused"))[:40])
            continue
        if a["holds"]:
            n_rows_all_n += 1
            chk.count(str(a.get("validator", "V2")) + ":equation-holds-on-all-typed-states")
            continue
        ce = a.get("counterexample")
        rec = {"case": c, "row": r, "kind": "one-step-on-typed-state", "counterexample": ce, "goal": sysm["goal"]}
        fid = attribute(PROP, rec)
        if fid:
            chk.known(fid[0], fid[1])
        else:
            chk.violation(f"the recurrence of E({r['mono']}) is not a one-step identity on the typed state {ce.get('assign') if ce else None}",
                          {"case": pipeline.case_to_json(c), "text": c["text_used"], "goal": sysm["goal"], "row": r,
                           "counterexample": ce,
                           "how": "polar-model op onestep_check on the normalised program, program.typedefs and the equation; lhs = exact "
                                  "one-iteration expectation as a polynomial in the untyped variables, rhs = the recurrence"})
    chk.obligation("validator:V2-equations-hold-on-all-typed-states", lean_ok and (n_rows_all_n > 0 or not vreqs),
                   {"equations_valid_for_all_typed_states": n_rows_all_n})
    chk.obligation("correspondence:one-step-identities-and-closure", lean_ok and ok_sys > 0 and
                   chk.counts.get("harness-error", 0) == 0, {"systems_ok": ok_sys})
    chk.assumptions = [f"identities checked along the exact run for n = 0..{nmax - 1} at one rational parameter point"]
    return chk.finish(level="proof",
                      rule="seeded generator; one system per (program, goal); non-trivial iff the system has more than one equation",
                      trusted_base=["Lean kernel/compiler (Polar/Sem.lean)", "harness AST conversion", "sympy Rational arithmetic for coefficient values"])


def replay(path):
    with open(os.path.join(ROOT, path) if not os.path.isabs(path) else path) as fh:
        blob = json.load(fh)
    print(json.dumps({k: blob.get(k) for k in ("goal", "row", "kind", "n", "recurrence_value", "exact")}, indent=1))
    print(blob.get("text"))
    return 1
