"""Attribution of C12 failures to known finding F7 (TruncNormal.sample passes raw truncation bounds).

`truncnormal_raw_bounds(prop, record)` recognises exactly this defect from a failing sampler record:
  * family TruncNormal, the captured call is `truncnorm.rvs(a, b, loc=mu, scale=sqrt(sigma2))` with the RAW a, b
    of the program text, loc/scale correct, nothing else passed;
  * the documented call for the same parameters is `truncnorm((a-mu)/sigma, (b-mu)/sigma, loc=mu, scale=sigma)`
    and differs (so mu != 0 or sigma != 1);
  * for a support failure: every offending sample lies inside the mis-parameterised support
    [mu + a*sigma, mu + b*sigma];
  * re-running the probe with `TruncNormal.sample` repaired in memory (bounds standardised, nothing else
    changed) makes both the call comparison and the support test pass.
`tail_boundary(prop, record)` recognises finding F45 (simulated tail probability P(X >= c) loses the boundary
X = c): a TAIL_BOUND_UPPER goal whose expression equals the bound exactly on the run, printed 0.0 where the
indicator is 1.0, every other goal of the same run right, and the same run with
`SimulationResult._goal_to_float` deciding the relational numerically (in-memory repair) prints the expected value.

Any other sampler failure (another family, wrong loc/scale, extra arguments, samples outside even the
mis-parameterised support, a failure that survives the repair) is not excused.
"""
import math
from fractions import Fraction as Fr

from .pool import run_tasks


def _sqrt_exact(q):
    q = Fr(q)
    if q < 0:
        return None
    n, d = math.isqrt(q.numerator), math.isqrt(q.denominator)
    if n * n == q.numerator and d * d == q.denominator:
        return Fr(n, d)
    return None


def truncnormal_raw_bounds(prop, record):
    if prop != "C12" or record.get("kind") != "sampler" or record.get("family") != "TruncNormal":
        return None
    try:
        mu, s2, a, b = [Fr(x) for x in record["numeric_params"]]
    except Exception:
        return None
    sigma = _sqrt_exact(s2)
    if sigma is None or sigma == 0:
        return None
    std = [(a - mu) / sigma, (b - mu) / sigma]
    if std == [a, b]:
        return None                      # the raw bounds are the right ones here: nothing to excuse
    det = record.get("detail") or {}
    check = record.get("check")
    if check == "spec":
        cap = det.get("captured")
        spec = det.get("spec")
        if not cap or not spec or det.get("extra_kwargs"):
            return None
        if cap[0] != "truncnorm" or [Fr(x) for x in cap[1]] != [a, b] or Fr(cap[2]) != mu or Fr(cap[3]) != sigma \
                or Fr(cap[4]) != 1:
            return None
        if spec[0] != "truncnorm" or [Fr(x) for x in spec[1]] != std or Fr(spec[2]) != mu or Fr(spec[3]) != sigma:
            return None
    elif check == "support":
        lo, hi = float(mu + a * sigma), float(mu + b * sigma)
        outs = det.get("first_outside") or []
        if not outs or any(not (lo - 1e-9 <= x <= hi + 1e-9) for x in outs):
            return None
    else:
        return None
    # in-memory repair: the same probe with the bounds standardised must be clean
    res = run_tasks([{"fn": "harness.tasks.c12:sampler_probe",
                      "args": {"family": "TruncNormal", "params": record["params"], "state": record.get("state"),
                               "nsamples": 2000, "repair": True}}], timeout=120, nworkers=1)[0]
    if res.get("status") != "ok":
        return None
    r = res["result"]
    calls = r["calls"][0]
    # (the repaired bounds are doubles: compare with the nearest double of the exact quotient)
    if len(calls) != 1 or calls[0]["fn"] != "truncnorm" or \
            [float(Fr(x)) for x in calls[0]["shape"]] != [float(x) for x in std] \
            or Fr(calls[0]["loc"]) != mu or Fr(calls[0]["scale"]) != sigma or r["n_outside"] != 0:
        return None
    ps = ", ".join(record["params"])
    if check == "spec":
        return (f"TruncNormal({ps}).sample calls truncnorm.rvs({a}, {b}, loc={mu}, scale={sigma}); scipy needs the "
                f"standardised bounds ({std[0]}, {std[1]}); repaired sampler agrees")
    return (f"TruncNormal({ps}).sample leaves the declared support [{a}, {b}] (samples in [{mu + a * sigma}, "
            f"{mu + b * sigma}]); repaired sampler stays inside")


def tail_boundary(prop, record):
    if prop != "C12" or record.get("kind") != "cli-goal":
        return None
    if record.get("goal_kind") != "tail-upper" or not record.get("boundary"):
        return None
    try:
        if float(record["printed"]) != 0.0 or float(record["expected"]) != 1.0:
            return None
    except (ValueError, TypeError):
        return None
    res = run_tasks([{"fn": "harness.tasks.c12:cli_simulation",
                      "args": {"text": record["text"], "goal_texts": record["all_goals"], "n": record["n"],
                               "samples": record["samples"], "repair": True}}], timeout=300, nworkers=1)[0]
    if res.get("status") != "ok":
        return None
    lines = res["result"]["lines"]
    if len(lines) != len(record["all_expected"]):
        return None
    try:
        if any(float(v) != e for (_, v), e in zip(lines, record["all_expected"])):
            return None
    except ValueError:
        return None
    return ("simulated tail probability loses the boundary: symengine decides `c <= x` with an Integer/Rational c and a "
            "RealDouble state as false when x == c (goal of the form P(X >= c) <= ?, X == c on the run, printed 0.0, "
            "indicator 1.0); numeric comparison repairs it")
