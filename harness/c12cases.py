"""Input side of C12: discrete loop programs whose constants are exactly representable as IEEE doubles.

* seeded programs of the shared generator (families finite/choice/branchy/guarded/simult/poly), kept
  only when they contain no continuous draw, with every rational constant replaced by a dyadic one
  (denominator a power of two) so that the simulator's float arithmetic is exact;
* hand-shaped templates with seeded constants for the semantics the property names: stuttering after
  the guard turns false (n well beyond termination), first-match if/elif/else with overlapping
  conditions, simultaneous assignment reading old values, Categorical / DiscreteUniform draws,
  guarded assignments with a default variable (installed on the parsed program by the worker).
"""
from fractions import Fraction as Fr

from . import gen, hast as H

DISCRETE_FAMILIES = ["finite", "choice", "branchy", "guarded", "simult", "poly"]
CONTINUOUS = {"Normal", "Uniform", "Laplace", "Exponential", "DistExp", "Gamma", "Beta", "TruncNormal"}


# ---------------------------------------------------------------------------------------------
# dyadic constants
# ---------------------------------------------------------------------------------------------

def is_dyadic(f):
    d = Fr(f).denominator
    return d & (d - 1) == 0


def dy(f):
    """nearest multiple of 1/8 (never 0 for a non-zero constant); dyadic constants are kept"""
    f = Fr(f)
    if is_dyadic(f):
        return f
    k = round(f * 8)
    if k == 0:
        k = 1 if f > 0 else -1
    return Fr(k, 8)


def map_expr(e):
    t = e[0]
    if t == "num":
        return ("num", dy(e[1]))
    if t == "var":
        return e
    if t in ("add", "sub", "mul", "div"):
        return (t, map_expr(e[1]), map_expr(e[2]))
    if t == "neg":
        return ("neg", map_expr(e[1]))
    if t == "pow":
        return ("pow", map_expr(e[1]), e[2])
    raise ValueError(e)


def closed_value(e):
    """value of an expression without variables, else None"""
    t = e[0]
    if t == "num":
        return Fr(e[1])
    if t == "var":
        return None
    if t in ("add", "sub", "mul", "div"):
        a, b = closed_value(e[1]), closed_value(e[2])
        if a is None or b is None:
            return None
        if t == "add":
            return a + b
        if t == "sub":
            return a - b
        if t == "mul":
            return a * b
        return None if b == 0 else a / b
    if t == "neg":
        a = closed_value(e[1])
        return None if a is None else -a
    if t == "pow":
        a = closed_value(e[1])
        return None if a is None else a ** int(e[2])
    return None


def map_cond(c):
    t = c[0]
    if t in ("tt", "ff"):
        return c
    if t == "cmp":
        return ("cmp", c[1], map_expr(c[2]), map_expr(c[3]))
    if t == "not":
        return ("not", map_cond(c[1]))
    return (t, map_cond(c[1]), map_cond(c[2]))


def map_rhs(r):
    t = r[0]
    if t == "expr":
        return ("expr", map_expr(r[1]))
    if t == "dist":
        return ("dist", r[1], [map_expr(p) for p in r[2]])
    if t == "choice":
        alts = [(map_expr(e), map_expr(p)) for e, p in r[1]]
        ps = [closed_value(p) for _, p in alts]
        if all(p is not None for p in ps) and (sum(ps) != 1 or any(p < 0 for p in ps)):
            head = [dy(p) for p in ps[:-1]]
            last = 1 - sum(head)
            if last < 0 or any(p < 0 for p in head):
                k = len(ps)
                head = {2: [Fr(1, 2)], 3: [Fr(1, 4), Fr(1, 4)], 4: [Fr(1, 4)] * 3}.get(k, [Fr(1, 8)] * (k - 1))
                last = 1 - sum(head)
            alts = [(e, ("num", q)) for (e, _), q in zip(alts, head + [last])]
        return ("choice", alts)
    raise ValueError(r)


def map_stmts(ss):
    out = []
    for s in ss:
        if s[0] == "assign":
            out.append(("assign", s[1], map_rhs(s[2]), map_cond(s[3]), s[4]))
        elif s[0] == "simult":
            out.append(("simult", list(s[1]), [map_rhs(r) for r in s[2]]))
        else:
            out.append(("ite", map_cond(s[1]), map_stmts(s[2]), map_stmts(s[3])))
    return out


def dyadicize(prog):
    out = {"init": map_stmts(prog["init"]), "guard": map_cond(prog["guard"]), "body": map_stmts(prog["body"])}
    if prog.get("types"):
        out["types"] = prog["types"]
    return out


def all_constants(prog):
    acc = []

    def ex(e):
        if e[0] == "num":
            acc.append(Fr(e[1]))
        elif e[0] in ("add", "sub", "mul", "div"):
            ex(e[1]); ex(e[2])
        elif e[0] in ("neg", "pow"):
            ex(e[1])

    def cd(c):
        if c[0] == "cmp":
            ex(c[2]); ex(c[3])
        elif c[0] == "not":
            cd(c[1])
        elif c[0] in ("and", "or"):
            cd(c[1]); cd(c[2])

    def rh(r):
        if r[0] == "expr":
            ex(r[1])
        elif r[0] == "choice":
            for e, p in r[1]:
                ex(e); ex(p)
        elif r[0] == "dist":
            for p in r[2]:
                ex(p)

    def st(ss):
        for s in ss:
            if s[0] == "assign":
                rh(s[2]); cd(s[3])
            elif s[0] == "simult":
                for r in s[2]:
                    rh(r)
            else:
                cd(s[1]); st(s[2]); st(s[3])
    st(prog["init"]); cd(prog["guard"]); st(prog["body"])
    return acc


def has_continuous(stmts):
    for s in stmts:
        if s[0] == "assign":
            if s[2][0] == "dist" and s[2][1] in CONTINUOUS:
                return True
        elif s[0] == "simult":
            if any(r[0] == "dist" and r[1] in CONTINUOUS for r in s[2]):
                return True
        elif s[0] == "ite":
            if has_continuous(s[2]) or has_continuous(s[3]):
                return True
    return False


def features_of(prog):
    f = set()

    def rh(r):
        if r[0] == "choice":
            f.add("choice")
        if r[0] == "dist":
            f.add(r[1])

    def st(ss, depth):
        for s in ss:
            if s[0] == "assign":
                rh(s[2])
                if s[3] != H.TT:
                    f.add("guarded-assign")
            elif s[0] == "simult":
                f.add("simult")
                for r in s[2]:
                    rh(r)
            else:
                f.add("if")
                if depth > 0:
                    f.add("nested-if")
                if len(s[3]) == 1 and s[3][0][0] == "ite":
                    f.add("elif")
                elif s[3]:
                    f.add("else")
                st(s[2], depth + 1); st(s[3], depth + 1)
    st(prog["init"], 0); st(prog["body"], 0)
    if prog["guard"] != H.TT:
        f.add("guard")
    return sorted(f)


# ---------------------------------------------------------------------------------------------
# generated cases
# ---------------------------------------------------------------------------------------------

def _finish(prog, family, cid, goals=None, nmax=None, patches=None, note=None):
    vars_ = sorted(H.stmts_assigned(prog["init"]) | H.stmts_assigned(prog["body"]))
    printable = {"init": _strip_guards(prog["init"]), "guard": prog["guard"], "body": _strip_guards(prog["body"])}
    if prog.get("types"):
        printable["types"] = prog["types"]
    text = H.program_str(printable)
    if goals is None:
        goals = [[(x, 1)] for x in vars_[:3]]
        if len(vars_) >= 2:
            goals.append(sorted([(vars_[0], 1), (vars_[1], 2)]))
    return {"id": cid, "family": family, "program": prog, "text": text, "vars": vars_, "goals": goals,
            "features": features_of(prog), "nmax": nmax, "patches": patches or [], "note": note}


def _strip_guards(ss):
    out = []
    for s in ss:
        if s[0] == "assign":
            out.append(("assign", s[1], s[2], H.TT, s[1]))
        elif s[0] == "ite":
            out.append(("ite", s[1], _strip_guards(s[2]), _strip_guards(s[3])))
        else:
            out.append(s)
    return out


def generated_cases(rnd, count, tag):
    out = []
    i = 0
    tries = 0
    while len(out) < count and tries < count * 30:
        tries += 1
        fam = DISCRETE_FAMILIES[i % len(DISCRETE_FAMILIES)]
        c = gen.generate(rnd, fam)
        p = c["program"]
        if has_continuous(p["init"]) or has_continuous(p["body"]):
            continue
        if c["params"]:
            continue
        # the simulator has no symbolic initial values: initialise what the generator left open
        init = list(p["init"])
        for x in c["uninit"]:
            init.insert(0, H.assign(x, H.ex(H.num(c["sigma0"][x]))))
        q = {"init": init, "guard": p["guard"], "body": p["body"]}
        if p.get("types"):
            q["types"] = p["types"]
        q = dyadicize(q)
        assert all(is_dyadic(k) for k in all_constants(q))
        case = _finish(q, fam, f"{tag}-{len(out)}",
                       goals=[[(x, int(k)) for x, k in g] for g in c["goals"]
                              if all(x in H.stmts_assigned(q["init"]) for x, _ in g)] or None)
        out.append(case)
        i += 1
    return out


# ---------------------------------------------------------------------------------------------
# templates
# ---------------------------------------------------------------------------------------------

V, N = H.var, H.num


def _choice(*pairs):
    return ("choice", [(e, N(p)) for e, p in pairs])


def cond_patch(c):
    """condition in a form the worker can rebuild with Polar's own classes (polynomials as text)"""
    t = c[0]
    if t in ("tt", "ff"):
        return [t]
    if t == "cmp":
        return ["cmp", c[1], H.expr_str(c[2]), H.expr_str(c[3])]
    if t == "not":
        return ["not", cond_patch(c[1])]
    return [t, cond_patch(c[1]), cond_patch(c[2])]


def special_cases(rnd, tag, reps=1):
    cs = []
    P = [Fr(1, 2), Fr(1, 4), Fr(3, 4), Fr(1, 8), Fr(5, 8)]
    for rep in range(reps):
        a, b = rnd.choice([1, 2, -1, Fr(1, 2)]), rnd.choice([3, 2, Fr(3, 2), -2])
        p, q = rnd.choice(P), rnd.choice(P)
        K = rnd.choice([1, 2, 3])
        # 1. counter guard: terminates surely after K iterations, run K+4 iterations
        prog = {"init": [H.assign("c", H.ex(N(0))), H.assign("x", H.ex(N(a)))],
                "guard": H.cmp_("<", V("c"), N(K)),
                "body": [H.assign("c", H.ex(H.add(V("c"), N(1)))),
                         H.assign("x", _choice((H.add(V("x"), N(b)), p), (H.mul(N(2), V("x")), 1 - p)))]}
        cs.append(_finish(prog, "frozen", f"{tag}-frozen-counter-{rep}", nmax=K + 4))
        # 2. geometric stop: the guard variable is redrawn inside, state must stutter afterwards
        prog = {"init": [H.assign("f", H.ex(N(0))), H.assign("x", H.ex(N(a))), H.assign("y", H.ex(N(0)))],
                "guard": H.cmp_("==", V("f"), N(0)),
                "body": [H.assign("f", ("dist", "Bernoulli", [N(p)])),
                         H.assign("x", H.ex(H.add(V("x"), N(1)))),
                         H.assign("y", H.ex(H.add(V("y"), V("f"))))]}
        cs.append(_finish(prog, "frozen", f"{tag}-frozen-geometric-{rep}", nmax=7))
        # 3. guard turned false and true again by the body cannot happen: guard on a variable that the
        #    body flips first and would flip back (the copy/stutter logic must look at the last state)
        prog = {"init": [H.assign("g", H.ex(N(1))), H.assign("x", H.ex(N(0)))],
                "guard": H.cmp_(">=", V("g"), N(1)),
                "body": [H.assign("g", _choice((N(0), q), (N(2), 1 - q))),
                         H.assign("x", H.ex(H.add(V("x"), V("g")))),
                         H.assign("g", H.ex(H.sub(V("g"), N(1))))]}
        cs.append(_finish(prog, "frozen", f"{tag}-frozen-flip-{rep}", nmax=5))
        # 4. overlapping if / elif / elif / else: exactly the first true branch runs
        prog = {"init": [H.assign("h", H.ex(N(0))), H.assign("x", H.ex(N(a))), H.assign("y", H.ex(N(b)))],
                "guard": H.TT,
                "body": [H.assign("h", ("dist", "DiscreteUniform", [N(0), N(3)])),
                         ("ite", H.cmp_(">=", V("h"), N(1)),
                          [H.assign("x", H.ex(H.add(V("x"), N(1)))), H.assign("h", H.ex(N(0)))],
                          [("ite", H.cmp_(">=", V("h"), N(0)),
                            [H.assign("y", H.ex(H.add(V("y"), N(1))))],
                            [("ite", H.cmp_("<=", V("h"), N(3)), [H.assign("x", H.ex(N(100)))],
                              [H.assign("y", H.ex(N(-100)))])])]),
                         ("ite", ("or", H.cmp_("==", V("h"), N(0)), H.cmp_(">", V("x"), N(a + 1))),
                          [H.assign("y", H.ex(H.mul(N(2), V("y"))))],
                          [("ite", ("and", H.cmp_("<", V("x"), N(50)), ("not", H.cmp_("==", V("h"), N(7)))),
                            [H.assign("y", H.ex(H.sub(V("y"), N(1))))], [])])]}
        cs.append(_finish(prog, "firstmatch", f"{tag}-firstmatch-{rep}", nmax=2))
        # 5. a branch changes the variable a later elif tests: still only one branch
        prog = {"init": [H.assign("f", H.ex(N(0))), H.assign("x", H.ex(N(0)))],
                "guard": H.TT,
                "body": [("ite", H.cmp_("==", V("f"), N(0)),
                          [H.assign("f", H.ex(N(1))), H.assign("x", H.ex(H.add(V("x"), N(1))))],
                          [("ite", H.cmp_("==", V("f"), N(1)),
                            [H.assign("f", _choice((N(0), p), (N(2), 1 - p))), H.assign("x", H.ex(H.add(V("x"), N(10))))],
                            [H.assign("f", H.ex(N(0))), H.assign("x", H.ex(H.add(V("x"), N(100))))])])]}
        cs.append(_finish(prog, "firstmatch", f"{tag}-firstmatch-chain-{rep}", nmax=4))
        # 6. simultaneous assignments read the old values (swap, rotate, self reference, draws)
        prog = {"init": [H.assign("x", H.ex(N(a))), H.assign("y", H.ex(N(b))), H.assign("z", H.ex(N(5)))],
                "guard": H.TT,
                "body": [("simult", ["x", "y"], [H.ex(V("y")), H.ex(V("x"))]),
                         ("simult", ["x", "y", "z"],
                          [H.ex(H.add(V("y"), V("z"))), _choice((V("x"), p), (V("z"), 1 - p)), H.ex(H.mul(V("x"), V("y")))]),
                         ("simult", ["z", "x"], [("dist", "Bernoulli", [N(q)]), H.ex(H.add(V("x"), V("z")))])]}
        cs.append(_finish(prog, "simultold", f"{tag}-simult-{rep}", nmax=2))
        # 7. simultaneous assignment to the same variable twice, and inside a branch
        prog = {"init": [H.assign("x", H.ex(N(1))), H.assign("y", H.ex(N(2))), H.assign("f", H.ex(N(0)))],
                "guard": H.TT,
                "body": [H.assign("f", ("dist", "Bernoulli", [N(p)])),
                         ("ite", H.cmp_("==", V("f"), N(1)),
                          [("simult", ["x", "y"], [H.ex(H.add(V("x"), V("y"))), H.ex(H.sub(V("x"), V("y")))])],
                          [("simult", ["y", "x"], [H.ex(H.mul(N(2), V("x"))), H.ex(V("y"))])])]}
        cs.append(_finish(prog, "simultold", f"{tag}-simult-branch-{rep}", nmax=3))
        # 8. Categorical and DiscreteUniform
        prog = {"init": [H.assign("k", H.ex(N(0))), H.assign("u", H.ex(N(0))), H.assign("x", H.ex(N(0)))],
                "guard": H.TT,
                "body": [H.assign("k", ("dist", "Categorical", [N(Fr(1, 4)), N(Fr(1, 8)), N(Fr(5, 8))])),
                         H.assign("u", ("dist", "DiscreteUniform", [N(-1), N(2)])),
                         H.assign("x", H.ex(H.add(V("x"), H.mul(V("k"), V("u")))))]}
        cs.append(_finish(prog, "draws", f"{tag}-draws-{rep}", nmax=2))
        # 9. guarded assignments with defaults (conditions installed on the parsed objects by the worker)
        g1 = H.cmp_("==", V("f"), N(1))
        g2 = ("and", H.cmp_(">", V("x"), N(a)), ("not", H.cmp_("==", V("f"), N(0))))
        g3 = ("or", H.cmp_("<=", V("y"), N(b)), H.cmp_("==", V("f"), N(1)))
        prog = {"init": [H.assign("f", H.ex(N(0))), H.assign("x", H.ex(N(a))), H.assign("y", H.ex(N(b)))],
                "guard": H.TT,
                "body": [H.assign("f", ("dist", "Bernoulli", [N(p)])),
                         ("assign", "x", H.ex(H.add(V("x"), N(1))), g1, "y"),
                         ("assign", "y", _choice((H.add(V("y"), V("x")), q), (V("y"), 1 - q)), g2, "x"),
                         ("assign", "x", ("dist", "Bernoulli", [N(q)]), g3, "x")]}
        patches = [{"where": "body", "index": 1, "cond": cond_patch(g1), "default": "y"},
                   {"where": "body", "index": 2, "cond": cond_patch(g2), "default": "x"},
                   {"where": "body", "index": 3, "cond": cond_patch(g3), "default": "x"}]
        cs.append(_finish(prog, "guardedassign", f"{tag}-guardedassign-{rep}", nmax=2, patches=patches))
    return cs


# ---------------------------------------------------------------------------------------------
# exact evaluation of expressions on a state (expected sampler arguments)
# ---------------------------------------------------------------------------------------------

def eval_expr(e, env):
    t = e[0]
    if t == "num":
        return Fr(e[1])
    if t == "var":
        return Fr(env[e[1]])
    if t == "add":
        return eval_expr(e[1], env) + eval_expr(e[2], env)
    if t == "sub":
        return eval_expr(e[1], env) - eval_expr(e[2], env)
    if t == "mul":
        return eval_expr(e[1], env) * eval_expr(e[2], env)
    if t == "div":
        return eval_expr(e[1], env) / eval_expr(e[2], env)
    if t == "neg":
        return -eval_expr(e[1], env)
    if t == "pow":
        return eval_expr(e[1], env) ** int(e[2])
    raise ValueError(e)


# ---------------------------------------------------------------------------------------------
# templates: random initial sections (independence of the runs), state-dependent probabilities
# ---------------------------------------------------------------------------------------------

def init_random_cases(rnd, tag):
    cs = []
    P = [Fr(1, 2), Fr(1, 4), Fr(3, 4), Fr(1, 8)]
    p, q = rnd.choice(P), rnd.choice(P)
    a = rnd.choice([1, 2, -1])
    # the seeded-change program: a choice in an otherwise plain initial section
    prog = {"init": [H.assign("x", _choice((N(1), p), (N(4), 1 - p))), H.assign("y", H.ex(N(0)))],
            "guard": H.TT, "body": [H.assign("y", H.ex(H.add(V("y"), V("x"))))]}
    cs.append(_finish(prog, "initrandom", f"{tag}-init-choice", nmax=2))
    # choice + plain + choice reading an earlier initial value
    prog = {"init": [H.assign("x", H.ex(N(a))), H.assign("y", _choice((H.add(V("x"), N(1)), p), (V("x"), 1 - p))),
                     H.assign("z", _choice((N(0), q), (H.mul(N(2), V("y")), 1 - q)))],
            "guard": H.TT, "body": [H.assign("x", H.ex(H.add(V("x"), V("z"))))]}
    cs.append(_finish(prog, "initrandom", f"{tag}-init-choice-chain", nmax=1))
    # Bernoulli / Categorical / DiscreteUniform draws next to plain assignments and a choice
    prog = {"init": [H.assign("f", ("dist", "Bernoulli", [N(p)])), H.assign("x", _choice((N(1), q), (N(2), 1 - q))),
                     H.assign("y", H.ex(N(3)))],
            "guard": H.cmp_("==", V("f"), N(1)),
            "body": [H.assign("y", H.ex(H.add(V("y"), V("x")))), H.assign("f", ("dist", "Bernoulli", [N(Fr(1, 2))]))]}
    cs.append(_finish(prog, "initrandom", f"{tag}-init-bernoulli-choice", nmax=1))
    prog = {"init": [H.assign("k", ("dist", "Categorical", [N(Fr(1, 4)), N(Fr(3, 4))])),
                     H.assign("u", ("dist", "DiscreteUniform", [N(0), N(1)])),
                     H.assign("x", _choice((H.add(V("k"), N(1)), p), (V("u"), 1 - p)))],
            "guard": H.TT, "body": [H.assign("x", H.ex(H.add(V("x"), V("k"))))]}
    cs.append(_finish(prog, "initrandom", f"{tag}-init-draws", nmax=1))
    # control: deterministic initial section, choice in the body
    prog = {"init": [H.assign("x", H.ex(N(a))), H.assign("y", H.ex(N(0)))], "guard": H.TT,
            "body": [H.assign("y", _choice((H.add(V("y"), V("x")), p), (V("y"), 1 - p)))]}
    cs.append(_finish(prog, "initrandom", f"{tag}-init-plain", nmax=2))
    # probabilities / parameters that change with the state
    prog = {"init": [H.assign("p", H.ex(N(Fr(1, 2)))), H.assign("x", H.ex(N(0))), H.assign("f", H.ex(N(0))),
                     H.assign("k", H.ex(N(0)))],
            "guard": H.TT,
            "body": [H.assign("x", ("choice", [(H.add(V("x"), N(1)), V("p")), (V("x"), H.sub(N(1), V("p")))])),
                     H.assign("f", ("dist", "Bernoulli", [V("p")])),
                     H.assign("k", ("dist", "Categorical", [V("p"), H.sub(N(1), V("p"))])),
                     H.assign("p", H.ex(H.mul(N(Fr(1, 2)), V("p"))))]}
    cs.append(_finish(prog, "statedep", f"{tag}-statedep-probabilities", nmax=2))
    return cs


# ---------------------------------------------------------------------------------------------
# templates: continuous draws whose parameters change along the run (arguments of every sampler call)
# ---------------------------------------------------------------------------------------------

RVS_FAMILIES = {"Bernoulli", "Normal", "Uniform", "Laplace", "DistExp", "Gamma", "Beta", "TruncNormal"}


def draws_of(prog):
    """(index in body, variable, family, parameter expressions) of the top-level draws answered by scipy;
    None when the shape is outside what the trace check supports"""
    for s in prog["init"]:
        if s[0] != "assign" or s[2][0] == "dist":
            return None
    out = []
    for i, s in enumerate(prog["body"]):
        if s[0] != "assign":
            return None
        if s[2][0] == "dist":
            if s[2][1] not in RVS_FAMILIES:
                return None
            earlier = H.stmts_assigned(prog["body"][:i])
            used = set()
            for pe in s[2][2]:
                H.expr_vars(pe, used)
            if used & earlier:
                return None          # parameters must be functions of the state at the start of the iteration
            out.append((i, s[1], s[2][1], s[2][2]))
    return out


def _trace_case(prog, cid, n=3, note=None):
    c = _finish(prog, "trace", cid, nmax=n, note=note)
    c["draws"] = draws_of(prog)
    assert c["draws"], cid
    c["n"] = n
    return c


def trace_cases(rnd, tag):
    cs = []
    D = lambda name, *ps: ("dist", name, list(ps))  # noqa
    sq = lambda e: H.pw(e, 2)  # noqa
    half = N(Fr(1, 2))
    # the seeded-change program: constant mean, variance grows with the iteration
    prog = {"init": [H.assign("s", H.ex(N(1))), H.assign("x", H.ex(N(0)))], "guard": H.TT,
            "body": [H.assign("x", D("Normal", N(0), sq(V("s")))), H.assign("s", H.ex(H.add(V("s"), N(1))))]}
    cs.append(_trace_case(prog, f"{tag}-normal-variance"))
    # mean and variance move, second draw with a moving mean only, step chosen by a choice
    prog = {"init": [H.assign("s", H.ex(N(1))), H.assign("x", H.ex(N(0))), H.assign("y", H.ex(N(0)))], "guard": H.TT,
            "body": [H.assign("x", D("Normal", V("x"), sq(V("s")))), H.assign("y", D("Normal", V("s"), N(4))),
                     H.assign("s", _choice((H.add(V("s"), N(1)), Fr(1, 2)), (H.add(V("s"), N(2)), Fr(1, 2))))]}
    cs.append(_trace_case(prog, f"{tag}-normal-mean-variance"))
    prog = {"init": [H.assign("s", H.ex(N(1))), H.assign("x", H.ex(N(0))), H.assign("u", H.ex(N(0))),
                     H.assign("l", H.ex(N(0)))], "guard": H.TT,
            "body": [H.assign("u", D("Uniform", V("x"), H.add(V("x"), V("s")))), H.assign("l", D("Laplace", V("x"), V("s"))),
                     H.assign("x", H.ex(H.add(V("x"), H.mul(half, V("s"))))), H.assign("s", H.ex(H.mul(N(2), V("s"))))]}
    cs.append(_trace_case(prog, f"{tag}-uniform-laplace"))
    prog = {"init": [H.assign("s", H.ex(N(1))), H.assign("w", H.ex(N(0))), H.assign("g", H.ex(N(0))),
                     H.assign("b", H.ex(N(0))), H.assign("c", H.ex(N(0)))], "guard": H.TT,
            "body": [H.assign("w", D("DistExp", V("s"))), H.assign("g", D("Gamma", V("s"), H.mul(N(2), V("s")))),
                     H.assign("b", D("Beta", V("s"), H.add(V("s"), N(1)))), H.assign("c", D("Beta", N(1), N(2), V("s"))),
                     H.assign("s", H.ex(H.mul(N(2), V("s"))))]}
    cs.append(_trace_case(prog, f"{tag}-exp-gamma-beta"))
    prog = {"init": [H.assign("s", H.ex(N(1))), H.assign("m", H.ex(N(0))), H.assign("t", H.ex(N(0))),
                     H.assign("f", H.ex(N(0))), H.assign("p", H.ex(half))], "guard": H.TT,
            "body": [H.assign("t", D("TruncNormal", V("m"), sq(V("s")), H.sub(V("m"), N(1)), H.add(V("m"), N(3)))),
                     H.assign("f", D("Bernoulli", V("p"))),
                     H.assign("m", H.ex(H.add(V("m"), half))), H.assign("s", H.ex(H.mul(N(2), V("s")))),
                     H.assign("p", H.ex(H.mul(half, V("p"))))]}
    cs.append(_trace_case(prog, f"{tag}-truncnormal-bernoulli"))
    # constant parameters (a legitimate place for a cache) next to moving ones
    prog = {"init": [H.assign("s", H.ex(N(2))), H.assign("x", H.ex(N(0))), H.assign("y", H.ex(N(0)))], "guard": H.TT,
            "body": [H.assign("x", D("Normal", N(1), N(4))), H.assign("y", D("Uniform", N(0), V("s"))),
                     H.assign("s", H.ex(H.add(V("s"), V("s"))))]}
    cs.append(_trace_case(prog, f"{tag}-constant-and-moving"))
    return cs


# ---------------------------------------------------------------------------------------------
# corpus entries tagged C12
# ---------------------------------------------------------------------------------------------

def corpus_cases(corpus):
    """corpus: list of cases from pipeline.load_corpus('C12').  Discrete programs get dyadic constants and join the
    program / several-runs checks; programs with scipy draws join the sampler-argument trace."""
    discrete, traces = [], []
    for c in corpus:
        p = c["program"]
        name = "corpus-" + c.get("corpus", "?").replace(".json", "")
        if has_continuous(p["init"]) or has_continuous(p["body"]):
            q = {"init": p["init"], "guard": p["guard"], "body": p["body"]}
            if draws_of(q):
                traces.append(_trace_case(q, name))
        else:
            q = dyadicize({"init": p["init"], "guard": p["guard"], "body": p["body"]})
            case = _finish(q, "corpus", name, nmax=2)
            case["multi"] = True
            discrete.append(case)
    return discrete, traces
