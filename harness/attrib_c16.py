"""Attribution of C16 failures to the entries of known_findings.json.

Each function decides from the failing input itself whether the failure is *exactly* the listed
defect of `invariants/exponent_lattice.py`:

  F4  `compute_basis_rational`: the rational nullspace of the multiplicity matrix is cast with
      `.astype(int)`; whenever sympy's nullspace basis has a non-integral entry the truncated vectors
      are neither relations nor generators.
  F4b `is_trivially_empty`: numerators/denominators equal to 1 are dropped before the coprimality test,
      so a list that contains the base 1 next to pairwise coprime numbers gets the empty basis although
      every unit vector at a base 1 is a relation.

A failure is attributed only if (i) the structural signature holds — recomputed here from the input
with an independent exact implementation (trial division, Fraction row reduction) and agreeing with
what polar-model reports; (ii) the code returned exactly what the Lean model of the *current* code
(`kernelAsCoded`) returns, i.e. nothing else went wrong on the way; (iii) the same input re-run with
the suggested repair patched in memory passes all three verdicts of the specification.  Anything else
stays a violation."""
from fractions import Fraction as Fr
from math import gcd


def factorint(n):
    n = abs(int(n))
    out = {}
    p = 2
    while p * p <= n:
        while n % p == 0:
            out[p] = out.get(p, 0) + 1
            n //= p
        p += 1 if p == 2 else 2
    if n > 1:
        out[n] = out.get(n, 0) + 1
    return out


def code_matrix(bases):
    """the matrix `compute_basis_rational` builds (rows = primes, then the sign row with the entry 2)"""
    k = len(bases)
    primes = []
    for b in bases:
        for n in (b.numerator, b.denominator):
            for p in factorint(n):
                if p not in primes:
                    primes.append(p)
    rows = []
    for p in primes:
        rows.append([Fr(factorint(b.numerator).get(p, 0) - factorint(b.denominator).get(p, 0)) for b in bases])
    neg = any(b < 0 for b in bases)
    if neg:
        rows = [r + [Fr(0)] for r in rows] + [[Fr(1 if b < 0 else 0) for b in bases] + [Fr(2)]]
    return rows, (k + 1 if neg else k), neg


def rref_nullspace(rows, ncols):
    """sympy-style nullspace: reduced row echelon form, one vector per free column"""
    M = [list(r) for r in rows]
    piv = []
    r = 0
    for c in range(ncols):
        p = next((i for i in range(r, len(M)) if M[i][c] != 0), None)
        if p is None:
            continue
        M[r], M[p] = M[p], M[r]
        a = M[r][c]
        M[r] = [x / a for x in M[r]]
        for i in range(len(M)):
            if i != r and M[i][c] != 0:
                f = M[i][c]
                M[i] = [x - f * y for x, y in zip(M[i], M[r])]
        piv.append(c)
        r += 1
    out = []
    for f in range(ncols):
        if f in piv:
            continue
        v = [Fr(0)] * ncols
        v[f] = Fr(1)
        for i, c in enumerate(piv):
            v[c] = -M[i][f]
        out.append(v)
    return out


def is_trivially_empty(bases):
    """`ExponentLattice.is_trivially_empty` for rational bases, re-implemented"""
    if not bases:
        return True
    nums = [b.numerator for b in bases if b.numerator != 1]
    dens = [b.denominator for b in bases if b.denominator != 1]
    if not all(abs(n) > 1 for n in nums):
        return False
    l = nums + dens
    return all(gcd(l[i], l[j]) == 1 for i in range(len(l)) for j in range(i + 1, len(l)))


def signature(bases_str):
    bases = [Fr(s) for s in bases_str]
    triv = is_trivially_empty(bases)
    has_one = any(b == 1 for b in bases)
    nonint = False
    if not triv:
        rows, ncols, neg = code_matrix(bases)
        ns = rref_nullspace(rows, ncols)
        k = len(bases)
        nonint = any(x.denominator != 1 for v in ns for x in v[:k])
    return {"trivially_empty": triv, "has_one": has_one, "nonintegral_nullspace": nonint}


def in_signature(bases_str):
    s = signature(bases_str)
    if s["trivially_empty"] and s["has_one"]:
        return "F4b"
    if (not s["trivially_empty"]) and s["nonintegral_nullspace"]:
        return "F4"
    return None


def _common(rec):
    if rec.get("kind") != "rational":
        return None
    out, model = rec.get("out") or {}, rec.get("model") or {}
    if out.get("status") != "ok" or not model.get("ok"):
        return None
    if out.get("basis") != model.get("basis"):          # (ii) exactly the modelled behaviour
        return None
    sig = signature(rec["bases"])
    # (i) the harness' own computation and the Lean model must agree on the signature
    if sig["trivially_empty"] != model.get("trivially_empty") or sig["has_one"] != model.get("has_one"):
        return None
    if not sig["trivially_empty"] and sig["nonintegral_nullspace"] == model.get("integral"):
        return None
    return sig


def truncation(prop, rec):
    sig = _common(rec)
    if not sig or sig["trivially_empty"] or not sig["nonintegral_nullspace"]:
        return None
    if rec["out"].get("branch") != "rational":
        return None
    if not rec.get("repaired", {}).get("kernel"):        # (iii)
        return None
    return True


def base_one(prop, rec):
    sig = _common(rec)
    if not sig or not (sig["trivially_empty"] and sig["has_one"]):
        return None
    if rec["out"].get("branch") != "trivial" or rec["out"].get("basis") != []:
        return None
    v = rec.get("verdict") or {}
    if not v.get("ok") or v.get("complete") or not v.get("independent"):
        return None
    # the missing relations are exactly the unit vectors at the positions of the bases 1: the verified
    # basis has as many rows as there are ones and every row vanishes outside those positions
    ones = [i for i, s in enumerate(rec["bases"]) if Fr(s) == 1]
    spec = v.get("spec_basis", [])
    if len(spec) != len(ones) or any(x != 0 for row in spec for i, x in enumerate(row) if i not in ones):
        return None
    if not rec.get("repaired", {}).get("one"):           # (iii)
        return None
    return True
