"""Attribution of C13 failures to entries of known_findings.json.

Each function gets the failing record produced by harness/checks/c13.py and decides — by re-running
the real code with exactly ONE defect repaired in memory (harness/tasks/c13.py: `_apply_repairs`) —
whether this failure is the listed finding.  A failure that the single repair does not cure is not
attributed (and is therefore reported as a violation).

    (F5, the "Expt" typo in the guard of get_func_moment, was repaired in /repo e78913c; it has no
    attribution any more: a recurrence is a violation.)
    F131  conditioned functional assignment `s = Sin(u) | cond : s`: the new function value and the
          default share the symbol `s`, the condition is lost.  Cure: with a separate placeholder
          for the new value the closed forms agree with the oracle.
    F133  derivative of a Piecewise transform at its special point (Beta.cf is
          Piecewise((generic, t != 0), (1, True)); `diff` differentiates the constant branch to 0, so
          the frequency-0 term phi^(a)(0) = i^a E[X^a] of get_trig_moment is dropped for a >= 1).
          Cure: with the derivative at 0 taken as the limit of the generic branch the values agree.
    F132  decimal literals that are not converted to rationals (argument of Sin/Cos/Exp, distribution
          parameters such as `pi/4 - 0.1`) stay machine floats: results carry ~1e-13..1e-17 errors
          also in exact mode.  Cure: with the literals converted the values agree.
"""
from . import c13_lib as L
from .pool import run_tasks


def _run(fn, args, timeout=240):
    r = run_tasks([{"fn": "harness.tasks.c13:" + fn, "args": args}], timeout=timeout, nworkers=1)[0]
    if r.get("status") != "ok":
        return None
    return r["result"]


def _program_agrees(record, repairs):
    """re-run the program with the repairs; True iff every expected value is matched"""
    res = _run("analyze_repaired", {"text": record["text"], "goals": record["goals"], "nmax": record["nmax"],
                                    "settings": {"exact_func_moments": record["mode"] == "exact"},
                                    "repairs": list(repairs)})
    if not res or not res.get("accepted") or len(res.get("goals", [])) != len(record["goals"]):
        return False
    for g, exp_row, scale_row in zip(res["goals"], record["expected"], record["scales"]):
        if not g.get("ok"):
            return False
        for v, e, sc in zip(g["values"], exp_row, scale_row):
            if e is None:
                return False
            act = L.value_of_tagged(v)
            if act is None:
                return False
            mp = L._mp()
            if not L.close(act, mp.mpf(e), mp.mpf(sc), record["mode"]):
                return False
    return True


def _has_conditioned_func(prog):
    def walk(stmts, inside):
        for st in stmts:
            if st[0] == "assign":
                if inside and any(r[0] == "func" for r in st[2]):
                    return True
            else:
                if walk(st[2], True) or walk(st[3], True):
                    return True
        return False
    return walk(prog["init"], False) or walk(prog["body"], False)


def attr_f131(prop, record):
    if record.get("kind") != "program":
        return None
    try:
        prog = L.parse_prob(record["text"])
    except Exception:
        return None
    if not _has_conditioned_func(prog):
        return None
    if _program_agrees(record, ["condfunc"]):
        return ("conditioned functional assignment: the condition and the default are lost "
                f"(E at first mismatch: polar {record.get('actual')}, true {record.get('expected_at')})")
    return None


def _has_decimal(text):
    import re
    body = "\n".join(l.split("#")[0] for l in text.split("\n"))
    return re.search(r"(?<![A-Za-z_0-9])\d*\.\d+", body) is not None


def attr_f132(prop, record):
    kind = record.get("kind")
    if kind == "const":
        if "." not in str(record["arg"]):
            return None
        res = _run("const_moment_repaired", {"func": record["func"], "arg": record["arg"], "k": record["k"],
                                             "exact": record["mode"] == "exact", "repairs": ["floats"]})
        if not res or not res.get("ok"):
            return None
        mp = L._mp()
        exp = mp.mpf(record["expected"])
        if L.close((mp.mpf(res["re"]), mp.mpf(res["im"])), exp, abs(exp), record["mode"]):
            return (f"{record['func']}({record['arg']})**{record['k']} is evaluated in machine floats "
                    f"({record['mode']} mode: {record.get('actual')}, true {record['expected']})")
        return None
    if kind == "program":
        if not _has_decimal(record["text"]):
            return None
        if _program_agrees(record, ["floats"]):
            return ("decimal literal kept as a machine float (argument of a functional assignment or a parameter "
                    f"like pi/4 - 0.1): polar {record.get('actual')}, true {record.get('expected_at')}")
        return None
    return None


def attr_f133(prop, record):
    kind = record.get("kind")
    mp = L._mp()
    if kind == "moment":
        pw = record["powers"]
        if record.get("family") != "Beta" or pw.get("Id", 0) < 1 or "Exp" in pw:
            return None
        if (pw.get("Sin", 0) + pw.get("Cos", 0)) % 2 != 0 or record.get("expected") is None:
            return None
        res = _run("polar_moment_repaired", {"family": record["family"], "params": record["params"], "powers": pw,
                                             "mode": record["mode"], "repairs": ["freq0"]})
        if not res or not res.get("ok"):
            return None
        exp = mp.mpf(record["expected"])
        if L.close((mp.mpf(res["re"]), mp.mpf(res["im"])), exp, abs(exp), record["mode"]):
            return (f"get_func_moment(Beta({', '.join(record['params'])}), {pw}) drops the frequency-0 term "
                    f"(derivative of the Piecewise cf at t = 0 is taken of the constant branch): "
                    f"returned {record.get('actual')}, true value {record.get('expected')}")
        return None
    if kind == "program":
        if "Beta(" not in record["text"]:
            return None
        if _program_agrees(record, ["freq0"]):
            return ("Beta draw with X**a (a >= 1) times an even power of Sin/Cos: the frequency-0 term is dropped "
                    f"(polar {record.get('actual')}, true {record.get('expected_at')})")
        return None
    return None
