"""Attribution of C13 failures to entries of known_findings.json.

The function gets the failing record produced by harness/checks/c13.py and decides — by re-running the
real code with exactly ONE defect repaired in memory (harness/tasks/c13.py: `_apply_repairs`) — whether
this failure is the listed finding.  A failure that the repair does not cure is not attributed (and is
therefore reported as a violation).

    F132  decimal literals that are not converted to rationals (argument of Sin/Cos/Exp, distribution
          parameters such as `pi/4 - 0.1`) stay machine floats: results carry ~1e-13..1e-17 errors
          also in exact mode.  Cure: with the literals converted the values agree.

F5 ("Expt" typo, /repo e78913c), F131 (conditioned functional assignment, 2697d27) and F133 (frequency-0
term, c7c1f2a) are fixed; they have no attribution any more: a recurrence is a violation.
"""
from . import c13_lib as L
from .pool import run_tasks


def _run(fn, args, timeout=240):
    r = run_tasks([{"fn": "harness.tasks.c13:" + fn, "args": args}], timeout=timeout, nworkers=1)[0]
    if r.get("status") != "ok":
        return None
    return r["result"]


def _program_agrees(record, repairs):
    """re-run the program with the repairs; True iff every expected value is matched"""
    res = _run("analyze_repaired", {"text": record["text"], "goals": record["goals"], "nmax": record["nmax"],
                                    "settings": {"exact_func_moments": record["mode"] == "exact"},
                                    "repairs": list(repairs)})
    if not res or not res.get("accepted") or len(res.get("goals", [])) != len(record["goals"]):
        return False
    for g, exp_row, scale_row in zip(res["goals"], record["expected"], record["scales"]):
        if not g.get("ok"):
            return False
        for v, e, sc in zip(g["values"], exp_row, scale_row):
            if e is None:
                return False
            act = L.value_of_tagged(v)
            if act is None:
                return False
            mp = L._mp()
            if not L.close(act, mp.mpf(e), mp.mpf(sc), record["mode"]):
                return False
    return True


def _has_decimal(text):
    import re
    body = "\n".join(l.split("#")[0] for l in text.split("\n"))
    return re.search(r"(?<![A-Za-z_0-9])\d*\.\d+", body) is not None


def attr_f132(prop, record):
    kind = record.get("kind")
    if kind == "const":
        if "." not in str(record["arg"]):
            return None
        res = _run("const_moment_repaired", {"func": record["func"], "arg": record["arg"], "k": record["k"],
                                             "exact": record["mode"] == "exact", "repairs": ["floats"]})
        if not res or not res.get("ok"):
            return None
        mp = L._mp()
        exp = mp.mpf(record["expected"])
        if L.close((mp.mpf(res["re"]), mp.mpf(res["im"])), exp, abs(exp), record["mode"]):
            return (f"{record['func']}({record['arg']})**{record['k']} is evaluated in machine floats "
                    f"({record['mode']} mode: {record.get('actual')}, true {record['expected']})")
        return None
    if kind == "program":
        if not _has_decimal(record["text"]):
            return None
        if _program_agrees(record, ["floats"]):
            return ("decimal literal kept as a machine float (argument of a functional assignment or a parameter "
                    f"like pi/4 - 0.1): polar {record.get('actual')}, true {record.get('expected_at')}")
        return None
    return None
