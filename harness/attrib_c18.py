"""Attribution for C18 known findings (liveness half)."""


def untyped_branch_bounded_variable(prop, rec):
    """F18: a finitely valued variable whose finiteness follows only from the branch conditions it is
    updated under (a counter that wraps, a flag that is only set once, nested branches reassigning their own
    condition variable) gets no finite type from the fixed-point typer, which ignores conditions; the
    normaliser then refuses the condition over its `_old` copy.  Attributed only if (a) the refusal comes from
    ConditionsNormalizer._try_abstract_failed_condition with the dependency message and (b) the same program
    with the types of its finite variables declared explicitly is accepted and analysed correctly
    (`rec["repair_ok"]`, computed by the check)."""
    e = rec.get("error") or {}
    if e.get("etype") != "NormalizingException" or e.get("func") != "_try_abstract_failed_condition":
        return None
    if "dependency" not in e.get("message", ""):
        return None
    if not rec.get("repair_ok"):
        return None
    return "finite type not inferred for a variable that is bounded only through its branch conditions (accepted and correct once the type is declared)"
