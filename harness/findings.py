"""Attribution of failing inputs to entries of known_findings.json (DESIGN §7).

An entry names an attribution function `module:function(prop, record) -> str | None`; the function
decides from the failing input itself (call site / shape, re-running with an in-memory repair where
needed) whether this failure is the listed finding.  Nothing here ever writes the file."""
import importlib

from .common import load_known_findings


def attribute(prop, record):
    kf = load_known_findings()
    for ent in kf.get("known", []):
        if ent.get("property") != prop:
            continue
        fn = ent.get("attribution")
        if not fn:
            continue
        mod, name = fn.split(":")
        try:
            f = getattr(importlib.import_module(mod), name)
            what = f(prop, record)
        except Exception as e:  # noqa
            what = None
        if what:
            return ent["id"], what if isinstance(what, str) else ent.get("what", "")
    return None
