"""Registry: the Lean theorems each property's check audits (`#print axioms`, allowed: propext,
Classical.choice, Quot.sound).  lean/Audit.lean is generated from this table."""

THEOREMS = {
    "C01": [
        "CFin.eq_zero_of_ann_monic",
        "CFin.ann_expSeq",
        "CFin.ann_matrix_seq",
    ],
}
