"""Attribution of C08 failures to entries of known_findings.json.  Every function recognises exactly one defect
from the failing record itself (the outcome of an in-memory repair that the check ran in a worker and stored in the
record); anything else of the same kind stays a violation.

(F6 Bernoulli.get_moment(0), F41 DiscreteUniform.cf(0)/mgf(0) and F43 _reduce_powers were repaired in /repo —
commits 32294d7, 2c880c9, e1efeb4 — and are no longer excused: a recurrence is a VIOLATION.)

F40 — `TruncNormal.get_moment` evaluates its erf recursion in binary double precision (`float(m[k].simplify())`)
      and returns the decimal expansion of that double as an "exact" rational.  In the tail or for higher orders
      the subtraction Φ(β) − Φ(α) / the recursion cancel catastrophically (TruncNormal(0,1,8,9): mean off by 1.9 %).
      Attribution by in-memory repair: the same recursion of the same class with the final `float` replaced by a
      60-digit evaluation (harness.tasks.c08:truncnormal_repaired) agrees with the quadrature to 1e-25.

F42 — `get_moment` is wrapped in functools.lru_cache keyed on (self, k) but `subs` mutates the parameters of self:
      get_moment(k) → subs(σ) → get_moment(k) returns the stale pre-substitution value.
      Attribution by in-memory repair: after `type(d).get_moment.cache_clear()` the same object returns the value
      of a fresh object substituted before its first call, and that value is the specification moment.
"""
from fractions import Fraction as Fr


def truncnormal_double(prop, record):
    if prop != "C08" or record.get("kind") != "moment" or record.get("name") != "TruncNormal":
        return None
    rep = record.get("repaired")
    if rep is None:
        return None
    try:
        truth = Fr(record["expected"])
        err = abs(Fr(rep) - truth) / max(abs(truth), Fr(1))
    except Exception:  # noqa
        return None
    if err > Fr(1, 10 ** 25):
        return None
    return ("TruncNormal.get_moment evaluates its recursion in double precision: "
            f"TruncNormal({', '.join(record['params'])}).get_moment({record['k']}) is off by {record.get('rel_err'):.1e} relative; "
            "the same recursion evaluated with 60 digits agrees with the quadrature")


def stale_cache(prop, record):
    if prop != "C08" or record.get("kind") != "subs":
        return None
    fresh, cleared, stale = record.get("expected"), record.get("after_cache_clear"), record.get("actual")
    if not fresh or not cleared or not stale:
        return None
    if fresh[0] != "q" or cleared != fresh or stale == fresh:
        return None
    return (f"{record['name']}.get_moment is lru_cached on (self, k) but subs() mutates self: "
            f"get_moment({record['k']}) after subs returns the pre-substitution value; correct after cache_clear()")
