"""Attribution of C08 failures to entries of known_findings.json.  Every function recognises exactly one defect
from the failing record itself (exact structural signature, or the outcome of an in-memory repair that the check
ran in a worker and stored in the record); anything else of the same kind stays a violation.

F6  — `Bernoulli.get_moment(_)` returns `p` for every order, also for k = 0 where the true moment is 1.
      Signature: family Bernoulli, order exactly 0, the reported value equals the parameter p, the true value is 1,
      and every other order of the same object agreed with the specification.

F40 — `TruncNormal.get_moment` evaluates its erf recursion in binary double precision (`float(m[k].simplify())`)
      and returns the decimal expansion of that double as an "exact" rational.  In the tail or for higher orders
      the subtraction Φ(β) − Φ(α) / the recursion cancel catastrophically (TruncNormal(0,1,8,9): mean off by 1.9 %).
      Attribution by in-memory repair: the same recursion of the same class with the final `float` replaced by a
      60-digit evaluation (harness.tasks.c08:truncnormal_repaired) agrees with the quadrature to 1e-25.

F41 — `DiscreteUniform.cf(0)` / `.mgf(0)` evaluate the closed geometric-sum formula at its removable singularity:
      0/0 = nan instead of 1 (Uniform special-cases t = 0, DiscreteUniform does not).
      Signature: family DiscreteUniform, observable cf or mgf at t = 0, reported value undefined (nan/zoo), and the
      limit of the very same expression at 0 is 1.

F42 — `get_moment` is wrapped in functools.lru_cache keyed on (self, k) but `subs` mutates the parameters of self:
      get_moment(k) → subs(σ) → get_moment(k) returns the stale pre-substitution value.
      Attribution by in-memory repair: after `type(d).get_moment.cache_clear()` the same object returns the value
      of a fresh object substituted before its first call, and that value is the specification moment.

F43 — `RecBuilder._reduce_powers` hands an expression that is not fully expanded to `get_terms_with_vars`, which reads
      every factor that mentions a finite variable as a power of that variable: after DistTransformer has rewritten
      `Normal(mu, s2(u))` with a finite-typed `u` to `mu + sqrt(s2(u))·t`, the square contains the factor `(1 + u)`
      (symengine leaves `sqrt(1+u)**2·t**2` as `(1 + u)*t**2`), which is read as `u`: the constant part is lost.
      Attribution by in-memory repair: the same pipeline with `_reduce_powers` expanding its argument first
      (harness.tasks.c08:analyze_repaired) reports exactly the specification value.
"""
from fractions import Fraction as Fr


def bernoulli_m0(prop, record):
    if prop != "C08" or record.get("kind") != "moment" or record.get("name") != "Bernoulli":
        return None
    try:
        if int(record.get("k", -1)) != 0 or Fr(record["expected"]) != 1:
            return None
        p = Fr(record["values"][0])
        if Fr(record["actual"]) != p or p == 1:
            return None
    except Exception:  # noqa
        return None
    if record.get("other_orders_agree") is not True:
        return None
    return f"Bernoulli({record['params'][0]}).get_moment(0) = p = {record['actual']} instead of 1 (returns p for every order)"


def truncnormal_double(prop, record):
    if prop != "C08" or record.get("kind") != "moment" or record.get("name") != "TruncNormal":
        return None
    rep = record.get("repaired")
    if rep is None:
        return None
    try:
        truth = Fr(record["expected"])
        err = abs(Fr(rep) - truth) / max(abs(truth), Fr(1))
    except Exception:  # noqa
        return None
    if err > Fr(1, 10 ** 25):
        return None
    return ("TruncNormal.get_moment evaluates its recursion in double precision: "
            f"TruncNormal({', '.join(record['params'])}).get_moment({record['k']}) is off by {record.get('rel_err'):.1e} relative; "
            "the same recursion evaluated with 60 digits agrees with the quadrature")


def discrete_uniform_at0(prop, record):
    if prop != "C08" or record.get("kind") != "transform-at0" or record.get("name") != "DiscreteUniform":
        return None
    if record.get("which") not in ("cf", "mgf"):
        return None
    act = record.get("actual") or []
    if not act or act[0] != "undefined":
        return None
    try:
        if Fr(record.get("limit_value")) != 1 or record.get("limit_method") not in ("series", "limit"):
            return None
    except Exception:  # noqa
        return None
    return f"DiscreteUniform.{record['which']}(0) is {act[1]} (0/0 of the closed geometric-sum formula) instead of 1"


def stale_cache(prop, record):
    if prop != "C08" or record.get("kind") != "subs":
        return None
    fresh, cleared, stale = record.get("expected"), record.get("after_cache_clear"), record.get("actual")
    if not fresh or not cleared or not stale:
        return None
    if fresh[0] != "q" or cleared != fresh or stale == fresh:
        return None
    return (f"{record['name']}.get_moment is lru_cached on (self, k) but subs() mutates self: "
            f"get_moment({record['k']}) after subs returns the pre-substitution value; correct after cache_clear()")


def reduce_powers_unexpanded(prop, record):
    if prop != "C08" or record.get("kind") != "pipeline":
        return None
    rep = record.get("repaired")
    try:
        if not rep or rep[0] != "q" or Fr(rep[1]) != Fr(record["expected"]) or Fr(record["actual"]) == Fr(record["expected"]):
            return None
    except Exception:  # noqa
        return None
    return (f"`{record.get('tag')}`: E({record['goal']})({record['n']}) = {record['actual']} instead of {record['expected']}: "
            "RecBuilder._reduce_powers / get_terms_with_vars mis-read the unexpanded factor left by sqrt(variance)**2 "
            "(finite-typed variable in the variance of a rewritten Normal); correct when the expression is expanded first")
