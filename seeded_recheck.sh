#!/bin/bash
# usage: seeded_recheck.sh <id> <check> [<check>...]   -- re-runs checks against the stored seeded change seeded/<id>/
id=$1; shift
dst=/verif/seeded/$id
wt=/tmp/seedwt_$id
[ -f $dst/patch.diff ] || { echo "no such seeded change $id"; exit 3; }
git -C /repo worktree remove --force $wt 2>/dev/null
git -C /repo worktree add -q $wt HEAD || exit 3
cd $wt
clean=$( /venv/bin/python $dst/demo.py > $dst/demo_clean.log 2>&1; echo $? )
if ! git apply --3way $dst/patch.diff 2> $dst/apply.log; then echo "$id PATCH DOES NOT APPLY"; git -C /repo worktree remove --force $wt; exit 4; fi
mut=$( /venv/bin/python $dst/demo.py > $dst/demo_mutated.log 2>&1; echo $? )
suite="${SUITE_RESULT:-not re-run}"
if [ "${RUN_SUITE:-0}" = "1" ]; then suite=$( /venv/bin/python -m pytest -q -p no:cacheprovider --timeout=900 2>&1 | grep -E "passed|failed" | tail -1 ); fi
cd /verif
results=""
line="$id demo clean=$clean changed=$mut |"
for c in "$@"; do
  POLAR_REPO=$wt ./check $c --tier quick > $dst/check_$c.log 2>&1
  ex=$?
  nviol=$(grep "^VIOLATION" $dst/check_$c.log | grep -vc "no-failing-input-found")
  results="$results {\"check\":\"$c\",\"exit\":$ex,\"concrete_violations\":$nviol},"
  line="$line $c:exit=$ex,concrete=$nviol"
done
echo "$line"
python3 - "$dst/meta.json" "$clean" "$mut" "[${results%,}]" "$(git -C /repo rev-parse --short HEAD)" <<'PY'
import json,sys
p,clean,mut,res,base=sys.argv[1:6]
m=json.load(open(p))
m["demo_exit_on_unchanged_tree"]=int(clean); m["demo_exit_with_change"]=int(mut); m["checks_run"]=json.loads(res); m["base_commit"]=base
json.dump(m,open(p,"w"),indent=1)
PY
git -C /repo worktree remove --force $wt
