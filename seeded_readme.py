#!/usr/bin/env python3
"""Regenerates seeded/README.md from seeded/*/meta.json."""
import glob
import json
import os

root = os.path.dirname(os.path.abspath(__file__))
summ = {}
sp = os.path.join(root, "seeded", "summaries.json")
if os.path.exists(sp):
    summ = json.load(open(sp))
rows = []
for f in sorted(glob.glob(os.path.join(root, "seeded", "*", "meta.json"))):
    m = json.load(open(f))
    caught = [c["check"] for c in m.get("checks_run", []) if c.get("concrete_violations", 0) > 0]
    missed = [c["check"] for c in m.get("checks_run", []) if c.get("concrete_violations", 0) == 0]
    sm = summ.get(m["id"], ["", ""])
    rows.append((m["id"], m["breaks_property"], m.get("summary", sm[0]), m.get("needs", sm[1]),
                 f"{m.get('demo_exit_on_unchanged_tree')}/{m.get('demo_exit_with_change')}",
                 m.get("repo_suite_with_change", "").split(",")[1].strip() if "," in m.get("repo_suite_with_change", "") else m.get("repo_suite_with_change", ""),
                 ", ".join(caught) or "—", ", ".join(missed) or "—"))
out = ["# Seeded changes (written by fresh sub-agents that saw only the property text)\n",
       "Each directory holds `patch.diff`, `demo.py` (exit 0 / PASS on the unchanged tree, exit 1 / FAIL with the change),",
       "`meta.json` and the logs of the checks run against the changed tree (`POLAR_REPO=<scratch worktree> ./check Cxx`).\n",
       "| id | breaks | what / needs to manifest | demo clean/changed | suite with change | caught by (concrete replay) | run but not caught |",
       "|---|---|---|---|---|---|---|"]
for r in rows:
    out.append(f"| {r[0]} | {r[1]} | {r[2]} {('— needs: ' + r[3]) if r[3] else ''} | {r[4]} | {r[5]} | {r[6]} | {r[7]} |")
open(os.path.join(root, "seeded", "README.md"), "w").write("\n".join(out) + "\n")
print(len(rows), "seeded changes")
