#!/bin/bash
# usage: seeded_eval.sh <PROP> <A|B> <check> [<check>...]
# confirms a seeded change (demo PASS on clean tree, FAIL with the change, repo suite still 134 passed) in a scratch
# worktree, stores it under /verif/seeded/<PROP>_<A|B>/ and runs the given checks against the changed tree.
prop=$1; ab=$2; shift 2
src=${MUTSRC:-/tmp/mutout}/$prop
id=${prop}_$ab${MUTSUFFIX:-}
dst=/verif/seeded/$id
wt=/tmp/seedwt_$id
mkdir -p $dst
cp $src/$ab.diff $dst/patch.diff
cp $src/${ab}_demo.py $dst/demo.py
[ -f $src/notes.md ] && cp $src/notes.md $dst/notes_from_author.md
for f in $src/*.prob $src/*.bif; do [ -f "$f" ] && cp "$f" $dst/; done
git -C /repo worktree remove --force $wt 2>/dev/null
git -C /repo worktree add -q $wt HEAD || exit 3
cd $wt
clean=$( /venv/bin/python $dst/demo.py > $dst/demo_clean.log 2>&1; echo $? )
if ! git apply --3way $dst/patch.diff 2> $dst/apply.log; then echo "PATCH DOES NOT APPLY"; cat $dst/apply.log | tail -3; git -C /repo worktree remove --force $wt; exit 4; fi
git diff HEAD > $dst/patch_applied.diff
mut=$( /venv/bin/python $dst/demo.py > $dst/demo_mutated.log 2>&1; echo $? )
suite=$( /venv/bin/python -m pytest -q -p no:cacheprovider --timeout=900 2>&1 | grep -E "passed|failed" | tail -1 )
echo "demo clean exit=$clean  mutated exit=$mut  suite: $suite"
cd /verif
results=""
for c in "$@"; do
  VERIF_DEV_NOBUILD=${VERIF_DEV_NOBUILD:-0} POLAR_REPO=$wt ./check $c --tier quick > $dst/check_$c.log 2>&1
  ex=$?
  nviol=$(grep "^VIOLATION" $dst/check_$c.log | grep -vc "no-failing-input-found")
  first=$(grep -A1 "^VIOLATION" $dst/check_$c.log | grep -v "no-failing-input-found" | grep "^  ->" | head -1)
  echo "  $c exit=$ex concrete_violations=$nviol $first"
  results="$results {\"check\":\"$c\",\"exit\":$ex,\"concrete_violations\":$nviol},"
done
cat > $dst/meta.json <<META
{"id": "$id", "breaks_property": "$prop", "author": "fresh sub-agent given only the property text and a scratch worktree",
 "demo_exit_on_unchanged_tree": $clean, "demo_exit_with_change": $mut, "repo_suite_with_change": "$suite",
 "base_commit": "$(git -C /repo rev-parse --short HEAD)",
 "checks_run": [${results%,}],
 "what_ran": "seeded_eval.sh: git worktree of /repo HEAD, demo before/after git apply --3way patch.diff, full pytest, then POLAR_REPO=<worktree> ./check <C> --tier quick"}
META
git -C /repo worktree remove --force $wt
