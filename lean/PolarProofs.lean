import PolarProofs.CFinite
