import PolarProofs

-- generated from harness/theorems.py: axioms of every property theorem
#print axioms CFin.eq_zero_of_ann_monic
#print axioms CFin.ann_expSeq
#print axioms CFin.ann_matrix_seq
