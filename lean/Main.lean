import Polar
open Lean Polar

/-- all operations of the line protocol; builders append `++ Polar.yourOps` on their own line -/
def allOps : List (String × (Json → D Json)) :=
  Polar.coreOps
  ++ Polar.latticeOps
  ++ Polar.linAlgOps
  ++ Polar.bnOps
  ++ Polar.distOps
  ++ Polar.statsOps
  ++ Polar.simOps
  ++ Polar.trigOps
  ++ Polar.invariantOps
  ++ Polar.synthOps
  ++ Polar.limitOps
  ++ Polar.validateOps
  ++ Polar.validateSimOps

def dispatch (j : Json) : Json :=
  match jField j "op" >>= jStr with
  | .error e => errJson e
  | .ok op =>
    match allOps.lookup op with
    | none => errJson s!"unknown op {op}"
    | some f =>
      match f j with
      | .ok v => v
      | .error e => errJson e

partial def loop (h : IO.FS.Stream) (out : IO.FS.Stream) : IO Unit := do
  let line ← h.getLine
  if line.isEmpty then return ()
  let t := line.trimAscii.toString
  if t.isEmpty then
    loop h out
  else
    let res := match Json.parse t with
      | .ok j => dispatch j
      | .error e => errJson s!"json: {e}"
    out.putStrLn res.compress
    out.flush
    loop h out

def main : IO Unit := do
  loop (← IO.getStdin) (← IO.getStdout)
