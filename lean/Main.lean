import Polar
open Lean Polar

def dispatch (j : Json) : Json :=
  match jField j "op" >>= jStr with
  | .error e => errJson e
  | .ok op =>
    let r : D Json :=
      match op with
      | "moments" => opMoments j
      | "dist" => opDist j
      | "distmoment" => opDistMoment j
      | _ => throw s!"unknown op {op}"
    match r with
    | .ok v => v
    | .error e => errJson e

partial def loop (h : IO.FS.Stream) (out : IO.FS.Stream) : IO Unit := do
  let line ← h.getLine
  if line.isEmpty then return ()
  let t := line.trimAscii.toString
  if t.isEmpty then
    loop h out
  else
    let res := match Json.parse t with
      | .ok j => dispatch j
      | .error e => errJson s!"json: {e}"
    out.putStrLn res.compress
    out.flush
    loop h out

def main : IO Unit := do
  loop (← IO.getStdin) (← IO.getStdout)
